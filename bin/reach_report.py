#!/usr/bin/env python3
"""usage: reach_report.py <cover.txt> <repo>  - merges a Go text coverage profile; prints statement reach per zlint package,
then every unreached block of v3 (file:line-range + first source line)."""
import sys, collections, os, re
prof, repo = sys.argv[1], sys.argv[2]
json_into = sys.argv[4] if len(sys.argv) > 4 and sys.argv[3] == '--json' else None
blocks = {}
for ln in open(prof):
    if ln.startswith('mode:'): continue
    m = re.match(r'(.+):(\d+)\.(\d+),(\d+)\.(\d+) (\d+) (\d+)$', ln.strip())
    if not m: continue
    f, l0, c0, l1, c1, n, cnt = m.group(1), *map(int, m.groups()[1:])
    if not f.startswith('github.com/zmap/zlint/v3/'): continue
    k = (f, l0, c0, l1, c1)
    o = blocks.get(k, (n, 0))
    blocks[k] = (n, o[1] + cnt)
pk = collections.defaultdict(lambda: [0, 0])
for (f, *_), (n, cnt) in blocks.items():
    p = os.path.dirname(f)
    pk[p][0] += n
    if cnt: pk[p][1] += n
tot = [sum(v[0] for v in pk.values()), sum(v[1] for v in pk.values())]
if json_into:
    import json
    unreached = []
    for k in sorted(blocks):
        n, cnt = blocks[k]
        if cnt or n == 0: continue
        f = k[0].replace('github.com/zmap/zlint/', '')
        if f.startswith('v3/lints/') or f.startswith('v3/util/'):
            unreached.append("%s:%d-%d" % (f, k[1], k[3]))
    ev = json.load(open(json_into))
    ev.setdefault('coverage', {})['statement_reach'] = {
        'what': 'Go statement coverage (-cover -covermode=atomic -coverpkg=github.com/zmap/zlint/v3/...) of the zlint packages, summed over every worker process of this run: statements the monitored workload executed / statements compiled in',
        'zlint_statements_executed': tot[1], 'zlint_statements_total': tot[0],
        'per_package': {p.replace('github.com/zmap/zlint/v3', 'v3'): {'executed': v[1], 'total': v[0]} for p, v in sorted(pk.items())},
        'unreached_blocks_in_lints_and_util': unreached,
    }
    json.dump(ev, open(json_into, 'w'), indent=1)
    print("statement reach merged into %s: %d/%d zlint statements executed, %d unreached blocks in lints+util" % (json_into, tot[1], tot[0], len(unreached)))
    sys.exit(0)
print("statement reach of zlint packages under this workload: %d/%d = %.1f%%" % (tot[1], tot[0], 100.0 * tot[1] / max(1, tot[0])))
for p in sorted(pk):
    t, h = pk[p]
    print("  %-60s %6d/%-6d %5.1f%%" % (p.replace('github.com/zmap/zlint/v3', 'v3'), h, t, 100.0 * h / max(1, t)))
print()
print("unreached blocks:")
src = {}
for k in sorted(blocks):
    n, cnt = blocks[k]
    if cnt or n == 0: continue
    f, l0, c0, l1, c1 = k
    path = os.path.join(repo, f.replace('github.com/zmap/zlint/', ''))
    if path not in src:
        try: src[path] = open(path).read().split('\n')
        except Exception: src[path] = []
    s = src[path]
    # first non-empty statement line inside the block
    first = ''
    for i in range(l0 - 1, min(l1, len(s))):
        t = s[i].strip()
        if i == l0 - 1: t = s[i][c0 - 1:].strip().lstrip('{').strip()
        if t and t != '}':
            first = t; break
    print("%s:%d-%d [%d stmts] %s" % (f.replace('github.com/zmap/zlint/', ''), l0, l1, n, first[:110]))
