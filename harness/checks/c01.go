package checks

import (
	"fmt"
	"sort"
	"strings"

	"github.com/zmap/zlint/v3/lint"

	"verif/corpus"
	"verif/mon"
)

// C01 - every lint run returns a complete, well-formed result set.

type regCfg struct {
	reg   lint.Registry // nil = pass nil to Lint*Ex
	label string
}

var c01Regs []regCfg

func c01BuildRegs(c *mon.Ctx, n int) {
	g := lint.GlobalRegistry()
	c01Regs = []regCfg{{g, "global"}, {nil, "nil"}, {nil, "default-entry-point"}}
	cfgs := basicConfigs()
	rng := c.Rng(-7, 0)
	// the full lint set under every basic configuration (a `.*` filter copies the registry)
	for _, cd := range cfgs[1:] {
		r, _ := g.Filter(lint.FilterOptions{NameFilter: regexpAll})
		r.SetConfiguration(mustConfig(cd.Text))
		c01Regs = append(c01Regs, regCfg{r, "all-lints cfg=" + cd.Label})
	}
	for k := 0; len(c01Regs) < n+len(cfgs)-1; k++ {
		o := randFilter(rng, false)
		if o.Empty() {
			continue
		}
		r, err := g.Filter(o)
		if err != nil {
			continue
		}
		cd := cfgs[k%len(cfgs)]
		r.SetConfiguration(mustConfig(cd.Text))
		c01Regs = append(c01Regs, regCfg{r, "filter{" + describeFilter(o) + "} cfg=" + cd.Label})
	}
	// whatever a REJECTED Filter call hands back next to its error (nil today, which the entry points take as "the
	// global registry"): a caller that goes on with it must still get a normal return
	for _, bad := range []lint.FilterOptions{
		{IncludeNames: []string{"e_verif_no_such_lint"}},
		{ExcludeNames: []string{"e_verif_no_such_lint"}},
		{NameFilter: regexpAll, IncludeNames: []string{Inv[0].Name}},
	} {
		if r, err := g.Filter(bad); err != nil {
			c01Regs = append(c01Regs, regCfg{r, "returned by a rejected Filter{" + describeFilter(bad) + "}"})
		}
	}
	// fixed special registries: zero lints, one lint of each kind
	zero, _ := g.Filter(lint.FilterOptions{IncludeSources: lint.SourceList{lint.UnknownLintSource}})
	c01Regs = append(c01Regs, regCfg{zero, "zero-lints"})
	for _, k := range []corpus.Kind{corpus.Cert, corpus.CRL, corpus.OCSP} {
		if ns := namesOfKind(k); len(ns) > 0 {
			r, _ := g.Filter(lint.FilterOptions{IncludeNames: []string{ns[len(ns)/2]}})
			c01Regs = append(c01Regs, regCfg{r, "single:" + ns[len(ns)/2]})
		}
	}
}

func c01Judge(c *mon.Ctx, o *mon.Obj, rc regCfg) mon.Snap {
	rs, pv, stack := o.Lint(rc.reg)
	if rc.reg == nil && rc.label == "default-entry-point" {
		rs, pv, stack = o.LintDefault()
	}
	c.R.Count("evaluations", 1)
	c.R.Count("evaluations_"+o.Kind.String(), 1)
	if pv != nil {
		site := mon.PanicSite(stack)
		c.V(fmt.Sprintf("panic-at-caller|%s|%s", o.Kind, site),
			fmt.Sprintf("Lint*Ex panicked at the caller (%s, registry %s): %v at %s", o.Kind, rc.label, pv, site),
			"", inputs(o), map[string]any{"registry": rc.label, "stack": stack})
		return nil
	}
	probs := mon.ShapeProblems(rs, rc.reg, o.Kind, Version)
	for _, p := range probs {
		cls := p
		if i := strings.Index(p, ":"); i > 0 {
			cls = p[:i]
			if cls == "flag" || cls == "version" {
				cls = p[:strings.IndexAny(p+"=", "=")]
			}
		}
		c.V(fmt.Sprintf("shape|%s|%s", o.Kind, cls), fmt.Sprintf("%s under registry %s", p, rc.label), "", inputs(o), map[string]any{"registry": rc.label, "all": probs})
	}
	s := mon.SnapOf(rs)
	c.R.Distinct("status_mix_"+o.Kind.String(), statusSetKey(s))
	nontriv := false
	for name, sd := range s {
		if sd.Status > int(lint.NA) {
			nontriv = true
		}
		if mon.IsRecoveredPanic(sd) {
			c.R.CrossObs("C02:recovered-panic:" + name)
		}
		if p := mon.SeverityProblem(name, lint.LintStatus(sd.Status)); p != "" {
			c.R.CrossObs("C06:" + name + ":" + p)
		}
	}
	if nontriv {
		c.R.Count("nontrivial_evals", 1)
	}
	return s
}

var c01Mut mon.MutStats

func init() {
	var nCorpus int
	mon.Register(&mon.Check{
		ID:               "C01",
		CrashIsViolation: true,
		Rule:             "evaluations = Lint*Ex calls monitored (object x registry); distinct_nontrivial (de-duplicated by a hash of the DER bytes within each worker process) = distinct accepted input objects (corpus seeds + parser-accepted structure-aware DER mutants, de-duplicated by case index) on which at least one lint left NA. Each call is judged online: returned normally, key set == names of the matching kind found by ByName over Names(), non-nil results, metadata equal to the registry's, status in 1..7, four *Present flags == OR over results, Version == major version in go.mod.",
		Assumptions:      []string{"inputs the zcrypto / x-crypto parsers reject or panic on are outside the quantifier", "no-hang is observed as 'no worker stall beyond the watchdog, reproduced in isolation'"},
		Setup: func(c *mon.Ctx) error {
			if err := setupCommon(c); err != nil {
				return err
			}
			c01BuildRegs(c, c.Pick(7, 300))
			cfgWorkBuild(c)
			nCorpus = len(W.Objs)
			return nil
		},
		Once: func(c *mon.Ctx) {
			// nil object => nil result
			for _, o := range []*mon.Obj{{Kind: corpus.Cert}, {Kind: corpus.CRL}, {Kind: corpus.OCSP}} {
				rs, pv, _ := o.Lint(nil)
				if rs != nil || pv != nil {
					c.V("nil-object|"+o.Kind.String(), fmt.Sprintf("nil %s object: result %v panic %v", o.Kind, rs, pv), "", nil, nil)
				}
			}
			c01StatusMixes(c)
		},
		Solo:  c01Solo,
		Cases: func(c *mon.Ctx) int { return nCorpus + c.Pick(120000, 3000000) + c01Directed(c) + len(cfgWork) },
		RunCase: func(c *mon.Ctx, i int) {
			if nD := nCorpus + c.Pick(120000, 3000000) + c01Directed(c); i >= nD {
				// "for all configurations": every Configurable lint under every valid-TOML document of C11's generator
				// (well-typed, ill-typed, tables where a value is expected ...), through a registry holding that lint alone
				cfgWorkRun(c, i-nD, func(o *mon.Obj, reg lint.Registry, desc string) {
					c01Judge(c, o, regCfg{reg, desc})
					c.R.Count("configured_evaluations", 1)
				})
				return
			}
			if nM := nCorpus + c.Pick(120000, 3000000); i >= nM {
				// directed families: the small ones (general names, AIA, DNs, name constraints, extension shapes, CRL
				// shapes) completely, the two big ones by a stride
				k := directedPick(c, i-nM)
				if k < 0 {
					return
				}
				o, desc := directedCase(c, k)
				if o == nil {
					return
				}
				c.R.Count("directed_accepted", 1)
				s := c01Judge(c, o, c01Regs[0])
				c01Judge(c, o, c01Regs[1+(k%(len(c01Regs)-1))])
				for _, sd := range s {
					if sd.Status > int(lint.NA) {
						c.CountDistinct(o.DER)
						break
					}
				}
				if k%5003 == 0 {
					c.R.Sample(8, map[string]any{"kind": o.Kind.String(), "directed": desc, "statuses": statusSetKey(s)})
				}
				return
			}
			if i < nCorpus {
				o := W.Objs[i]
				nt := false
				for k, rc := range c01Regs {
					if c.Thorough() && k >= 9 && (k+i)%12 != 0 {
						continue
					}
					if s := c01Judge(c, o, rc); s != nil && k == 0 {
						for _, sd := range s {
							if sd.Status > int(lint.NA) {
								nt = true
							}
						}
					}
				}
				if nt {
					c.CountDistinct(o.DER)
				}
				if i%200 == 0 {
					c.R.Sample(6, map[string]any{"kind": o.Kind.String(), "seed": o.Name, "der_prefix": mon.HexPrefix(o.DER, 24), "registries": len(c01Regs)})
				}
				return
			}
			rng := c.Rng(i, 0)
			o, desc := W.Mutant(rng, &c01Mut)
			c.R.Count("mutants_tried", 1)
			if o == nil {
				c.R.Count("parser_rejected", 1)
				return
			}
			c.R.Count("mutants_accepted", 1)
			s := c01Judge(c, o, c01Regs[0])
			c01Judge(c, o, c01Regs[1+rng.Intn(len(c01Regs)-1)])
			for _, sd := range s {
				if sd.Status > int(lint.NA) {
					c.CountDistinct(o.DER)
					break
				}
			}
			if i%30000 == 0 {
				c.R.Sample(6, map[string]any{"kind": o.Kind.String(), "mutant_of": o.Name, "edits": desc, "der_prefix": mon.HexPrefix(o.DER, 24), "statuses": statusSetKey(s)})
			}
		},
		Finish: func(c *mon.Ctx, r *mon.Report, ev *mon.Evidence) []string {
			var gates []string
			ev.Coverage["status_mixes_realised"] = map[string]any{
				"cert": r.SetKeys("status_mix_cert"), "crl": r.SetKeys("status_mix_crl"), "ocsp": r.SetKeys("status_mix_ocsp"),
				"directed_cert": r.SetKeys("directed_mix_cert"), "directed_crl": r.SetKeys("directed_mix_crl")}
			ev.Coverage["parser_rejected"] = r.Counters["parser_rejected"]
			ev.Coverage["configured_evaluations"] = r.Counters["configured_evaluations"]
			ev.Coverage["configured_documents"] = r.Counters["configured_documents"]
			if r.Counters["mutants_accepted"] < 1000 {
				gates = append(gates, fmt.Sprintf("only %d mutants accepted by the parser", r.Counters["mutants_accepted"]))
			}
			for _, k := range []string{"cert", "crl", "ocsp"} {
				if r.Counters["evaluations_"+k] == 0 {
					gates = append(gates, "no "+k+" evaluation observed")
				}
			}
			ev.Coverage["probe_status_mixes"] = map[string]any{"cert": r.SetSize("probe_mix_cert"), "crl": r.SetSize("probe_mix_crl"), "ocsp": r.SetSize("probe_mix_ocsp")}
			ev.Coverage["recovered_panic_results_judged"] = r.Counters["recovered_panic_results_judged"]
			if r.SetSize("probe_mix_cert") < 16 || r.SetSize("probe_mix_crl") < 16 || r.SetSize("probe_mix_ocsp") < 16 || r.Counters["recovered_panic_results_judged"] == 0 || r.Counters["global_runs_after_additions"] < 6 {
				gates = append(gates, "probe-lint part did not realise all 16 status mixes for every kind (or judged no recovered-panic result)")
			}
			needMixes := 12
			if r.Sets["no_configurable_lint_for_fatal_mixes"]["cert"] > 0 {
				needMixes = 6 // no configurable certificate lint in this tree: the eight mixes with a fatal cannot be built this way
			}
			if r.SetSize("directed_mix_cert") < needMixes {
				gates = append(gates, fmt.Sprintf("only %d of 16 directed certificate status mixes realised", r.SetSize("directed_mix_cert")))
			}
			return gates
		},
	})
}

// c01StatusMixes realises, for each subset of {info,warn,error,fatal}, a
// (object, IncludeNames, configuration) whose results have exactly that mix,
// and judges the flags on it.
func c01StatusMixes(c *mon.Ctx) {
	g := lint.GlobalRegistry()
	for _, kind := range []corpus.Kind{corpus.Cert, corpus.CRL} {
		// the fatal member of a mix is a configurable lint under a section it cannot use (a scalar where its table is
		// expected): the shipped ones when the tree still has them, otherwise whatever configurable lint of this kind
		// the live registry holds (one without a scope gate first)
		c11Discover()
		cands := []string{"e_rsa_fermat_factorization"}
		if kind == corpus.CRL {
			cands = []string{"e_crl_next_update_invalid"}
		}
		for pass := 0; pass < 2; pass++ {
			for _, cl := range c11Lints {
				gated := cl.info.Meta.Source == lint.CABFBaselineRequirements || cl.info.Meta.Source == lint.CABFSMIMEBaselineRequirements || cl.info.Meta.Source == lint.CABFCSBaselineRequirements
				if cl.info.Kind == kind && gated == (pass == 1) {
					cands = append(cands, cl.info.Name)
				}
			}
		}
		cfgLint := ""
		for _, n := range cands {
			if li, ok := InvBy[n]; ok && li.Kind == kind {
				cfgLint = n
				break
			}
		}
		if cfgLint == "" {
			c.R.Distinct("no_configurable_lint_for_fatal_mixes", kind.String())
		}
		ill := cfgLint + " = 7\n"
		done := map[int]bool{}
		for _, idx := range W.ByKind[kind] {
			o := W.Objs[idx]
			rs, pv, _ := o.Lint(g)
			if pv != nil || rs == nil {
				continue
			}
			by := map[lint.LintStatus][]string{}
			var names []string
			for n := range rs.Results {
				names = append(names, n)
			}
			sort.Strings(names)
			for _, n := range names {
				if n == cfgLint {
					continue
				}
				st := rs.Results[n].Status
				by[st] = append(by[st], n)
			}
			for mask := 0; mask < 16; mask++ {
				if done[mask] {
					continue
				}
				var inc []string
				ok := true
				for bit, st := range []lint.LintStatus{lint.Notice, lint.Warn, lint.Error} {
					if mask&(1<<bit) != 0 {
						if len(by[st]) == 0 {
							ok = false
							break
						}
						inc = append(inc, by[st][0])
					}
				}
				if !ok {
					continue
				}
				for _, st := range []lint.LintStatus{lint.Pass, lint.NA, lint.NE} {
					if len(by[st]) > 0 {
						inc = append(inc, by[st][0])
					}
				}
				text := ""
				if mask&8 != 0 {
					if cfgLint == "" {
						continue
					}
					inc = append(inc, cfgLint)
					text = ill
				}
				if len(inc) == 0 {
					continue
				}
				reg, err := g.Filter(lint.FilterOptions{IncludeNames: inc})
				if err != nil {
					continue
				}
				reg.SetConfiguration(mustConfig(text))
				s := c01Judge(c, o, regCfg{reg, fmt.Sprintf("mix%04b:%v", mask, inc)})
				if s == nil {
					continue
				}
				want := ""
				for bit, ch := range []string{"i", "w", "e", "f"} {
					if mask&(1<<bit) != 0 {
						want += ch
					} else {
						want += "-"
					}
				}
				if statusSetKey(s) == want {
					done[mask] = true
					c.R.Distinct("directed_mix_"+kind.String(), want)
				}
			}
			c.Tick()
			if len(done) == 16 {
				break
			}
		}
	}
}

func c01Directed(c *mon.Ctx) int {
	return directedSmallTail(c) + (directedCount(c)-directedSmallTail(c))/c.Pick(9, 2)
}
