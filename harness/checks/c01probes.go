package checks

import (
	"fmt"

	"github.com/zmap/zcrypto/x509"
	"github.com/zmap/zlint/v3/lint"
	"golang.org/x/crypto/ocsp"

	"verif/corpus"
	"verif/mon"
)

// C01 probe lints (own process): one lint per kind and defined status, plus a
// certificate lint whose rule body panics, registered through the public API
// next to the real lints. They give the result-set shape oracle every mix of
// statuses on demand - in particular a fatal that comes from the framework's
// recovery path, which no real lint produces on the repaired tree.

type c01P struct {
	st    lint.LintStatus
	panic bool
}

func (p c01P) res() *lint.LintResult {
	if p.panic {
		var s []int
		_ = s[3] // a real runtime panic
	}
	return &lint.LintResult{Status: p.st, Details: "probe " + p.st.String()}
}

type c01PCert struct{ c01P }

func (p c01PCert) CheckApplies(*x509.Certificate) bool        { return true }
func (p c01PCert) Execute(*x509.Certificate) *lint.LintResult { return p.res() }

type c01PCRL struct{ c01P }

func (p c01PCRL) CheckApplies(*x509.RevocationList) bool        { return true }
func (p c01PCRL) Execute(*x509.RevocationList) *lint.LintResult { return p.res() }

type c01POCSP struct{ c01P }

func (p c01POCSP) CheckApplies(*ocsp.Response) bool        { return true }
func (p c01POCSP) Execute(*ocsp.Response) *lint.LintResult { return p.res() }

func c01Solo(c *mon.Ctx) {
	// first use of the global registry for every kind BEFORE anything is added (listings may be cached on first use)
	for _, k := range []corpus.Kind{corpus.Cert, corpus.CRL, corpus.OCSP} {
		if idxs := W.ByKind[k]; len(idxs) > 0 {
			c01Judge(c, W.Objs[idxs[0]], regCfg{lint.GlobalRegistry(), "global, before additions"})
		}
	}
	defer func() {
		// ... and again afterwards: every lint registered meanwhile must have exactly one result
		for wave := 0; wave < 2; wave++ {
			for _, k := range []corpus.Kind{corpus.Cert, corpus.CRL, corpus.OCSP} {
				if idxs := W.ByKind[k]; len(idxs) > 0 {
					c01Judge(c, W.Objs[idxs[len(idxs)/2]], regCfg{lint.GlobalRegistry(), fmt.Sprintf("global, after additions (wave %d)", wave)})
					c01Judge(c, W.Objs[idxs[len(idxs)/2]], regCfg{nil, "default-entry-point"})
					c.R.Count("global_runs_after_additions", 1)
				}
			}
			if wave == 0 { // a late second wave of additions, one per kind
				m := func(n string) lint.LintMetadata {
					return lint.LintMetadata{Name: n, Description: "verif late addition", Citation: "verif", Source: lint.Community}
				}
				judgeAll := func(when string) {
					for _, k := range []corpus.Kind{corpus.Cert, corpus.CRL, corpus.OCSP} {
						if idxs := W.ByKind[k]; len(idxs) > 0 {
							c01Judge(c, W.Objs[idxs[len(idxs)/3]], regCfg{lint.GlobalRegistry(), "global, " + when})
							// the same registry reached WITHOUT naming it (nil registry argument / no registry argument)
							c01Judge(c, W.Objs[idxs[len(idxs)/3]], regCfg{nil, "nil registry argument, " + when})
						}
					}
				}
				lint.RegisterCertificateLint(&lint.CertificateLint{LintMetadata: m("n_verif_c01_late_cert"), Lint: func() lint.CertificateLintInterface { return c01PCert{c01P{st: lint.Notice}} }})
				judgeAll("after a late certificate lint")
				lint.RegisterRevocationListLint(&lint.RevocationListLint{LintMetadata: m("n_verif_c01_late_crl"), Lint: func() lint.RevocationListLintInterface { return c01PCRL{c01P{st: lint.Notice}} }})
				judgeAll("after a late CRL lint")
				lint.RegisterOcspResponseLint(&lint.OcspResponseLint{LintMetadata: m("n_verif_c01_late_ocsp"), Lint: func() lint.OcspResponseLintInterface { return c01POCSP{c01P{st: lint.Notice}} }})
				judgeAll("after a late OCSP lint")
			}
		}
	}()
	byStatus := map[corpus.Kind]map[lint.LintStatus]string{corpus.Cert: {}, corpus.CRL: {}, corpus.OCSP: {}}
	for st := lint.NA; st <= lint.Fatal; st++ {
		st := st
		for _, k := range []corpus.Kind{corpus.Cert, corpus.CRL, corpus.OCSP} {
			name := fmt.Sprintf("e_verif_c01_%s_%s", k, map[lint.LintStatus]string{lint.NA: "na", lint.NE: "ne", lint.Pass: "pass", lint.Notice: "info", lint.Warn: "warn", lint.Error: "error", lint.Fatal: "fatal"}[st])
			m := lint.LintMetadata{Name: name, Description: "verif probe returning " + st.String(), Citation: "verif", Source: lint.Community}
			byStatus[k][st] = name
			switch k {
			case corpus.Cert:
				lint.RegisterCertificateLint(&lint.CertificateLint{LintMetadata: m, Lint: func() lint.CertificateLintInterface { return c01PCert{c01P{st: st}} }})
			case corpus.CRL:
				lint.RegisterRevocationListLint(&lint.RevocationListLint{LintMetadata: m, Lint: func() lint.RevocationListLintInterface { return c01PCRL{c01P{st: st}} }})
			default:
				lint.RegisterOcspResponseLint(&lint.OcspResponseLint{LintMetadata: m, Lint: func() lint.OcspResponseLintInterface { return c01POCSP{c01P{st: st}} }})
			}
		}
	}
	panicName := "w_verif_c01_cert_panic"
	lint.RegisterCertificateLint(&lint.CertificateLint{LintMetadata: lint.LintMetadata{Name: panicName, Description: "verif probe whose rule body panics", Citation: "verif", Source: lint.RFC5280},
		Lint: func() lint.CertificateLintInterface { return c01PCert{c01P{panic: true}} }})
	g := lint.GlobalRegistry()
	sts := []lint.LintStatus{lint.Notice, lint.Warn, lint.Error, lint.Fatal}
	rng := c.Rng(-101, 0)
	for _, k := range []corpus.Kind{corpus.Cert, corpus.CRL, corpus.OCSP} {
		idxs := W.ByKind[k]
		for mask := 0; mask < 32; mask++ {
			// mask bits 0..3: info/warn/error/fatal probes; bit 4: the panicking probe (certificates only)
			if mask&16 != 0 && k != corpus.Cert {
				continue
			}
			inc := []string{byStatus[k][lint.NA], byStatus[k][lint.NE], byStatus[k][lint.Pass]}
			want := ""
			for b, st := range sts {
				if mask&(1<<b) != 0 {
					inc = append(inc, byStatus[k][st])
				}
			}
			if mask&16 != 0 {
				inc = append(inc, panicName)
			}
			for b, ch := range []string{"i", "w", "e", "f"} {
				if mask&(1<<b) != 0 || b == 3 && mask&16 != 0 {
					want += ch
				} else {
					want += "-"
				}
			}
			// a few real lints that pass / are NA on the object, so the set is not probes only
			for _, withReal := range []bool{false, true} {
				o := W.Objs[idxs[rng.Intn(len(idxs))]]
				names := append([]string{}, inc...)
				if withReal {
					if rs, _, _ := o.Lint(g); rs != nil {
						n := 0
						for nm, r := range rs.Results {
							if r.Status <= lint.Pass && n < 5 && len(nm) > 2 {
								names = append(names, nm)
								n++
							}
						}
					}
				}
				reg, err := g.Filter(lint.FilterOptions{IncludeNames: names})
				if err != nil {
					c.R.Inconcl("probe registry: " + err.Error())
					continue
				}
				s := c01Judge(c, o, regCfg{reg, fmt.Sprintf("probes mask=%05b real=%v", mask, withReal)})
				if s == nil {
					continue
				}
				c.R.Count("probe_sets_judged", 1)
				if got := statusSetKey(s); got != want {
					c.V("probe-status-mix|"+k.String(), fmt.Sprintf("probe lints built for the status mix %s produced %s (registry %v)", want, got, names), "", inputs(o), nil)
				}
				c.R.Distinct("probe_mix_"+k.String(), want)
				if mask&16 != 0 {
					if sd := s[panicName]; sd.Status != int(lint.Fatal) {
						c.V("panicking-lint-not-fatal", fmt.Sprintf("a certificate lint whose rule body panics is reported as %s", lint.LintStatus(sd.Status)), panicName, inputs(o), nil)
					}
					c.R.Count("recovered_panic_results_judged", 1)
				}
			}
		}
	}
}
