package checks

import (
	"fmt"
	"strings"

	"github.com/zmap/zlint/v3/lint"

	"verif/corpus"
	"verif/mon"
)

// C02 - no lint fails internally on any input the parser accepts.

var c02Mut mon.MutStats

// c02Judge lints o with the full registry (no ill-typed configuration), then
// re-drives every lint the framework let through directly under the
// harness's own recover.
func c02Judge(c *mon.Ctx, o *mon.Obj, desc string) mon.Snap {
	return c02JudgeReg(c, o, desc, lint.GlobalRegistry())
}

// c02JudgeReg: the same with any registry (and whatever configuration it carries).
func c02JudgeReg(c *mon.Ctx, o *mon.Obj, desc string, g lint.Registry) mon.Snap {
	rs, pv, stack := o.Lint(g)
	c.R.Count("evaluations", 1)
	c.R.Count("evaluations_"+o.Kind.String(), 1)
	if pv != nil {
		site := mon.PanicSite(stack)
		c.V(fmt.Sprintf("escaped-panic|%s|%s", o.Kind, site),
			fmt.Sprintf("%s linting panicked at the caller: %v at %s (input: %s)", o.Kind, pv, site, desc), "", inputs(o), map[string]any{"stack": stack})
		// find the culprit lint(s) directly, so the evidence names them
		for _, li := range Inv {
			if li.Kind != o.Kind {
				continue
			}
			if d := mon.RunDirect(li, o, g.GetConfiguration()); d.Panic != nil {
				c.R.Distinct("panicking_lints", li.Name)
			}
		}
		return nil
	}
	s := mon.SnapOf(rs)
	cfg := g.GetConfiguration()
	for _, li := range Inv {
		if li.Kind != o.Kind {
			continue
		}
		sd, ok := s[li.Name]
		if !ok || sd.Status == int(lint.NA) && !c.Thorough() {
			// NA: scope gate or CheckApplies=false; CheckApplies itself ran inside the framework's recover,
			// so a panic there would have surfaced as fatal. (thorough re-drives these too when in scope.)
			continue
		}
		if sd.Status == int(lint.NA) {
			continue
		}
		c.R.Count("direct_runs", 1)
		d := mon.RunDirect(li, o, cfg)
		if d.Panic != nil {
			site := mon.PanicSite(d.Stack)
			c.R.Distinct("panicking_lints", li.Name)
			c.V(fmt.Sprintf("lint-panic|%s|%s", li.Name, site),
				fmt.Sprintf("lint %s panics in %s at %s: %v (framework reported %s %q; input: %s)", li.Name, d.Phase, site, d.Panic, lint.LintStatus(sd.Status), clipS(sd.Details, 120), desc),
				li.Name, inputs(o), map[string]any{"stack": d.Stack})
			continue
		}
		if mon.IsRecoveredPanic(sd) {
			c.V(fmt.Sprintf("recovered-panic-report|%s", li.Name),
				fmt.Sprintf("framework reports a recovered panic for %s (%q) that the direct run did not reproduce", li.Name, clipS(sd.Details, 160)), li.Name, inputs(o), nil)
			continue
		}
		if sd.Status == int(lint.Fatal) {
			c.R.Distinct("explicit_fatal_lints", li.Name)
			// a fatal must be the lint's own explicit decision
			if d.CfgErr == nil && (d.Result == nil || d.Result.Status != lint.Fatal) {
				c.V(fmt.Sprintf("unexplained-fatal|%s", li.Name),
					fmt.Sprintf("%s is fatal (%q) but the rule body run directly does not return fatal", li.Name, clipS(sd.Details, 160)), li.Name, inputs(o), nil)
			}
		}
		if d.Result != nil {
			c.R.Distinct("lints_executed", li.Name)
		}
	}
	observeCross(c, "C02", s)
	return s
}

func clipS(s string, n int) string {
	if len(s) > n {
		return s[:n] + "..."
	}
	return s
}

func init() {
	var nSeeds int
	mon.Register(&mon.Check{
		ID:               "C02",
		CrashIsViolation: true,
		Rule:             "evaluations = Lint*Ex calls on accepted inputs, each followed by a direct re-execution (fresh instance, configure, CheckApplies, Execute under the harness's own recover) of every lint the framework let through; distinct_nontrivial (de-duplicated by a hash of the DER bytes within each worker process) = distinct accepted inputs (seeds + parser-accepted hostile mutants + directed family members) on which >= 1 rule body was executed. Refuting events: a panic in any directly driven lint, a framework recovered-panic report, a panic escaping CRL/OCSP linting, a fatal that the rule body does not itself return.",
		Assumptions:      []string{"inputs the zcrypto / x-crypto parsers reject or panic on are outside the quantifier", "reach: only code the seeded workloads execute; lints whose Execute was never reached are listed in the evidence"},
		Setup: func(c *mon.Ctx) error {
			if err := setupCommon(c); err != nil {
				return err
			}
			nSeeds = len(W.Objs)
			cfgWorkBuild(c)
			return nil
		},
		Cases: func(c *mon.Ctx) int { return nSeeds + c.Pick(60000, 3000000) + directedCount(c) + len(cfgWork) },
		RunCase: func(c *mon.Ctx, i int) {
			nMut := nSeeds + c.Pick(60000, 3000000)
			var o *mon.Obj
			var desc string
			if nd := nMut + directedCount(c); i >= nd {
				cfgWorkRun(c, i-nd, func(o *mon.Obj, reg lint.Registry, desc string) {
					if fo := o.Reparse(); fo != nil {
						c02JudgeReg(c, fo, o.Name+"~"+desc, reg)
						c.R.Count("configured_evaluations", 1)
					}
				})
				return
			}
			if i >= nMut {
				o, desc = directedCase(c, i-nMut)
				c.R.Count("directed_tried", 1)
				if o == nil {
					c.R.Count("directed_rejected", 1)
					return
				}
				c.R.Count("directed_accepted", 1)
			} else {
				o, desc, _ = unionCase(c, i, &c02Mut)
				if o == nil {
					return
				}
			}
			s := c02Judge(c, o, desc)
			if s != nil && nontrivial(s) {
				c.CountDistinct(o.DER)
			}
			if i%20011 == 0 || (i >= nMut && (i-nMut)%997 == 0) {
				c.R.Sample(8, map[string]any{"kind": o.Kind.String(), "input": o.Name, "edits": desc, "der_prefix": mon.HexPrefix(o.DER, 24), "statuses": statusSetKey(s)})
			}
		},
		Finish: func(c *mon.Ctx, r *mon.Report, ev *mon.Evidence) []string {
			gates := mutGate(r, 1000)
			exec := map[string]bool{}
			for _, k := range r.SetKeys("lints_executed") {
				exec[k] = true
			}
			var never []string
			for _, li := range Inv {
				if !exec[li.Name] {
					never = append(never, li.Name)
				}
			}
			ev.Coverage["lints_executed"] = len(exec)
			ev.Coverage["lints_registered"] = len(Inv)
			ev.Coverage["lints_never_executed"] = never
			ev.Coverage["explicit_fatal_lints"] = r.SetKeys("explicit_fatal_lints")
			ev.Coverage["panicking_lints"] = r.SetKeys("panicking_lints")
			ev.Coverage["parser_rejected"] = r.Counters["parser_rejected"]
			ev.Coverage["configured_lints"] = r.SetKeys("configured_lints")
			ev.Coverage["configured_documents"] = r.Counters["configured_documents"]
			ev.Coverage["configured_evaluations"] = r.Counters["configured_evaluations"]
			if r.Counters["configured_evaluations"] == 0 {
				gates = append(gates, "no configured run observed")
			}
			if len(exec)*10 < len(Inv)*8 {
				gates = append(gates, fmt.Sprintf("only %d of %d lints had their rule body executed", len(exec), len(Inv)))
			}
			for _, k := range []string{"cert", "crl", "ocsp"} {
				if r.Counters["evaluations_"+k] == 0 {
					gates = append(gates, "no "+k+" evaluation observed")
				}
			}
			return gates
		},
	})
}

var _ = strings.Contains
var _ = corpus.Cert
