package checks

import (
	"fmt"
	"regexp"
	"sort"
	"time"

	"github.com/zmap/zcrypto/x509"
	"github.com/zmap/zlint/v3/lint"
	"golang.org/x/crypto/ocsp"

	"verif/corpus"
	"verif/der"
	"verif/gen"
	"verif/mon"
)

// C03 - no findings outside a rule's effective window.

type c03Case struct {
	lint    int // index into Inv
	base    int // index into W.Objs
	instant time.Time
	label   string // "E-1", "E", "E+1", "I-1", "I", "I+1"
	off     int    // minutes; 0 = Z form
	keep    bool   // leave the companion date (notAfter / nextUpdate / thisUpdate) in place
	tmpl    int    // >0: generated template tmpl-1 dated at the instant instead of a re-dated seed
}

// generated templates, regenerated (and, for the root, really re-signed) at each instant
var c03Templates = []struct {
	name string
	mk   func(t time.Time, nb *der.Node) []byte
}{
	{"gen/root", func(t time.Time, nb *der.Node) []byte {
		s := gen.RootCA(t, gen.DefaultKey())
		s.NBNode = nb
		return s.DER()
	}},
	{"gen/tls", func(t time.Time, nb *der.Node) []byte {
		s := gen.TLSLeaf(t, "www.example.com")
		s.NBNode = nb
		return s.DER()
	}},
	{"gen/subca", func(t time.Time, nb *der.Node) []byte { s := gen.SubCA(t); s.NBNode = nb; return s.DER() }},
	{"gen/smime", func(t time.Time, nb *der.Node) []byte {
		s := gen.SMIMELeaf(t, "alice@example.com")
		s.NBNode = nb
		return s.DER()
	}},
	{"gen/cs", func(t time.Time, nb *der.Node) []byte { s := gen.CSLeaf(t); s.NBNode = nb; return s.DER() }},
}

var (
	c03Cases   []c03Case
	c03Mut     mon.MutStats
	c03Applic  map[string][]int                   // lint -> seed indices on which it is applicable (status != NA)
	c03ByStat  map[string]map[lint.LintStatus]int // lint -> status -> first seed index showing it
	c03Offsets = []int{60, -480, 330, 840, -720, 1}
)

func c03Build(c *mon.Ctx) {
	g := lint.GlobalRegistry()
	c03Applic = map[string][]int{}
	c03ByStat = map[string]map[lint.LintStatus]int{}
	c03Cases = nil
	for idx, o := range W.Objs {
		rs, pv, _ := o.Lint(g)
		if pv != nil || rs == nil {
			continue
		}
		for n, r := range rs.Results {
			if r.Status != lint.NA && r.Status != lint.Fatal {
				c03Applic[n] = append(c03Applic[n], idx)
				if c03ByStat[n] == nil {
					c03ByStat[n] = map[lint.LintStatus]int{}
				}
				if _, ok := c03ByStat[n][r.Status]; !ok {
					c03ByStat[n][r.Status] = idx
				}
			}
		}
		c.Tick()
	}
	// which generated templates is each lint applicable on (at a reference date)?
	tmplApplic := map[string][]int{}
	for ti, tp := range c03Templates {
		for _, ref := range []time.Time{gen.D(2024, 3, 1), gen.D(2009, 3, 1)} {
			o, _ := mon.ParseObj(corpus.Cert, tp.name, tp.mk(ref, nil))
			if o == nil {
				continue
			}
			rs, pv, _ := o.Lint(g)
			if pv != nil || rs == nil {
				continue
			}
			for n, r := range rs.Results {
				if r.Status != lint.NA && r.Status != lint.Fatal {
					l := tmplApplic[n]
					if len(l) == 0 || l[len(l)-1] != ti+1 {
						tmplApplic[n] = append(l, ti+1)
					}
				}
			}
		}
	}
	// extreme but encodable dates (GeneralizedTime): far outside every window, and outside what fits in an
	// int64 count of nanoseconds; the result must still be NE exactly outside [effective, ineffective)
	extreme := []time.Time{time.Date(1, 1, 1, 0, 0, 1, 0, time.UTC), time.Date(500, 6, 1, 0, 0, 0, 0, time.UTC), time.Date(1600, 1, 1, 0, 0, 0, 0, time.UTC),
		time.Date(1677, 9, 21, 0, 12, 43, 0, time.UTC), time.Date(1677, 9, 21, 0, 12, 44, 0, time.UTC), time.Date(1969, 12, 31, 23, 59, 59, 0, time.UTC), time.Date(1970, 1, 1, 0, 0, 0, 0, time.UTC),
		time.Date(2262, 4, 11, 23, 47, 16, 0, time.UTC), time.Date(2262, 4, 11, 23, 47, 17, 0, time.UTC), time.Date(2600, 1, 1, 0, 0, 0, 0, time.UTC), time.Date(9999, 12, 31, 23, 59, 59, 0, time.UTC)}
	for k, idx := range []int{W.ByKind[corpus.Cert][0], W.ByKind[corpus.Cert][len(W.ByKind[corpus.Cert])/2], FamilyStart, FamilyStart + 1, FamilyStart + 3, W.ByKind[corpus.CRL][0], W.ByKind[corpus.CRL][len(W.ByKind[corpus.CRL])-1], W.ByKind[corpus.OCSP][0]} {
		for _, t := range extreme {
			c03Cases = append(c03Cases, c03Case{lint: k % len(Inv), base: idx, instant: t, label: "extreme", off: GenTimeForm})
			c03Cases = append(c03Cases, c03Case{lint: k % len(Inv), base: idx, instant: t, label: "extreme", keep: true})
		}
	}
	perLint := c.Pick(3, 8)
	for li, info := range Inv {
		bases := c03Applic[info.Name]
		if len(bases) == 0 && len(tmplApplic[info.Name]) == 0 {
			continue
		}
		// spread the chosen bases over the list (deterministic, seed-rotated)
		rot := 0
		if len(bases) > 0 {
			rot = int(uint64(c.Seed) % uint64(len(bases)))
		}
		var chosen []int
		// first one base per distinct verdict the lint shows on the seeds (findings first), then spread over the list
		for _, st := range []lint.LintStatus{lint.Error, lint.Warn, lint.Notice, lint.Pass} {
			if idx, ok := c03ByStat[info.Name][st]; ok && len(chosen) < perLint+2 {
				chosen = append(chosen, idx)
			}
		}
		for k := 0; len(chosen) < perLint && k < len(bases); k++ {
			chosen = append(chosen, bases[(rot+k*len(bases)/min(perLint, len(bases)))%len(bases)])
		}
		type inst struct {
			t time.Time
			l string
		}
		var insts []inst
		if !info.Meta.EffectiveDate.IsZero() {
			e := info.Meta.EffectiveDate
			insts = append(insts, inst{e.Add(-time.Second), "E-1"}, inst{e, "E"}, inst{e.Add(time.Second), "E+1"})
		}
		if !info.Meta.IneffectiveDate.IsZero() {
			e := info.Meta.IneffectiveDate
			insts = append(insts, inst{e.Add(-time.Second), "I-1"}, inst{e, "I"}, inst{e.Add(time.Second), "I+1"})
		}
		for _, in := range insts {
			for k, b := range chosen {
				c03Cases = append(c03Cases, c03Case{lint: li, base: b, instant: in.t, label: in.l})
				c03Cases = append(c03Cases, c03Case{lint: li, base: b, instant: in.t, label: in.l, off: c03Offsets[(li+k)%len(c03Offsets)]})
				if k == 0 {
					c03Cases = append(c03Cases, c03Case{lint: li, base: b, instant: in.t, label: in.l, keep: true})
					c03Cases = append(c03Cases, c03Case{lint: li, base: b, instant: in.t, label: in.l, off: GenTimeForm})
				}
			}
			for _, ti := range tmplApplic[info.Name] {
				c03Cases = append(c03Cases, c03Case{lint: li, instant: in.t, label: in.l, tmpl: ti})
				c03Cases = append(c03Cases, c03Case{lint: li, instant: in.t, label: in.l, tmpl: ti, off: c03Offsets[(li+ti)%len(c03Offsets)]})
			}
		}
	}
}

// c03Object materialises one boundary case (nil when the re-dating is infeasible).
func c03Object(cs c03Case) (o *mon.Obj, base *mon.Obj) {
	if cs.tmpl > 0 {
		tp := c03Templates[cs.tmpl-1]
		var nb *der.Node
		if cs.off != 0 {
			nb = der.TimeOffset(cs.instant, cs.off)
		}
		func() {
			defer func() { _ = recover() }() // a template that cannot be built at this instant is infeasible
			o, _ = mon.ParseObj(corpus.Cert, tp.name, tp.mk(cs.instant, nb))
		}()
		return o, &mon.Obj{Name: tp.name}
	}
	base = W.Objs[cs.base]
	return redateX(base, cs.instant, cs.off, cs.keep), base
}

// c03JudgeAll applies the window oracle to every result of one run.
func c03JudgeAll(c *mon.Ctx, o *mon.Obj, s mon.Snap, how string) {
	t := o.Date()
	for _, li := range Inv {
		if li.Kind != o.Kind {
			continue
		}
		sd, ok := s[li.Name]
		if !ok {
			continue
		}
		st := lint.LintStatus(sd.Status)
		in := mon.InWindow(li.Meta, t)
		switch {
		case st == lint.NA || st == lint.Fatal:
			continue
		case st == lint.NE && in:
			c.V("ne-inside-window|"+li.Name, fmt.Sprintf("%s is NE for an applicable %s dated %s, inside its window [%s, %s) (%s)", li.Name, o.Kind, t.UTC().Format(time.RFC3339), fmtDate(li.Meta.EffectiveDate), fmtDate(li.Meta.IneffectiveDate), how), li.Name, inputs(o), nil)
		case st != lint.NE && !in:
			c.V("finding-outside-window|"+li.Name, fmt.Sprintf("%s reports %s for a %s dated %s, outside its window [%s, %s) (%s)", li.Name, st, o.Kind, t.UTC().Format(time.RFC3339), fmtDate(li.Meta.EffectiveDate), fmtDate(li.Meta.IneffectiveDate), how), li.Name, inputs(o), nil)
		}
		c.R.Count("window_judgements", 1)
	}
}

func fmtDate(t time.Time) string {
	if t.IsZero() {
		return "-"
	}
	return t.UTC().Format(time.RFC3339)
}

func min(a, b int) int {
	if a < b {
		return a
	}
	return b
}

func init() {
	var nSeeds, nMut int
	mon.Register(&mon.Check{
		ID:          "C03",
		Rule:        "evaluations = Lint*Ex calls whose every non-NA result was judged against the reference window predicate (integer Unix seconds, time-zone free): NE <=> outside [effective, ineffective). distinct_nontrivial = distinct (lint, boundary label) pairs, label in {E-1,E,E+1,I-1,I,I+1}, for which the lint was applicable on an object re-dated to exactly that instant (so the boundary was actually judged). Workload: every registered lint x its boundary instants x applicable base objects x {Z, +hhmm} encodings; safety over corpus + mutants + mutants re-dated onto registry instants; probe lints of all three kinds with every metadata shape (own process).",
		Assumptions: []string{"the parser's reading of the encoded time defines the object's date", "lints never applicable on any seed (listed) are only covered by the safety monitor"},
		Setup: func(c *mon.Ctx) error {
			if err := setupCommon(c); err != nil {
				return err
			}
			nSeeds = len(W.Objs)
			nMut = c.Pick(15000, 600000)
			c03Build(c)
			return nil
		},
		Cases: func(c *mon.Ctx) int { return len(c03Cases) + nSeeds + nMut },
		RunCase: func(c *mon.Ctx, i int) {
			g := lint.GlobalRegistry()
			if i < len(c03Cases) {
				cs := c03Cases[i]
				info := Inv[cs.lint]
				o, base := c03Object(cs)
				c.R.Count("boundary_cases", 1)
				if o == nil {
					c.R.Count("boundary_infeasible", 1)
					c.R.Distinct("infeasible", fmt.Sprintf("%s@%s off=%d", info.Name, cs.label, cs.off))
					return
				}
				if o.Date().Unix() != cs.instant.Unix() {
					c.R.Count("parser_instant_mismatch", 1)
				}
				rs, pv, _ := o.Lint(g)
				c.R.Count("evaluations", 1)
				if pv != nil {
					c.R.CrossObs("C01:panic-at-caller")
					return
				}
				s := mon.SnapOf(rs)
				how := fmt.Sprintf("%s re-dated to %s of %s, offset %+d min", base.Name, cs.label, info.Name, cs.off)
				c03JudgeAll(c, o, s, how)
				// the same object through a registry filtered from the global one: the window is a property of the
				// lint as registered, whichever registry runs it
				var fo lint.FilterOptions
				var fl string
				switch i % 3 {
				case 0:
					fo, fl = lint.FilterOptions{IncludeNames: []string{info.Name}}, "to that lint alone"
				case 1:
					fo, fl = lint.FilterOptions{IncludeSources: lint.SourceList{info.Meta.Source}}, "to its source"
				default:
					fo, fl = lint.FilterOptions{NameFilter: regexp.MustCompile("^" + regexp.QuoteMeta(info.Name[:len(info.Name)/2]))}, "by a name pattern"
				}
				if fr, err := g.Filter(fo); err == nil {
					if o2 := o.Reparse(); o2 != nil {
						if rs2, pv2, _ := o2.Lint(fr); pv2 == nil && rs2 != nil {
							c.R.Count("evaluations", 1)
							c.R.Count("filtered_registry_boundary_runs", 1)
							c03JudgeAll(c, o2, mon.SnapOf(rs2), how+", through a registry filtered "+fl)
						}
					}
				}
				// the same object as a caller may hold it in memory, its date moved by fractions of a second around
				// the instant (a parsed DER date has whole seconds; a constructed or permissively parsed one need not):
				// "exact to the instant" - half a second before the effective date is before it
				if i%2 == 0 {
					for _, d := range []time.Duration{-600 * time.Millisecond, -400 * time.Millisecond, -time.Nanosecond, time.Nanosecond, 400 * time.Millisecond, 600 * time.Millisecond} {
						o3 := o.Reparse()
						if o3 == nil {
							break
						}
						switch o3.Kind {
						case corpus.Cert:
							o3.Cert.NotBefore = o3.Cert.NotBefore.Add(d)
						case corpus.CRL:
							o3.CRL.ThisUpdate = o3.CRL.ThisUpdate.Add(d)
						default:
							o3.OCSP.NextUpdate = o3.OCSP.NextUpdate.Add(d)
						}
						o3.DateEdited()
						for _, reg := range []lint.Registry{g, nil} {
							if rs3, pv3, _ := o3.Lint(reg); pv3 == nil && rs3 != nil {
								c.R.Count("evaluations", 1)
								c.R.Count("sub_second_runs", 1)
								c03JudgeAll(c, o3, mon.SnapOf(rs3), fmt.Sprintf("%s, date moved in memory by %v", how, d))
							}
						}
					}
				}
				if cs.label == "extreme" {
					c.R.Count("extreme_date_runs", 1)
					return
				}
				if st := s[info.Name].Status; st != int(lint.NA) && st != int(lint.Fatal) {
					c.R.Distinct("boundary_judged", info.Name+"@"+cs.label)
					enc := "Z"
					if cs.off == GenTimeForm {
						enc = "generalizedtime"
					} else if cs.off != 0 {
						enc = "offset"
					}
					c.R.Distinct("boundary_judged_"+enc, info.Name+"@"+cs.label)
				}
				if i%997 == 0 {
					c.R.Sample(8, map[string]any{"lint": info.Name, "base": base.Name, "boundary": cs.label, "instant": cs.instant.UTC().Format(time.RFC3339), "offset_min": cs.off, "status": lint.LintStatus(s[info.Name].Status).String()})
				}
				return
			}
			o, desc, isSeed := unionCase(c, i-len(c03Cases), &c03Mut)
			if o == nil {
				return
			}
			if !isSeed && (i%3 == 0) {
				// re-date the mutant onto a random registry instant +-1s
				rng := c.Rng(i, 1)
				info := Inv[rng.Intn(len(Inv))]
				t := info.Meta.EffectiveDate
				if !info.Meta.IneffectiveDate.IsZero() && rng.Intn(2) == 0 {
					t = info.Meta.IneffectiveDate
				}
				if !t.IsZero() {
					off := 0
					if rng.Intn(2) == 0 {
						off = c03Offsets[rng.Intn(len(c03Offsets))]
					}
					if o2 := redate(o, t.Add(time.Duration(rng.Intn(3)-1)*time.Second), off); o2 != nil {
						o = o2
						desc += ";redated"
						c.R.Count("mutants_redated", 1)
					}
				}
			}
			rs, pv, _ := o.Lint(g)
			c.R.Count("evaluations", 1)
			if pv != nil {
				c.R.CrossObs("C01:panic-at-caller")
				return
			}
			s := mon.SnapOf(rs)
			c03JudgeAll(c, o, s, o.Name+"~"+desc)
			observeCross(c, "C03", s)
		},
		Solo: c03Probes,
		Once: c03CallerHeld,
		Finish: func(c *mon.Ctx, r *mon.Report, ev *mon.Evidence) []string {
			var gates []string
			judged := map[string]bool{}
			for _, k := range r.SetKeys("boundary_judged") {
				judged[k] = true
			}
			var never, partial []string
			wantPairs := 0
			for _, li := range Inv {
				var labels []string
				if !li.Meta.EffectiveDate.IsZero() {
					labels = append(labels, "E-1", "E", "E+1")
				}
				if !li.Meta.IneffectiveDate.IsZero() {
					labels = append(labels, "I-1", "I", "I+1")
				}
				wantPairs += len(labels)
				got := 0
				for _, l := range labels {
					if judged[li.Name+"@"+l] {
						got++
					}
				}
				if len(labels) > 0 && got == 0 {
					never = append(never, li.Name)
				} else if got < len(labels) {
					partial = append(partial, fmt.Sprintf("%s (%d/%d)", li.Name, got, len(labels)))
				}
			}
			sort.Strings(never)
			ev.Coverage["distinct_nontrivial"] = len(judged)
			ev.Coverage["boundary_pairs_possible"] = wantPairs
			ev.Coverage["boundary_pairs_judged_Z"] = r.SetSize("boundary_judged_Z")
			ev.Coverage["boundary_pairs_judged_offset"] = r.SetSize("boundary_judged_offset")
			ev.Coverage["boundary_pairs_judged_generalizedtime"] = r.SetSize("boundary_judged_generalizedtime")
			ev.Coverage["lints_boundary_never_judged"] = never
			ev.Coverage["lints_boundary_partially_judged"] = partial
			ev.Coverage["infeasible_redatings"] = r.SetKeys("infeasible")
			ev.Coverage["probe_lints_judged"] = r.Counters["probe_judgements"]
			if len(judged)*10 < wantPairs*6 {
				gates = append(gates, fmt.Sprintf("only %d of %d (lint, boundary) pairs were judged", len(judged), wantPairs))
			}
			if r.Counters["probe_judgements"] < 100 {
				gates = append(gates, "probe-lint part observed too little")
			}
			if r.SetSize("boundary_judged_offset") == 0 {
				gates = append(gates, "no boundary judged with a +hhmm encoding")
			}
			return append(gates, mutGate(r, 500)...)
		},
	})
}

// ---- probe lints (own process) ----

type probeCert struct{}

func (probeCert) CheckApplies(*x509.Certificate) bool { return true }
func (probeCert) Execute(*x509.Certificate) *lint.LintResult {
	return &lint.LintResult{Status: lint.Pass, Details: "probe"}
}

type probeCRL struct{}

func (probeCRL) CheckApplies(*x509.RevocationList) bool { return true }
func (probeCRL) Execute(*x509.RevocationList) *lint.LintResult {
	return &lint.LintResult{Status: lint.Pass, Details: "probe"}
}

type probeOCSP struct{}

func (probeOCSP) CheckApplies(*ocsp.Response) bool { return true }
func (probeOCSP) Execute(*ocsp.Response) *lint.LintResult {
	return &lint.LintResult{Status: lint.Pass, Details: "probe"}
}

func c03Probes(c *mon.Ctx) {
	t1 := time.Date(2019, 3, 10, 12, 30, 15, 0, time.UTC)
	t2 := time.Date(2021, 11, 7, 1, 59, 59, 0, time.UTC)
	tokyo := time.FixedZone("JST", 9*3600)
	la := time.FixedZone("PST", -8*3600)
	type shape struct {
		name string
		e, i time.Time
	}
	shapes := []shape{
		{"none", time.Time{}, time.Time{}},
		{"e", t1, time.Time{}},
		{"i", time.Time{}, t2},
		{"ei", t1, t2},
		{"inverted", t2, t1},
		{"equal", t1, t1},
		{"e_tokyo", t1.In(tokyo), time.Time{}},
		{"i_la", time.Time{}, t2.In(la)},
		{"ei_zones", t1.In(la), t2.In(tokyo)},
		{"e_midnight_local", time.Date(2020, 1, 1, 0, 0, 0, 0, tokyo), time.Time{}},
	}
	var names []string
	shapeBy := map[string]shape{}
	for _, sh := range shapes {
		shapeBy[sh.name] = sh
		m := lint.LintMetadata{Description: "verif probe", Citation: "verif", Source: lint.Community, EffectiveDate: sh.e, IneffectiveDate: sh.i}
		mc, mr, mo := m, m, m
		mc.Name, mr.Name, mo.Name = "e_verif_probe_cert_"+sh.name, "e_verif_probe_crl_"+sh.name, "e_verif_probe_ocsp_"+sh.name
		lint.RegisterCertificateLint(&lint.CertificateLint{LintMetadata: mc, Lint: func() lint.CertificateLintInterface { return probeCert{} }})
		lint.RegisterRevocationListLint(&lint.RevocationListLint{LintMetadata: mr, Lint: func() lint.RevocationListLintInterface { return probeCRL{} }})
		lint.RegisterOcspResponseLint(&lint.OcspResponseLint{LintMetadata: mo, Lint: func() lint.OcspResponseLintInterface { return probeOCSP{} }})
		names = append(names, mc.Name, mr.Name, mo.Name)
	}
	reg, err := lint.GlobalRegistry().Filter(lint.FilterOptions{IncludeNames: names})
	if err != nil {
		c.R.Inconcl("probe registry: " + err.Error())
		return
	}
	inv := mon.Inventory(reg)
	var ocspSeed *mon.Obj
	for _, idx := range W.ByKind[corpus.OCSP] {
		ocspSeed = W.Objs[idx]
		break
	}
	bases := map[corpus.Kind]*mon.Obj{}
	bases[corpus.Cert], _ = mon.ParseObj(corpus.Cert, "gen/tls", gen.TLSLeaf(gen.D(2020, 6, 1), "probe.example.com").DER())
	bases[corpus.CRL], _ = mon.ParseObj(corpus.CRL, "gen/crl", gen.BasicCRL(gen.D(2020, 6, 1)).DER())
	bases[corpus.OCSP] = ocspSeed
	var instants []time.Time
	for _, sh := range shapes {
		for _, t := range []time.Time{sh.e, sh.i} {
			if t.IsZero() {
				continue
			}
			for _, d := range []int{-86400, -3600, -1, 0, 1, 3600, 86400} {
				instants = append(instants, t.Add(time.Duration(d)*time.Second))
			}
		}
	}
	for kind, base := range bases {
		if base == nil {
			c.R.Inconcl("no base object for probes of kind " + kind.String())
			continue
		}
		for k, t := range instants {
			for _, off := range []int{0, c03Offsets[k%len(c03Offsets)]} {
				o := redate(base, t, off)
				if o == nil {
					c.R.Count("probe_infeasible", 1)
					continue
				}
				rs, pv, _ := o.Lint(reg)
				c.R.Count("evaluations", 1)
				if pv != nil || rs == nil {
					c.V("probe-panic|"+kind.String(), fmt.Sprintf("probe lint run panicked: %v", pv), "", inputs(o), nil)
					continue
				}
				for _, li := range inv {
					if li.Kind != kind {
						continue
					}
					r := rs.Results[li.Name]
					if r == nil {
						continue
					}
					// the window is the one THIS HARNESS registered the probe with (instants), not what the registry
					// hands back: a registration that rewrites the dates must keep the instants
					sh := shapeBy[shapeOf(li.Name)]
					spec := lint.LintMetadata{EffectiveDate: sh.e, IneffectiveDate: sh.i}
					if !li.Meta.EffectiveDate.Equal(sh.e) || !li.Meta.IneffectiveDate.Equal(sh.i) {
						c.V(fmt.Sprintf("probe-window-changed-by-registration|%s|%s", kind, shapeOf(li.Name)),
							fmt.Sprintf("probe %s was registered with the window [%s, %s) but the registry hands it out with [%s, %s): a different instant", li.Name, sh.e.Format(time.RFC3339), sh.i.Format(time.RFC3339), li.Meta.EffectiveDate.Format(time.RFC3339), li.Meta.IneffectiveDate.Format(time.RFC3339)), li.Name, nil, nil)
					}
					in := mon.InWindow(spec, o.Date())
					c.R.Count("probe_judgements", 1)
					c.R.Distinct("probe_outcomes", fmt.Sprintf("%s:%v", li.Name, in))
					if in && r.Status != lint.Pass || !in && r.Status != lint.NE {
						c.V(fmt.Sprintf("probe-window|%s|%s", kind, shapeOf(li.Name)),
							fmt.Sprintf("probe %s (window [%s, %s)) on %s dated %s (offset %+d): got %s, want in-window=%v", li.Name, fmtDate(li.Meta.EffectiveDate), fmtDate(li.Meta.IneffectiveDate), kind, o.Date().UTC().Format(time.RFC3339), off, r.Status, in), li.Name, inputs(o), nil)
					}
				}
			}
		}
	}
	// windows changed IN PLACE on the registered lint (the pointer the per-kind lookup hands out): from then on the
	// window the lint carries is the changed one - for runs through the global registry, through registries filtered
	// before and after the change, and for direct execution
	early, _ := lint.GlobalRegistry().Filter(lint.FilterOptions{IncludeNames: names})
	for kind, base := range bases {
		if base == nil {
			continue
		}
		for si, sh := range shapes {
			if si%2 == 1 {
				continue
			}
			name := map[corpus.Kind]string{corpus.Cert: "e_verif_probe_cert_", corpus.CRL: "e_verif_probe_crl_", corpus.OCSP: "e_verif_probe_ocsp_"}[kind] + sh.name
			var meta *lint.LintMetadata
			g := lint.GlobalRegistry()
			switch kind {
			case corpus.Cert:
				if l := g.CertificateLints().ByName(name); l != nil {
					meta = &l.LintMetadata
				}
			case corpus.CRL:
				if l := g.RevocationListLints().ByName(name); l != nil {
					meta = &l.LintMetadata
				}
			default:
				if l := g.OcspResponseLints().ByName(name); l != nil {
					meta = &l.LintMetadata
				}
			}
			if meta == nil {
				continue
			}
			oldE, oldI := meta.EffectiveDate, meta.IneffectiveDate
			for _, mv := range [][2]time.Time{{t1.AddDate(0, 3, 0), time.Time{}}, {time.Time{}, t1.AddDate(0, -3, 0)}, {t1.AddDate(0, -6, 0), t1.AddDate(0, 6, 0)}} {
				meta.EffectiveDate, meta.IneffectiveDate = mv[0], mv[1]
				late, _ := g.Filter(lint.FilterOptions{IncludeNames: []string{name}})
				for _, t := range []time.Time{t1.AddDate(0, -6, -1), t1.AddDate(0, -6, 0), t1.AddDate(0, -3, 0).Add(-time.Second), t1.AddDate(0, -3, 0), t1, t1.AddDate(0, 3, 0).Add(-time.Second), t1.AddDate(0, 3, 0), t1.AddDate(0, 6, 0).Add(-time.Second), t1.AddDate(0, 6, 0)} {
					o := redate(base, t, 0)
					if o == nil {
						continue
					}
					in := mon.InWindow(*meta, o.Date())
					for how, reg := range map[string]lint.Registry{"global registry": g, "registry filtered before the change": early, "registry filtered after the change": late} {
						if reg == nil {
							continue
						}
						rs, pv, _ := o.Reparse().Lint(reg)
						c.R.Count("evaluations", 1)
						if pv != nil || rs == nil || rs.Results[name] == nil {
							continue
						}
						c.R.Count("in_place_window_judgements", 1)
						if st := rs.Results[name].Status; in && st != lint.Pass || !in && st != lint.NE {
							c.V(fmt.Sprintf("probe-window-changed-in-place|%s", kind), fmt.Sprintf("probe %s: its window was changed in place to [%s, %s); on a %s dated %s the %s gives %s, want in-window=%v", name, fmtDate(mv[0]), fmtDate(mv[1]), kind, o.Date().UTC().Format(time.RFC3339), how, st, in), name, inputs(o), nil)
						}
					}
				}
			}
			meta.EffectiveDate, meta.IneffectiveDate = oldE, oldI
		}
	}
}

func shapeOf(name string) string {
	for i := len(name) - 1; i >= 0; i-- {
		if name[i] == '_' && i+1 < len(name) {
			// shape names may contain underscores; strip the fixed prefix instead
			break
		}
	}
	for _, p := range []string{"e_verif_probe_cert_", "e_verif_probe_crl_", "e_verif_probe_ocsp_"} {
		if len(name) > len(p) && name[:len(p)] == p {
			return name[len(p):]
		}
	}
	return name
}

// c03CallerHeld: the window belongs to the lint VALUE that is executed. Lint values a caller holds - the deprecated
// *lint.Lint handed out by Registry.ByName / BySource, copies of the per-kind lint structs taken from the lookups,
// values built by hand - are executed directly (Execute / CheckEffective, no registry run) with their window left
// alone and with their window MOVED around the object's date: one second after the date (excluded), exactly at it
// (included), ineffective exactly at it (excluded), ineffective one second after it (included).
func c03CallerHeld(c *mon.Ctx) {
	g := lint.GlobalRegistry()
	cfg := g.GetConfiguration()
	// a few objects per kind on which many lints apply
	var certs []*mon.Obj
	for _, i := range W.ByKind[corpus.Cert] {
		if len(certs) < c.Pick(12, 60) && i%17 == int(uint64(c.Seed)%17) {
			certs = append(certs, W.Objs[i])
		}
	}
	for _, o := range W.Objs[len(W.Objs)-6:] {
		if o.Kind == corpus.Cert {
			certs = append(certs, o)
		}
	}
	type mv struct {
		label string
		e, i  func(t time.Time) time.Time
		in    bool
	}
	zero := func(time.Time) time.Time { return time.Time{} }
	// the reference predicate on the MOVED window (a moved date that lands on the zero time means "no bound", e.g.
	// for a CRL without thisUpdate; the table's in column is what the move intends for ordinary dates)
	refIn := func(e, i, t time.Time) bool {
		return mon.InWindow(lint.LintMetadata{EffectiveDate: e, IneffectiveDate: i}, t)
	}
	moves := []mv{
		{"effective one second after the object's date", func(t time.Time) time.Time { return t.Add(time.Second) }, zero, false},
		{"effective exactly at the object's date", func(t time.Time) time.Time { return t }, zero, true},
		{"effective at the date in another zone", func(t time.Time) time.Time { return t.In(time.FixedZone("+5", 5*3600)) }, zero, true},
		{"ineffective exactly at the object's date", zero, func(t time.Time) time.Time { return t }, false},
		{"ineffective one second after the object's date", zero, func(t time.Time) time.Time { return t.Add(time.Second) }, true},
		{"window of one second starting at the date", func(t time.Time) time.Time { return t }, func(t time.Time) time.Time { return t.Add(time.Second) }, true},
		{"window ending at the date", func(t time.Time) time.Time { return t.Add(-time.Hour) }, func(t time.Time) time.Time { return t }, false},
	}
	judge := func(name, how string, in bool, effective bool, res *lint.LintResult, o *mon.Obj) {
		c.R.Count("evaluations", 1)
		c.R.Count("caller_held_judgements", 1)
		if effective != in {
			c.V("caller-held|check-effective|"+name, fmt.Sprintf("%s: CheckEffective = %v for an object dated %s although the lint value's window (%s) says %v", name, effective, o.Date().UTC().Format(time.RFC3339), how, in), name, inputs(o), nil)
		}
		if res == nil {
			return
		}
		switch {
		case res.Status == lint.NA || res.Status == lint.Fatal:
		case res.Status == lint.NE && in:
			c.V("caller-held|ne-inside-window|"+name, fmt.Sprintf("%s executed directly is NE for an object dated %s inside the lint value's window (%s)", name, o.Date().UTC().Format(time.RFC3339), how), name, inputs(o), nil)
		case res.Status != lint.NE && !in:
			c.V("caller-held|finding-outside-window|"+name, fmt.Sprintf("%s executed directly reports %s for an object dated %s outside the lint value's window (%s)", name, res.Status, o.Date().UTC().Format(time.RFC3339), how), name, inputs(o), nil)
		default:
			c.R.Distinct("caller_held_lints_judged", name)
		}
	}
	safely := func(f func()) {
		defer func() { _ = recover() }()
		f()
	}
	bySource := map[string]*lint.Lint{}
	for _, src := range g.Sources() {
		for _, l := range g.BySource(src) {
			bySource[l.Name] = l
		}
	}
	for _, li := range Inv {
		if li.Kind != corpus.Cert {
			continue
		}
		dep := g.ByName(li.Name)
		if dep == nil {
			c.V("caller-held|byname-nil|"+li.Name, "Registry.ByName returns nil for the registered certificate lint "+li.Name, li.Name, nil, nil)
			continue
		}
		for oi, o0 := range certs {
			o := o0.Reparse()
			if o == nil {
				continue
			}
			t := o.Date()
			// as handed out
			for _, h := range []*lint.Lint{dep, bySource[li.Name]} {
				if h == nil {
					continue
				}
				h := h
				safely(func() {
					judge(li.Name, "as handed out by the registry", mon.InWindow(li.Meta, t), h.CheckEffective(o.Cert), h.Execute(o.Cert, cfg), o)
				})
			}
			// windows moved on a COPY (the registered lint is never modified)
			m := moves[(oi+len(li.Name))%len(moves)]
			cp := *dep
			cp.EffectiveDate, cp.IneffectiveDate = m.e(t), m.i(t)
			safely(func() {
				judge(li.Name, "deprecated Lint copy, "+m.label, refIn(cp.EffectiveDate, cp.IneffectiveDate, t), cp.CheckEffective(o.Cert), cp.Execute(o.Cert, cfg), o)
			})
			cl := *li.CertL
			cl.EffectiveDate, cl.IneffectiveDate = m.e(t), m.i(t)
			safely(func() {
				judge(li.Name, "CertificateLint copy, "+m.label, refIn(cl.EffectiveDate, cl.IneffectiveDate, t), cl.CheckEffective(o.Cert), cl.Execute(o.Cert, cfg), o)
			})
			// after the copies were used, the value handed out must still have the registered window
			if !dep.EffectiveDate.Equal(li.Meta.EffectiveDate) || !dep.IneffectiveDate.Equal(li.Meta.IneffectiveDate) {
				c.V("caller-held|registered-window-changed|"+li.Name, "the window of the registered lint "+li.Name+" changed while copies of it were executed", li.Name, nil, nil)
			}
		}
	}
	// CRL and OCSP lint structs: copies with moved windows
	for _, li := range Inv {
		if li.Kind == corpus.Cert {
			continue
		}
		for oi, idx := range W.ByKind[li.Kind] {
			o := W.Objs[idx].Reparse()
			if o == nil {
				continue
			}
			t := o.Date()
			m := moves[(oi+len(li.Name))%len(moves)]
			if li.Kind == corpus.CRL {
				cl := *li.CrlL
				safely(func() {
					judge(li.Name, "as registered", mon.InWindow(li.Meta, t), cl.CheckEffective(o.CRL), cl.Execute(o.CRL, cfg), o)
				})
				cl.EffectiveDate, cl.IneffectiveDate = m.e(t), m.i(t)
				safely(func() {
					judge(li.Name, "RevocationListLint copy, "+m.label, refIn(cl.EffectiveDate, cl.IneffectiveDate, t), cl.CheckEffective(o.CRL), cl.Execute(o.CRL, cfg), o)
				})
			} else {
				cl := *li.OcspL
				safely(func() {
					judge(li.Name, "as registered", mon.InWindow(li.Meta, t), cl.CheckEffective(o.OCSP), cl.Execute(o.OCSP, cfg), o)
				})
				cl.EffectiveDate, cl.IneffectiveDate = m.e(t), m.i(t)
				safely(func() {
					judge(li.Name, "OcspResponseLint copy, "+m.label, refIn(cl.EffectiveDate, cl.IneffectiveDate, t), cl.CheckEffective(o.OCSP), cl.Execute(o.OCSP, cfg), o)
				})
			}
		}
	}
}
