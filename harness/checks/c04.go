package checks

import (
	"fmt"
	"math/rand"
	"strings"
	"sync"
	"time"

	"github.com/zmap/zcrypto/x509"
	"github.com/zmap/zlint/v3/lint"
	"golang.org/x/crypto/ocsp"

	"verif/corpus"
	"verif/der"
	"verif/gen"
	"verif/mon"
)

// C04 - out-of-scope / inapplicable objects get NA; otherwise the rule's verdict stands.

// ---- event log (one linting goroutine per worker process) ----

type spyEvent struct {
	lint    string
	what    string // new, configure, applies, execute
	applies bool
	status  lint.LintStatus
	details string
}

var (
	spyMu  sync.Mutex
	spyLog []spyEvent
)

func spyEmit(e spyEvent) {
	spyMu.Lock()
	spyLog = append(spyLog, e)
	spyMu.Unlock()
}

func spyReset() {
	spyMu.Lock()
	spyLog = spyLog[:0]
	spyMu.Unlock()
}

func spyEvents() map[string][]spyEvent {
	spyMu.Lock()
	defer spyMu.Unlock()
	m := map[string][]spyEvent{}
	for _, e := range spyLog {
		m[e.lint] = append(m[e.lint], e)
	}
	return m
}

// ---- spies wrapping the real lints ----

type spyCert struct {
	name  string
	inner lint.CertificateLintInterface
}

func (s *spyCert) CheckApplies(c *x509.Certificate) bool {
	b := s.inner.CheckApplies(c)
	spyEmit(spyEvent{lint: s.name, what: "applies", applies: b})
	return b
}
func (s *spyCert) Execute(c *x509.Certificate) *lint.LintResult {
	r := s.inner.Execute(c)
	e := spyEvent{lint: s.name, what: "execute"}
	if r != nil {
		e.status, e.details = r.Status, r.Details
	}
	spyEmit(e)
	return r
}

type spyCertCfg struct{ spyCert }

func (s *spyCertCfg) Configure() interface{} {
	spyEmit(spyEvent{lint: s.name, what: "configure"})
	return s.inner.(lint.Configurable).Configure()
}

type spyCRL struct {
	name  string
	inner lint.RevocationListLintInterface
}

func (s *spyCRL) CheckApplies(c *x509.RevocationList) bool {
	b := s.inner.CheckApplies(c)
	spyEmit(spyEvent{lint: s.name, what: "applies", applies: b})
	return b
}
func (s *spyCRL) Execute(c *x509.RevocationList) *lint.LintResult {
	r := s.inner.Execute(c)
	e := spyEvent{lint: s.name, what: "execute"}
	if r != nil {
		e.status, e.details = r.Status, r.Details
	}
	spyEmit(e)
	return r
}

type spyCRLCfg struct{ spyCRL }

func (s *spyCRLCfg) Configure() interface{} {
	spyEmit(spyEvent{lint: s.name, what: "configure"})
	return s.inner.(lint.Configurable).Configure()
}

type spyOCSP struct {
	name  string
	inner lint.OcspResponseLintInterface
}

func (s *spyOCSP) CheckApplies(c *ocsp.Response) bool {
	b := s.inner.CheckApplies(c)
	spyEmit(spyEvent{lint: s.name, what: "applies", applies: b})
	return b
}
func (s *spyOCSP) Execute(c *ocsp.Response) *lint.LintResult {
	r := s.inner.Execute(c)
	e := spyEvent{lint: s.name, what: "execute"}
	if r != nil {
		e.status, e.details = r.Status, r.Details
	}
	spyEmit(e)
	return r
}

const spySuffix = "__spy"

var (
	c04Once     sync.Once
	c04SpyReg   lint.Registry // only the spies
	c04PlainReg lint.Registry // only the original lints
	c04SpyInv   []mon.LintInfo
	c04ProbeReg lint.Registry
	c04Mut      mon.MutStats
)

func c04Register() {
	var spyNames, plain []string
	for _, li := range Inv {
		li := li
		m := li.Meta
		m.Name = li.Name + spySuffix
		plain = append(plain, li.Name)
		spyNames = append(spyNames, m.Name)
		switch li.Kind {
		case corpus.Cert:
			lint.RegisterCertificateLint(&lint.CertificateLint{LintMetadata: m, Lint: func() lint.CertificateLintInterface {
				spyEmit(spyEvent{lint: m.Name, what: "new"})
				in := li.CertL.Lint()
				if _, ok := in.(lint.Configurable); ok {
					return &spyCertCfg{spyCert{m.Name, in}}
				}
				return &spyCert{m.Name, in}
			}})
		case corpus.CRL:
			lint.RegisterRevocationListLint(&lint.RevocationListLint{LintMetadata: m, Lint: func() lint.RevocationListLintInterface {
				spyEmit(spyEvent{lint: m.Name, what: "new"})
				in := li.CrlL.Lint()
				if _, ok := in.(lint.Configurable); ok {
					return &spyCRLCfg{spyCRL{m.Name, in}}
				}
				return &spyCRL{m.Name, in}
			}})
		default:
			lint.RegisterOcspResponseLint(&lint.OcspResponseLint{LintMetadata: m, Lint: func() lint.OcspResponseLintInterface {
				spyEmit(spyEvent{lint: m.Name, what: "new"})
				return &spyOCSP{m.Name, li.OcspL.Lint()}
			}})
		}
	}
	probeNames := c04RegisterProbes()
	g := lint.GlobalRegistry()
	var err error
	if c04SpyReg, err = g.Filter(lint.FilterOptions{IncludeNames: spyNames}); err != nil {
		panic(err)
	}
	if c04PlainReg, err = g.Filter(lint.FilterOptions{IncludeNames: plain}); err != nil {
		panic(err)
	}
	if c04ProbeReg, err = g.Filter(lint.FilterOptions{IncludeNames: probeNames}); err != nil {
		panic(err)
	}
	c04SpyInv = mon.Inventory(c04SpyReg)
}

// ---- independent scope reference ----

type scopeFacts struct {
	noEKU     bool
	ekus      map[string]bool // dotted OIDs
	policies  map[string]bool
	emailSAN  bool // non-empty rfc822Name or non-empty SmtpUTF8Mailbox otherName
	fromBuild bool
}

var (
	brPolicies    = map[string]bool{"2.23.140.1.1": true, "2.23.140.1.2.1": true, "2.23.140.1.2.2": true, "2.23.140.1.2.3": true}
	csPolicies    = map[string]bool{"2.23.140.1.3": true, "2.23.140.1.4.1": true}
	smimePolicies = func() map[string]bool {
		m := map[string]bool{}
		for x := 1; x <= 4; x++ {
			for y := 1; y <= 3; y++ {
				m[fmt.Sprintf("2.23.140.1.5.%d.%d", x, y)] = true
			}
		}
		return m
	}()
)

func (f scopeFacts) inScope(src lint.LintSource) bool {
	any := func(m map[string]bool, set map[string]bool) bool {
		for k := range m {
			if set[k] {
				return true
			}
		}
		return false
	}
	switch src {
	case lint.CABFBaselineRequirements:
		return f.noEKU || f.ekus[gen.OIDEkuAny] || f.ekus[gen.OIDEkuServer] || any(f.policies, brPolicies)
	case lint.CABFSMIMEBaselineRequirements:
		return f.emailSAN && (f.noEKU || f.ekus[gen.OIDEkuAny] || f.ekus[gen.OIDEkuEmail]) || any(f.policies, smimePolicies)
	case lint.CABFCSBaselineRequirements:
		return any(f.policies, csPolicies)
	}
	return true
}

var ekuOID = map[x509.ExtKeyUsage]string{
	x509.ExtKeyUsageAny: gen.OIDEkuAny, x509.ExtKeyUsageServerAuth: gen.OIDEkuServer, x509.ExtKeyUsageClientAuth: gen.OIDEkuClient,
	x509.ExtKeyUsageCodeSigning: gen.OIDEkuCode, x509.ExtKeyUsageEmailProtection: gen.OIDEkuEmail, x509.ExtKeyUsageTimeStamping: gen.OIDEkuTime, x509.ExtKeyUsageOcspSigning: gen.OIDEkuOCSP,
}

// factsFromParsed derives the scope facts from the parsed certificate's fields.
func factsFromParsed(c *x509.Certificate) scopeFacts {
	f := scopeFacts{ekus: map[string]bool{}, policies: map[string]bool{}}
	f.noEKU = len(c.ExtKeyUsage) == 0 && len(c.UnknownExtKeyUsage) == 0
	for _, e := range c.ExtKeyUsage {
		if s, ok := ekuOID[e]; ok {
			f.ekus[s] = true
		} else {
			f.ekus[fmt.Sprintf("known-eku-%d", int(e))] = true
		}
	}
	for _, o := range c.UnknownExtKeyUsage {
		f.ekus[o.String()] = true
	}
	for _, p := range c.PolicyIdentifiers {
		f.policies[p.String()] = true
	}
	for _, e := range c.EmailAddresses {
		if e != "" {
			f.emailSAN = true
		}
	}
	for _, on := range c.OtherNames {
		if on.TypeID.String() == "1.3.6.1.5.5.7.8.9" && len(on.Value.Bytes) != 0 {
			f.emailSAN = true
		}
	}
	return f
}

// ---- the trace oracle ----

// c04Trace lints o with the spies and checks every spy's event sequence and result.
func c04Trace(c *mon.Ctx, o *mon.Obj, facts *scopeFacts, cfgText, how string) {
	reg := c04SpyReg
	reg.SetConfiguration(mustConfig(cfgText))
	spyReset()
	rs, pv, _ := o.Lint(reg)
	c.R.Count("evaluations", 1)
	if pv != nil || rs == nil {
		c.R.CrossObs("C01:panic-at-caller")
		return
	}
	ev := spyEvents()
	c04PlainReg.SetConfiguration(mustConfig(strings.ReplaceAll(cfgText, spySuffix, "")))
	prs, ppv, _ := o.Lint(c04PlainReg)
	var plain mon.Snap
	if ppv == nil && prs != nil {
		plain = mon.SnapOf(prs)
	}
	in := inputs(o)
	for _, li := range c04SpyInv {
		if li.Kind != o.Kind {
			continue
		}
		r := rs.Results[li.Name]
		if r == nil {
			continue
		}
		real := strings.TrimSuffix(li.Name, spySuffix)
		es := ev[li.Name]
		seq := ""
		for _, e := range es {
			seq += e.what[:1]
		}
		c.R.Count("traces_judged", 1)
		bad := func(key, msg string) {
			c.V(key+"|"+real, fmt.Sprintf("%s: %s (event sequence %q, result %s %q; %s)", real, msg, seq, r.Status, clipS(r.Details, 60), how), real, in, nil)
		}
		// scope
		if o.Kind == corpus.Cert && facts != nil && !facts.inScope(li.Meta.Source) {
			c.R.Distinct("trace_classes", "out-of-scope:"+string(li.Meta.Source))
			if r.Status != lint.NA {
				bad("out-of-scope-not-na", fmt.Sprintf("certificate is outside the scope of %s but the result is not NA", li.Meta.Source))
			}
			if len(es) != 0 {
				bad("out-of-scope-lint-touched", fmt.Sprintf("certificate is outside the scope of %s but the lint was instantiated / called", li.Meta.Source))
			}
			continue
		}
		if o.Kind == corpus.Cert && facts != nil && li.Meta.Source != "" && len(es) == 0 {
			bad("in-scope-not-run", fmt.Sprintf("certificate is in the scope of %s but the lint was never instantiated", li.Meta.Source))
			continue
		}
		// life-cycle automaton
		want := "n"
		if li.Config {
			want += "c"
		}
		cfgFatal := li.Config && r.Status == lint.Fatal && !strings.Contains(seq, "a")
		switch {
		case cfgFatal:
			// configuration error: new, configure, nothing else
			if seq != want {
				bad("lifecycle-config-error", "configuration error must stop the life-cycle after Configure")
			}
			c.R.Distinct("trace_classes", "config-error")
			continue
		}
		if !strings.HasPrefix(seq, want+"a") {
			bad("lifecycle-order", "expected new"+map[bool]string{true: ", Configure", false: ""}[li.Config]+", CheckApplies in that order, each exactly once")
			continue
		}
		ai := len(want)
		applies := es[ai].applies
		rest := seq[ai+1:]
		inWin := mon.InWindow(li.Meta, o.Date())
		switch {
		case !applies:
			c.R.Distinct("trace_classes", "not-applicable")
			if rest != "" {
				bad("execute-after-applies-false", "the rule body (or another call) ran although CheckApplies returned false")
			}
			if r.Status != lint.NA {
				bad("inapplicable-not-na", "CheckApplies returned false but the result is not NA")
			}
		case !inWin:
			c.R.Distinct("trace_classes", "outside-window")
			if rest != "" {
				bad("execute-outside-window", "the rule body ran for an object outside the effective window")
			}
			if r.Status != lint.NE {
				bad("outside-window-not-ne", "applicable object outside the window must be NE")
			}
		default:
			c.R.Distinct("trace_classes", "executed")
			if rest != "e" {
				bad("execute-count", "the rule body must run exactly once for an in-scope, applicable, in-window object")
				break
			}
			e := es[len(es)-1]
			if r.Status != e.status || r.Details != e.details {
				bad("verdict-altered", fmt.Sprintf("the rule body returned %s %q but the framework reports something else", e.status, clipS(e.details, 60)))
			}
			c.R.Distinct("lints_traced_to_execute", real)
		}
		// the spy must agree with the un-spied lint
		if plain != nil {
			if p, ok := plain[real]; ok && (p.Status != int(r.Status) || p.Details != r.Details) && !c05ClockLints[real] {
				bad("spy-differs-from-lint", fmt.Sprintf("the un-instrumented lint gives %s %q", lint.LintStatus(p.Status), clipS(p.Details, 60)))
			}
		}
	}
}

// ---- scope lattice ----

var (
	latticeEKUs     = []string{gen.OIDEkuAny, gen.OIDEkuServer, gen.OIDEkuClient, gen.OIDEkuEmail, gen.OIDEkuCode, gen.OIDEkuOCSP, "1.3.6.1.4.1.99999.1"}
	latticePolicies = [][]string{nil, {gen.OIDPolDV}, {gen.OIDPolOV}, {gen.OIDPolEV}, {gen.OIDPolIV}, {"2.23.140.1.5.1.1"}, {"2.23.140.1.5.3.3"}, {"2.23.140.1.5.4.2"}, {gen.OIDPolCS}, {gen.OIDPolEVCS}, {gen.OIDPolAny}, {"1.3.6.1.4.1.99999.2"}, {"2.23.140.1.5.1"}, {"2.23.140.1.5.5.1"}, {gen.OIDPolOV, gen.OIDPolCS}, {"2.23.140.1.2"}, {"2.23.140.1.4.2"},
		// ORDERED lists: a near-miss sibling / parent / child of a scope policy in front of it, behind it, and behind an
		// unrelated policy (scope is "some policy of the list", wherever it sits)
		{"2.23.140.1.4.2", gen.OIDPolCS}, {gen.OIDPolCS, "2.23.140.1.4.2"}, {"1.3.6.1.4.1.99999.2", "2.23.140.1.4.2", gen.OIDPolCS}, {"2.23.140.1.4", gen.OIDPolCS}, {"2.23.140.1.4.1.1", gen.OIDPolCS},
		{"2.23.140.1.3.1", gen.OIDPolEVCS}, {"2.23.140.1.4.2", gen.OIDPolEVCS}, {gen.OIDPolEVCS, gen.OIDPolCS},
		{"2.23.140.1.2.4", gen.OIDPolDV}, {"2.23.140.1.2", gen.OIDPolOV}, {gen.OIDPolIV, "2.23.140.1.2.9"}, {"2.23.140.1.1.1", gen.OIDPolEV}, {"1.3.6.1.4.1.99999.2", "2.23.140.1.2.1.1", gen.OIDPolDV},
		{"2.23.140.1.5.1.4", "2.23.140.1.5.1.1"}, {"2.23.140.1.5.5.1", "2.23.140.1.5.2.2"}, {"2.23.140.1.5.1", "2.23.140.1.5.4.3"}, {"2.23.140.1.5.0.0", "1.3.6.1.4.1.99999.2", "2.23.140.1.5.3.1"}, {"2.23.140.1.5.1.1.1", "2.23.140.1.5.1.2"},
		{gen.OIDPolAny, gen.OIDPolCS}, {gen.OIDPolAny, gen.OIDPolDV}, {gen.OIDPolAny, "2.23.140.1.5.2.1"},
		// policies of TWO documents in one certificate, in both orders (a cross-purpose CA): in scope of each of them
		{"2.23.140.1.5.1.1", gen.OIDPolOV}, {gen.OIDPolOV, "2.23.140.1.5.1.1"}, {gen.OIDPolCS, gen.OIDPolEV}, {gen.OIDPolEV, gen.OIDPolCS}, {gen.OIDPolEVCS, "2.23.140.1.5.3.2", gen.OIDPolDV}, {"2.23.140.1.4.2", "2.23.140.1.5.2.3", gen.OIDPolIV}}
	latticeSANs = []string{"none", "email", "email-empty", "smtputf8", "smtputf8-empty", "dns", "email+dns", "upn-othername",
		// the e-mail indication BEHIND entries that are none: other otherNames, other name kinds, empty ones
		"upn+smtputf8", "smtputf8+upn", "upn+upn+smtputf8", "dns+uri+dir+email", "email-empty+email", "unknown-othername+dns+smtputf8"}
)

// x 2 templates: a subscriber certificate and a CA certificate (scope is a matter of EKU, policies and SAN, whoever the
// subject is)
func latticeSize() int { return 128 * len(latticePolicies) * len(latticeSANs) * 2 }

func latticeCert(k int) (*gen.Spec, scopeFacts, string) {
	ek := k % 128
	k /= 128
	pol := latticePolicies[k%len(latticePolicies)]
	k /= len(latticePolicies)
	san := latticeSANs[k%len(latticeSANs)]
	k /= len(latticeSANs)
	f := scopeFacts{ekus: map[string]bool{}, policies: map[string]bool{}, fromBuild: true}
	spec := gen.TLSLeaf(gen.D(2024, 3, 1), "www.example.com")
	tmpl := "subscriber"
	if k%2 == 1 {
		spec, tmpl = gen.SubCA(gen.D(2024, 3, 1)), "CA"
	}
	spec.RemoveExt(gen.OIDExtEKU)
	spec.RemoveExt(gen.OIDExtPol)
	spec.RemoveExt(gen.OIDExtSAN)
	var ekus []string
	for b := 0; b < 7; b++ {
		if ek&(1<<b) != 0 {
			ekus = append(ekus, latticeEKUs[b])
			f.ekus[latticeEKUs[b]] = true
		}
	}
	f.noEKU = len(ekus) == 0
	if len(ekus) > 0 {
		spec.Exts = append(spec.Exts, gen.ExtEKU(false, ekus...))
	}
	if len(pol) > 0 {
		spec.Exts = append(spec.Exts, gen.ExtPolicies(pol...))
		for _, p := range pol {
			f.policies[p] = true
		}
	}
	var gns []*der.Node
	switch san {
	case "email":
		gns = []*der.Node{gen.GNEmail("alice@example.com")}
		f.emailSAN = true
	case "email-empty":
		gns = []*der.Node{gen.GNEmail(""), gen.GNDNS("www.example.com")}
	case "smtputf8":
		gns = []*der.Node{gen.GNOther("1.3.6.1.5.5.7.8.9", der.Str(der.TagUTF8, "al\xc3\xafce@example.com"))}
		f.emailSAN = true
	case "smtputf8-empty":
		// an SmtpUTF8Mailbox otherName whose UTF8String is empty is still an e-mail indication: the property does
		// not define emptiness for otherNames, and the [0] EXPLICIT value is not empty (it holds the UTF8String TLV)
		gns = []*der.Node{gen.GNOther("1.3.6.1.5.5.7.8.9", der.Str(der.TagUTF8, "")), gen.GNDNS("www.example.com")}
		f.emailSAN = true
	case "dns":
		gns = []*der.Node{gen.GNDNS("www.example.com")}
	case "email+dns":
		gns = []*der.Node{gen.GNDNS("www.example.com"), gen.GNEmail("bob@example.org")}
		f.emailSAN = true
	case "upn-othername":
		gns = []*der.Node{gen.GNOther("1.3.6.1.4.1.311.20.2.3", der.Str(der.TagUTF8, "alice@example.com"))}
	case "upn+smtputf8":
		gns = []*der.Node{gen.GNOther("1.3.6.1.4.1.311.20.2.3", der.Str(der.TagUTF8, "alice@corp.example")), gen.GNOther("1.3.6.1.5.5.7.8.9", der.Str(der.TagUTF8, "alice@example.com"))}
		f.emailSAN = true
	case "smtputf8+upn":
		gns = []*der.Node{gen.GNOther("1.3.6.1.5.5.7.8.9", der.Str(der.TagUTF8, "alice@example.com")), gen.GNOther("1.3.6.1.4.1.311.20.2.3", der.Str(der.TagUTF8, "alice@corp.example"))}
		f.emailSAN = true
	case "upn+upn+smtputf8":
		gns = []*der.Node{gen.GNOther("1.3.6.1.4.1.311.20.2.3", der.Str(der.TagUTF8, "a@corp.example")), gen.GNOther("1.3.6.1.4.1.311.20.2.3", der.Str(der.TagUTF8, "b@corp.example")), gen.GNDNS("www.example.com"), gen.GNOther("1.3.6.1.5.5.7.8.9", der.Str(der.TagUTF8, "alice@example.com"))}
		f.emailSAN = true
	case "dns+uri+dir+email":
		gns = []*der.Node{gen.GNDNS("www.example.com"), gen.GNURI("https://www.example.com/"), gen.GNDir(gen.Name(gen.A(gen.OIDCN, "Alice"))), gen.GNIP([]byte{192, 0, 2, 1}), gen.GNEmail("alice@example.com")}
		f.emailSAN = true
	case "email-empty+email":
		gns = []*der.Node{gen.GNEmail(""), gen.GNEmail("alice@example.com")}
		f.emailSAN = true
	case "unknown-othername+dns+smtputf8":
		gns = []*der.Node{gen.GNOther("1.2.3.4.5", der.Str(der.TagUTF8, "x")), gen.GNDNS("www.example.com"), gen.GNOther("1.3.6.1.5.5.7.8.9", der.Str(der.TagUTF8, "alice@example.com"))}
		f.emailSAN = true
	}
	if len(gns) > 0 {
		spec.Exts = append(spec.Exts, gen.ExtSAN(false, gns...))
	}
	return spec, f, fmt.Sprintf("%s certificate, EKUs %v, policies %v, SAN %s", tmpl, ekus, pol, san)
}

func c04CfgFor(rng *rand.Rand) string {
	docs := []string{"", "", "[e_rsa_fermat_factorization" + spySuffix + "]\nRounds = 5\n", "[e_subj_orgunit_in_ca_cert" + spySuffix + "]\nCrossCert = true\n[e_crl_next_update_invalid" + spySuffix + "]\nSubscriberCRL = false\n",
		"[e_rsa_fermat_factorization" + spySuffix + "]\nRounds = \"x\"\n[e_crl_next_update_invalid" + spySuffix + "]\nSubscriberCRL = 3\n", "e_subj_contains_html_entities" + spySuffix + " = 7\n"}
	return docs[rng.Intn(len(docs))]
}

func init() {
	var nLattice, nSeeds, nMut int
	mon.Register(&mon.Check{
		ID:          "C04",
		Rule:        "evaluations = Lint*Ex calls under instrumentation. Every registered lint is shadowed by a spy registered through the public Register*Lint API (same metadata, constructor and methods wrapping the real lint's and logging new / Configure / CheckApplies->b / Execute->result); each call's event sequence per lint is checked by a trace automaton: out of source scope (decided by an independent reference: from the construction parameters for generated certificates, from parsed fields otherwise) => NA and no event at all; else new, Configure iff configurable, CheckApplies exactly once in that order; configuration error => fatal and nothing further; false => NA and no Execute; outside the window => NE and no Execute; else exactly one Execute whose return value is the reported status and details; the spy's result equals the un-instrumented lint's. Probe lints cover kind x source x configuration outcome x applicability x window x rule-body outcome (every status, panic). Workload: EKU x policy x SAN scope lattice, corpus, mutants. distinct_nontrivial = distinct inputs traced.",
		Assumptions: []string{"spies are registered under <name>__spy; configuration sections for them use that name", "the scope reference is the property's wording: no EKU at all / anyEKU / serverAuth / BR policy; e-mail SAN with no EKU, anyEKU or emailProtection, or an S/MIME BR policy; code-signing policy"},
		Setup: func(c *mon.Ctx) error {
			if err := setupCommon(c); err != nil {
				return err
			}
			c04Once.Do(c04Register)
			nSeeds = len(W.Objs)
			nLattice = c.Pick(2500, latticeSize())
			nMut = c.Pick(4000, 150000)
			c03Build(c) // C03's boundary campaign: objects dated exactly at / one second around every lint's window edges, Z, +hhmm and GeneralizedTime forms
			return nil
		},
		Once:  c04Probes,
		Cases: func(c *mon.Ctx) int { return nLattice + nSeeds + nMut + c04Directed(c) + len(c03Cases) },
		RunCase: func(c *mon.Ctx, i int) {
			rng := c.Rng(i, 0)
			if nb := nLattice + nSeeds + nMut + c04Directed(c); i >= nb {
				// "inside the window the rule's verdict stands" has to hold AT the edges too, however the date is written:
				// the trace automaton decides the window on integer seconds, the framework on time.Time values
				cs := c03Cases[i-nb]
				o, base := c03Object(cs)
				if o == nil {
					return
				}
				var fp *scopeFacts
				if o.Kind == corpus.Cert {
					f := factsFromParsed(o.Cert)
					fp = &f
				}
				c04Trace(c, o, fp, "", fmt.Sprintf("%s re-dated to %s of %s (offset form %d)", base.Name, cs.label, Inv[cs.lint].Name, cs.off))
				c.R.Count("boundary_dated_traced", 1)
				if cs.off != 0 {
					c.R.Count("boundary_dated_traced_offset_form", 1)
				}
				c.CountDistinct(o.DER)
				return
			}
			if i >= nLattice+nSeeds+nMut {
				// directed families (small ones completely, a stride of the big ones): shapes whose rule bodies return
				// long, unusual or hostile details - what the framework reports must be what the body returned
				k := directedPick(c, i-nLattice-nSeeds-nMut)
				if k < 0 {
					return
				}
				o, desc := directedCase(c, k)
				if o == nil {
					return
				}
				var fp *scopeFacts
				if o.Kind == corpus.Cert {
					f := factsFromParsed(o.Cert)
					fp = &f
				}
				c04Trace(c, o, fp, c04CfgFor(rng), "directed: "+desc)
				c.R.Count("directed_traced", 1)
				c.CountDistinct(o.DER)
				return
			}
			if i < nLattice {
				k := i
				if !c.Thorough() {
					k = int((uint64(i)*2654435761 + uint64(c.Seed)*97) % uint64(latticeSize()))
				}
				spec, facts, how := latticeCert(k)
				o, _ := mon.ParseObj(corpus.Cert, "gen/lattice", spec.DER())
				if o == nil {
					c.R.Count("lattice_rejected", 1)
					return
				}
				// the parsed view must tell the same story as the construction (else the reference, not zlint, is off)
				pf := factsFromParsed(o.Cert)
				for _, src := range []lint.LintSource{lint.CABFBaselineRequirements, lint.CABFSMIMEBaselineRequirements, lint.CABFCSBaselineRequirements} {
					if pf.inScope(src) != facts.inScope(src) {
						c.R.Count("reference_disagreement", 1)
						c.R.Distinct("reference_disagreements", how+" / "+string(src))
					}
					c.R.Distinct("scope_outcomes", fmt.Sprintf("%s=%v", src, facts.inScope(src)))
				}
				c04Trace(c, o, &facts, c04CfgFor(rng), "scope lattice: "+how)
				c.CountDistinct(o.DER)
				if i%251 == 0 {
					c.R.Sample(8, map[string]any{"lattice_point": how, "tls_scope": facts.inScope(lint.CABFBaselineRequirements), "smime_scope": facts.inScope(lint.CABFSMIMEBaselineRequirements), "cs_scope": facts.inScope(lint.CABFCSBaselineRequirements)})
				}
				return
			}
			o, desc, _ := unionCase(c, i-nLattice, &c04Mut)
			if o == nil {
				return
			}
			var fp *scopeFacts
			if o.Kind == corpus.Cert {
				f := factsFromParsed(o.Cert)
				fp = &f
			}
			c04Trace(c, o, fp, c04CfgFor(rng), o.Name+"~"+desc)
			c.CountDistinct(o.DER)
		},
		Finish: func(c *mon.Ctx, r *mon.Report, ev *mon.Evidence) []string {
			var gates []string
			ev.Coverage["trace_classes"] = r.Sets["trace_classes"]
			ev.Coverage["traces_judged"] = r.Counters["traces_judged"]
			ev.Coverage["lints_traced_to_execute"] = r.SetSize("lints_traced_to_execute")
			ev.Coverage["scope_outcomes"] = r.Sets["scope_outcomes"]
			ev.Coverage["probe_combinations"] = r.SetSize("probe_combinations")
			ev.Coverage["reference_disagreements"] = r.SetKeys("reference_disagreements")
			for _, k := range []string{"executed", "not-applicable", "outside-window", "config-error", "out-of-scope:CABF_BR", "out-of-scope:CABF_SMIME_BR", "out-of-scope:CABF_CS_BR"} {
				if r.Sets["trace_classes"][k] == 0 {
					gates = append(gates, "trace class never observed: "+k)
				}
			}
			for _, s := range []string{"CABF_BR", "CABF_SMIME_BR", "CABF_CS_BR"} {
				for _, b := range []string{"true", "false"} {
					if r.Sets["scope_outcomes"][s+"="+b] == 0 {
						gates = append(gates, "scope outcome never constructed: "+s+"="+b)
					}
				}
			}
			if r.SetSize("lints_traced_to_execute") < len(Inv)*8/10 {
				gates = append(gates, fmt.Sprintf("only %d of %d lints were traced down to their rule body", r.SetSize("lints_traced_to_execute"), len(Inv)))
			}
			ev.Coverage["boundary_dated_traced"] = r.Counters["boundary_dated_traced"]
			ev.Coverage["boundary_dated_traced_offset_form"] = r.Counters["boundary_dated_traced_offset_form"]
			if r.Counters["boundary_dated_traced_offset_form"] < 500 {
				gates = append(gates, "too few objects dated at a window edge in +hhmm form were traced")
			}
			if r.Counters["deprecated_wrapper_comparisons"] < 1000 {
				gates = append(gates, "deprecated-wrapper comparison did not run")
			}
			if r.SetSize("probe_combinations") < 500 {
				gates = append(gates, "probe-lint product covered too little")
			}
			if r.Counters["reference_disagreement"] > 0 {
				gates = append(gates, fmt.Sprintf("the construction-based and the parsed-field scope references disagree on %d lattice points (harness problem, see reference_disagreements)", r.Counters["reference_disagreement"]))
			}
			return gates
		},
	})
}

var _ = time.Now

func c04Directed(c *mon.Ctx) int {
	return directedSmallTail(c) + (directedCount(c)-directedSmallTail(c))/c.Pick(23, 3)
}
