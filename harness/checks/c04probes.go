package checks

import (
	"fmt"
	"strings"
	"time"

	"github.com/zmap/zcrypto/x509"
	"github.com/zmap/zlint/v3/lint"
	"golang.org/x/crypto/ocsp"

	"verif/corpus"
	"verif/gen"
	"verif/mon"
)

// Probe lints: behaviour scripted per call by the harness.

type probeScript struct {
	applies bool
	outcome string // "NA","NE","pass","info","warn","error","fatal","reserved","panic"
	details string
}

var probeScripts = map[string]probeScript{} // by probe name; default = applies, pass

type probeCfg struct {
	N     int
	Calls int // bumped by every CheckApplies / Execute of the instance: a fresh instance always starts at 0
	calls int
}

type c04Probe struct {
	name string
	cfg  *probeCfg // nil: not configurable
}

func (p *c04Probe) script() probeScript {
	if s, ok := probeScripts[p.name]; ok {
		return s
	}
	return probeScript{applies: true, outcome: "pass", details: "default"}
}

func (p *c04Probe) applies() bool {
	if p.cfg != nil {
		p.cfg.Calls++
		p.cfg.calls++
	}
	b := p.script().applies
	spyEmit(spyEvent{lint: p.name, what: "applies", applies: b})
	return b
}

func (p *c04Probe) execute() *lint.LintResult {
	s := p.script()
	d := s.details
	if p.cfg != nil {
		p.cfg.Calls++
		p.cfg.calls++
		d = fmt.Sprintf("%s N=%d", d, p.cfg.N)
		if p.cfg.Calls != 2 || p.cfg.calls != 2 { // exactly one CheckApplies and this Execute on a FRESH instance
			d = fmt.Sprintf("%s STALE-INSTANCE(calls=%d/%d)", d, p.cfg.Calls, p.cfg.calls)
		}
	}
	spyEmit(spyEvent{lint: p.name, what: "execute", details: d})
	if s.outcome == "panic" {
		var m map[string]int
		m["boom"] = 1 // a real runtime panic
	}
	st := lint.LintStatus(0)
	for k, v := range c14Labels {
		if v == s.outcome {
			st = k
		}
	}
	return &lint.LintResult{Status: st, Details: d}
}

type probeCertL struct{ c04Probe }

func (p *probeCertL) CheckApplies(*x509.Certificate) bool        { return p.applies() }
func (p *probeCertL) Execute(*x509.Certificate) *lint.LintResult { return p.execute() }

type probeCertCfgL struct{ probeCertL }

func (p *probeCertCfgL) Configure() interface{} {
	spyEmit(spyEvent{lint: p.name, what: "configure"})
	return p.cfg
}

type probeCRLL struct{ c04Probe }

func (p *probeCRLL) CheckApplies(*x509.RevocationList) bool        { return p.applies() }
func (p *probeCRLL) Execute(*x509.RevocationList) *lint.LintResult { return p.execute() }

type probeCRLCfgL struct{ probeCRLL }

func (p *probeCRLCfgL) Configure() interface{} {
	spyEmit(spyEvent{lint: p.name, what: "configure"})
	return p.cfg
}

type probeOCSPL struct{ c04Probe }

func (p *probeOCSPL) CheckApplies(*ocsp.Response) bool        { return p.applies() }
func (p *probeOCSPL) Execute(*ocsp.Response) *lint.LintResult { return p.execute() }

type probeOCSPCfgL struct{ probeOCSPL }

func (p *probeOCSPCfgL) Configure() interface{} {
	spyEmit(spyEvent{lint: p.name, what: "configure"})
	return p.cfg
}

type probeDef struct {
	name   string
	kind   corpus.Kind
	source lint.LintSource
	cfg    bool
	window string // before, in, after
}

var c04ProbeDefs []probeDef

var probeSources = []lint.LintSource{lint.CABFBaselineRequirements, lint.CABFSMIMEBaselineRequirements, lint.CABFCSBaselineRequirements, lint.Community}

func c04RegisterProbes() []string {
	var names []string
	far := time.Date(2090, 1, 1, 0, 0, 0, 0, time.UTC)
	past := time.Date(1990, 1, 1, 0, 0, 0, 0, time.UTC)
	for _, kind := range []corpus.Kind{corpus.Cert, corpus.CRL, corpus.OCSP} {
		for _, src := range probeSources {
			for _, cfg := range []bool{false, true} {
				for _, win := range []string{"before", "in", "after"} {
					name := fmt.Sprintf("e_verif_probe_%s_%s_cfg%v_%s", kind, strings.ToLower(string(src)), cfg, win)
					m := lint.LintMetadata{Name: name, Description: "verif probe", Citation: "verif", Source: src}
					switch win {
					case "before":
						m.EffectiveDate = far
					case "after":
						m.IneffectiveDate = past
					}
					def := probeDef{name, kind, src, cfg, win}
					c04ProbeDefs = append(c04ProbeDefs, def)
					names = append(names, name)
					mk := func() c04Probe {
						spyEmit(spyEvent{lint: name, what: "new"})
						p := c04Probe{name: name}
						if cfg {
							p.cfg = &probeCfg{N: 7}
						}
						return p
					}
					switch kind {
					case corpus.Cert:
						lint.RegisterCertificateLint(&lint.CertificateLint{LintMetadata: m, Lint: func() lint.CertificateLintInterface {
							if cfg {
								return &probeCertCfgL{probeCertL{mk()}}
							}
							return &probeCertL{mk()}
						}})
					case corpus.CRL:
						lint.RegisterRevocationListLint(&lint.RevocationListLint{LintMetadata: m, Lint: func() lint.RevocationListLintInterface {
							if cfg {
								return &probeCRLCfgL{probeCRLL{mk()}}
							}
							return &probeCRLL{mk()}
						}})
					default:
						lint.RegisterOcspResponseLint(&lint.OcspResponseLint{LintMetadata: m, Lint: func() lint.OcspResponseLintInterface {
							if cfg {
								return &probeOCSPCfgL{probeOCSPL{mk()}}
							}
							return &probeOCSPL{mk()}
						}})
					}
				}
			}
		}
	}
	return names
}

// c04Deprecated: the deprecated views of a registry (Registry.ByName / BySource returning *lint.Lint, and
// lint.Lint.Execute / CheckEffective) must answer exactly like the certificate lints they wrap.
func c04Deprecated(c *mon.Ctx) {
	reg := c04PlainReg
	reg.SetConfiguration(mustConfig(""))
	cfg := reg.GetConfiguration()
	var objs []*mon.Obj
	for i, idx := range W.ByKind[corpus.Cert] {
		if i%c.Pick(40, 8) == 0 {
			objs = append(objs, W.Objs[idx])
		}
	}
	perSource := map[lint.LintSource]int{}
	for _, li := range Inv {
		if li.Kind != corpus.Cert {
			if reg.ByName(li.Name) != nil {
				c.V("deprecated-byname-wrong-kind|"+li.Name, "Registry.ByName answers for "+li.Name+", which is not a certificate lint", li.Name, nil, nil)
			}
			continue
		}
		perSource[li.Meta.Source]++
		old := reg.ByName(li.Name)
		if old == nil {
			c.V("deprecated-byname-missing|"+li.Name, "Registry.ByName does not find certificate lint "+li.Name, li.Name, nil, nil)
			continue
		}
		if old.Name != li.Name || old.Source != li.Meta.Source || !old.EffectiveDate.Equal(li.Meta.EffectiveDate) || !old.IneffectiveDate.Equal(li.Meta.IneffectiveDate) || old.Description != li.Meta.Description || old.Citation != li.Meta.Citation {
			c.V("deprecated-metadata|"+li.Name, "the deprecated view of "+li.Name+" carries different metadata", li.Name, nil, nil)
		}
		for _, o := range objs {
			fresh := o.Reparse()
			if fresh == nil {
				continue
			}
			a := li.CertL.Execute(fresh.Cert, cfg)
			fresh2 := o.Reparse()
			b := old.Execute(fresh2.Cert, cfg)
			c.R.Count("evaluations", 2)
			c.R.Count("deprecated_wrapper_comparisons", 1)
			if a == nil || b == nil || a.Status != b.Status || a.Details != b.Details {
				c.V("deprecated-execute-differs|"+li.Name, fmt.Sprintf("lint.Lint.Execute gives %v, CertificateLint.Execute gives %v for %s on %s", b, a, li.Name, o.Name), li.Name, inputs(o), nil)
			}
			if old.CheckEffective(fresh.Cert) != li.CertL.CheckEffective(fresh.Cert) {
				c.V("deprecated-checkeffective-differs|"+li.Name, "lint.Lint.CheckEffective disagrees with CertificateLint.CheckEffective for "+li.Name, li.Name, inputs(o), nil)
			}
		}
		c.Tick()
	}
	for s, n := range perSource {
		if got := len(reg.BySource(s)); got != n {
			c.V("deprecated-bysource|"+string(s), fmt.Sprintf("Registry.BySource(%s) returns %d lints, the registry holds %d certificate lints of that source", s, got, n), "", nil, nil)
		}
	}
}

// c04Probes runs the probe product (shard 0 only; single goroutine).
func c04Probes(c *mon.Ctx) {
	c04Deprecated(c)
	objs := map[string]*mon.Obj{}
	add := func(k string, kind corpus.Kind, b []byte) {
		if o, _ := mon.ParseObj(kind, k, b); o != nil {
			objs[k] = o
		}
	}
	nb := gen.D(2024, 3, 1)
	add("tls", corpus.Cert, gen.TLSLeaf(nb, "www.example.com").DER())
	add("smime", corpus.Cert, gen.SMIMELeaf(nb, "alice@example.com").DER())
	add("cs", corpus.Cert, gen.CSLeaf(nb).DER())
	cl := gen.TLSLeaf(nb, "www.example.com")
	cl.ReplaceExt(gen.ExtEKU(false, gen.OIDEkuClient))
	cl.RemoveExt(gen.OIDExtPol)
	add("client-only", corpus.Cert, cl.DER())
	add("crl", corpus.CRL, gen.BasicCRL(nb).DER())
	for _, idx := range W.ByKind[corpus.OCSP] {
		objs["ocsp"] = W.Objs[idx]
		break
	}
	scopeOf := map[string]map[lint.LintSource]bool{
		"tls":         {lint.CABFBaselineRequirements: true},
		"smime":       {lint.CABFSMIMEBaselineRequirements: true},
		"cs":          {lint.CABFCSBaselineRequirements: true},
		"client-only": {},
	}
	outcomes := []string{"NA", "NE", "pass", "info", "warn", "error", "fatal", "panic"}
	cfgModes := []string{"none", "ok", "ill-typed", "scalar"}
	reg := c04ProbeReg
	for oname, o := range objs {
		for _, cm := range cfgModes {
			for _, applies := range []bool{true, false} {
				for oi, outcome := range outcomes {
					// one probe (rotating) gets the scripted outcome, every other probe behaves normally
					for ti, target := range c04ProbeDefs {
						if target.kind != o.Kind || (ti+oi)%3 != 0 {
							continue
						}
						if outcome == "panic" && o.Kind != corpus.Cert {
							continue // CRL / OCSP linting has no recovery net; a panicking rule body there is C02's subject
						}
						probeScripts = map[string]probeScript{target.name: {applies: applies, outcome: outcome, details: "scripted " + outcome}}
						var doc string
						switch cm {
						case "ok":
							doc = fmt.Sprintf("[%s]\nN = 42\n", target.name)
						case "ill-typed":
							doc = fmt.Sprintf("[%s]\nN = \"many\"\n", target.name)
						case "scalar":
							doc = fmt.Sprintf("%s = 5\n", target.name)
						}
						reg.SetConfiguration(mustConfig(doc))
						spyReset()
						rs, pv, _ := o.Lint(reg)
						c.R.Count("evaluations", 1)
						in := inputs(o)
						if pv != nil || rs == nil {
							c.V("probe-run-panics|"+o.Kind.String(), fmt.Sprintf("linting with probe lints panicked at the caller: %v (target %s, outcome %s)", pv, target.name, outcome), "", in, nil)
							continue
						}
						ev := spyEvents()
						for _, d := range c04ProbeDefs {
							if d.kind != o.Kind {
								continue
							}
							r := rs.Results[d.name]
							seq := ""
							for _, e := range ev[d.name] {
								seq += e.what[:1]
							}
							isTarget := d.name == target.name
							sc := probeScript{applies: true, outcome: "pass", details: "default"}
							if isTarget {
								sc = probeScripts[d.name]
							}
							// expected sequence and result
							var wantSeq string
							var wantStatus lint.LintStatus
							wantDetails := ""
							inScope := o.Kind != corpus.Cert || d.source == lint.Community || scopeOf[oname][d.source]
							cfgBad := d.cfg && isTarget && (cm == "ill-typed" || cm == "scalar")
							switch {
							case !inScope:
								wantSeq, wantStatus = "", lint.NA
							case cfgBad:
								wantSeq, wantStatus = "nc", lint.Fatal
							default:
								wantSeq = "n"
								if d.cfg {
									wantSeq += "c"
								}
								wantSeq += "a"
								switch {
								case !sc.applies:
									wantStatus = lint.NA
								case d.window != "in":
									wantStatus = lint.NE
								default:
									wantSeq += "e"
									if sc.outcome == "panic" {
										wantStatus = lint.Fatal
									} else {
										for k, v := range c14Labels {
											if v == sc.outcome {
												wantStatus = k
											}
										}
										wantDetails = sc.details
										if d.cfg {
											n := 7
											if isTarget && cm == "ok" {
												n = 42
											}
											wantDetails = fmt.Sprintf("%s N=%d", sc.details, n)
										}
									}
								}
							}
							c.R.Distinct("probe_combinations", fmt.Sprintf("%s/%s/cfg=%v:%s/%s/applies=%v/%s/scope=%v", d.kind, d.source, d.cfg, cm, d.window, sc.applies, sc.outcome, inScope))
							what := fmt.Sprintf("probe %s on %s (config %s, applies %v, rule body -> %s, target of the script: %v)", d.name, oname, cm, sc.applies, sc.outcome, isTarget)
							if r == nil {
								c.V("probe-no-result", "no result for "+what, d.name, in, nil)
								continue
							}
							if seq != wantSeq {
								c.V(fmt.Sprintf("probe-lifecycle|%s|want-%s", d.kind, wantSeq), fmt.Sprintf("event sequence %q, want %q: %s", seq, wantSeq, what), d.name, in, nil)
							}
							if r.Status != wantStatus {
								c.V(fmt.Sprintf("probe-status|%s|want-%s", d.kind, wantStatus), fmt.Sprintf("status %s, want %s: %s", r.Status, wantStatus, what), d.name, in, nil)
							} else if wantDetails != "" && r.Details != wantDetails {
								c.V("probe-details|"+d.kind.String(), fmt.Sprintf("details %q, want %q: %s", r.Details, wantDetails, what), d.name, in, nil)
							}
							if cfgBad && r.Status == lint.Fatal && (mon.IsRecoveredPanic(mon.SD{Status: int(r.Status), Details: r.Details}) || !strings.Contains(r.Details, d.name)) {
								c.V("probe-config-error-message|"+d.kind.String(), fmt.Sprintf("configuration error is not reported as such: %q: %s", clipS(r.Details, 100), what), d.name, in, nil)
							}
						}
					}
				}
			}
			c.Tick()
		}
	}
	probeScripts = map[string]probeScript{}
	// the same Configuration object used for several runs in a row (what every real caller does): each run must
	// still get fresh, freshly configured instances
	for _, doc := range []string{"", "[e_verif_probe_cert_community_cfgtrue_in]\nN = 5\n[e_verif_probe_crl_community_cfgtrue_in]\nN = 6\n[e_verif_probe_ocsp_community_cfgtrue_in]\nN = 8\n"} {
		reg.SetConfiguration(mustConfig(doc))
		for _, oname := range []string{"tls", "crl", "ocsp", "smime"} {
			o := objs[oname]
			if o == nil {
				continue
			}
			for rep := 0; rep < 4; rep++ {
				rs, pv, _ := o.Lint(reg)
				c.R.Count("evaluations", 1)
				if pv != nil || rs == nil {
					continue
				}
				for name, r := range rs.Results {
					if strings.Contains(r.Details, "STALE-INSTANCE") {
						c.V("instance-not-fresh|"+o.Kind.String(), fmt.Sprintf("run %d under one Configuration: %s ran on an instance that had been used before (%s)", rep+1, name, r.Details), name, inputs(o), nil)
					}
				}
				c.R.Count("same_configuration_reruns", 1)
			}
		}
	}
}
