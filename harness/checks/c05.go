package checks

import (
	"context"
	"fmt"
	"math/big"
	"math/rand"
	"os"
	"os/exec"
	"path/filepath"
	"sort"
	"strconv"
	"strings"
	"sync"
	"time"
	"verif/corpus"
	"verif/gen"

	"github.com/zmap/zlint/v3/lint"

	"verif/mon"
)

// C05 - deterministic, history-independent, read-only, I/O-free.

var (
	c05Mut  mon.MutStats
	c05Regs []regCfg
)

// The two lints the property exempts (they compare host names with today's TLD table).
var c05ClockLints = map[string]bool{"w_sub_cert_aia_contains_internal_names": true, "w_smime_aia_contains_internal_names": true}

func c05Setup(c *mon.Ctx) error {
	if err := setupCommon(c); err != nil {
		return err
	}
	g := lint.GlobalRegistry()
	cfgs := basicConfigs()
	rng := c.Rng(-5, 0)
	c05Regs = nil
	for k := 0; len(c05Regs) < 6; k++ {
		o := randFilter(rng, false)
		if o.Empty() {
			continue
		}
		r, err := g.Filter(o)
		if err != nil {
			continue
		}
		cd := cfgs[k%len(cfgs)]
		r.SetConfiguration(mustConfig(cd.Text))
		c05Regs = append(c05Regs, regCfg{r, "filter{" + describeFilter(o) + "} cfg=" + cd.Label})
	}
	return nil
}

// c05FirstDiff names the lints that differ between two snapshots.
func c05FirstDiff(a, b mon.Snap) []string {
	return mon.Diff(a, b, false, false)
}

func c05Case(c *mon.Ctx, i int, record bool) {
	g := lint.GlobalRegistry()
	var o *mon.Obj
	var desc string
	var isSeed bool
	if sb := c05SingleBase(c); i >= sb+c05SingleCases(c) {
		c05Lattice(c, i-sb-c05SingleCases(c))
		return
	} else if i >= sb {
		c05Single(c, i, i-sb)
		return
	}
	if base := len(W.Objs) + c.Pick(12000, 400000) + directedCount(c)/c.Pick(6, 1); i >= base+c05PairCases(c)+c05LongCases+c05CfgCases(c) {
		c05CfgGenHistory(c, i-base-c05PairCases(c)-c05LongCases-c05CfgCases(c))
		return
	} else if i >= base+c05PairCases(c)+c05LongCases {
		c05CfgHistory(c, i-base-c05PairCases(c)-c05LongCases)
		return
	} else if i >= base+c05PairCases(c) {
		c05Long(c, i-base-c05PairCases(c))
		return
	} else if i >= base {
		c05Pair(c, i-base)
		return
	}
	if nU := len(W.Objs) + c.Pick(12000, 400000); i >= nU {
		// directed families, sampled from the end so the SAN-sibling family is always complete
		// the small families at the end of the enumeration are run completely; what is left of this part's budget
		// (a sixth of the enumeration at quick, all of it at thorough) is spread evenly over the two big families
		k := directedPick(c, i-nU)
		if k < 0 {
			return
		}
		o, desc = directedCase(c, k)
	} else {
		o, desc, isSeed = unionCase(c, i, &c05Mut)
	}
	if o == nil {
		return
	}
	dayBefore := time.Now().UTC().Format("2006-01-02")
	before := mon.DigestExported(o.Parsed())
	rs, pv, _ := o.Lint(g)
	c.R.Count("evaluations", 1)
	if pv != nil {
		c.R.CrossObs("C01:panic-at-caller")
		return
	}
	first := mon.SnapOf(rs)
	reps := 3
	if isSeed {
		reps = 7
	}
	regFirst := map[int]mon.Snap{}
	rng := c.Rng(i, 2)
	report := func(kind string, diffs []string, other mon.Snap) {
		// a date change between the two runs may legitimately move the two exempt lints
		if time.Now().UTC().Format("2006-01-02") != dayBefore {
			onlyClock := true
			for _, d := range diffs {
				if !c05ClockLints[strings.SplitN(d, ":", 2)[0]] {
					onlyClock = false
				}
			}
			if onlyClock {
				c.R.Count("clock_day_change_skips", 1)
				return
			}
		}
		for _, d := range diffs {
			name := strings.SplitN(d, ":", 2)[0]
			c.V(kind+"|"+name, fmt.Sprintf("%s: same object, registry and configuration, different result: %s (input %s~%s)", kind, clipS(d, 300), o.Name, desc), name, inputs(o), nil)
		}
	}
	for k := 0; k < reps; k++ {
		// history: another object, other registries, other configurations in between
		other := c05Neighbour(c, i, rng)
		_, _, _ = other.Lint(g)
		rc := c05Regs[rng.Intn(len(c05Regs))]
		ri := -1
		for j := range c05Regs {
			if c05Regs[j].reg == rc.reg {
				ri = j
			}
		}
		if rs2, pv2, _ := o.Lint(rc.reg); pv2 == nil && rs2 != nil {
			s2 := mon.SnapOf(rs2)
			if prev, ok := regFirst[ri]; ok {
				if d := c05FirstDiff(prev, s2); len(d) > 0 {
					report("repeat-filtered", d, s2)
				}
			} else {
				regFirst[ri] = s2
			}
			c.R.Count("evaluations", 1)
		}
		_, _, _ = other.Lint(c05Regs[rng.Intn(len(c05Regs))].reg)
		target := o
		how := "repeat"
		if k%2 == 1 {
			if rp := o.Reparse(); rp != nil {
				target = rp
				how = "repeat-reparsed"
			}
		}
		rsk, pvk, _ := target.Lint(g)
		c.R.Count("evaluations", 1)
		if pvk != nil || rsk == nil {
			continue
		}
		if d := c05FirstDiff(first, mon.SnapOf(rsk)); len(d) > 0 {
			report(how, d, mon.SnapOf(rsk))
		}
		c.R.Count("repetitions_compared", 1)
	}
	after := mon.DigestExported(o.Parsed())
	c.R.Count("readonly_checks", 1)
	if before != after {
		// find the culprit lint: re-parse and digest around each lint alone
		culprit := "unknown"
		if rp := o.Reparse(); rp != nil {
			for _, li := range Inv {
				if li.Kind != rp.Kind {
					continue
				}
				b := mon.DigestExported(rp.Parsed())
				mon.RunDirect(li, rp, g.GetConfiguration())
				if mon.DigestExported(rp.Parsed()) != b {
					culprit = li.Name
					break
				}
			}
		}
		c.V("mutated-object|"+culprit, fmt.Sprintf("exported fields of the linted %s changed during linting (first lint that changes them when run alone: %s; input %s~%s)", o.Kind, culprit, o.Name, desc), culprit, inputs(o), nil)
	}
	if nontrivial(first) {
		c.CountDistinct(o.DER)
	}
	if record {
		c.R.Distinct("digest", fmt.Sprintf("%d=%s", i, mon.SnapDigest(stripClock(first))))
	}
	observeCross(c, "C05", first)
	if i%4001 == 0 {
		c.R.Sample(6, map[string]any{"kind": o.Kind.String(), "input": o.Name, "edits": desc, "repetitions": reps, "result_digest": mon.SnapDigest(first), "object_digest": before})
	}
}

// c05Neighbour picks the object linted just before the subject: half of the
// time a close relative (an adjacent corpus file - test files of one lint sit
// next to each other -, another member of the generated families, another
// mutant of the same seed), otherwise any seed. State leaking from one call
// into the next shows when both objects drive the same lint down different
// paths, which relatives do far more often than strangers.
func c05Neighbour(c *mon.Ctx, i int, rng *rand.Rand) *mon.Obj {
	n := len(W.Objs)
	if rng.Intn(2) == 0 {
		return W.Objs[rng.Intn(n)]
	}
	switch {
	case i >= FamilyStart && i < FamilyEnd:
		return W.Objs[FamilyStart+rng.Intn(FamilyEnd-FamilyStart)]
	case i < n:
		j := i + rng.Intn(9) - 4
		if j < 0 || j >= n {
			j = i
		}
		return W.Objs[j]
	default:
		if o, _ := W.Mutant(c.Rng(i, 0), nil); o != nil { // same seed choice as the subject, different edits
			return o
		}
		return W.Objs[FamilyStart+rng.Intn(FamilyEnd-FamilyStart)]
	}
}

func stripClock(s mon.Snap) mon.Snap {
	out := mon.Snap{}
	for k, v := range s {
		if !c05ClockLints[k] {
			out[k] = v
		}
	}
	return out
}

const c05FreshEvery = 97

func init() {
	mon.Register(&mon.Check{
		ID:          "C05",
		Rule:        "evaluations = Lint*Ex calls; each case lints one object 4-8 times through the global registry (half of them on a fresh parse of the same bytes), interleaved with other objects, filtered registries and other configurations, and all per-lint (status, details) must be identical; exported fields of the parsed object are digested (reflection walk) before and after; a sample of cases is re-run alone in a fresh process and compared by result digest; the lint phase is traced with strace (syscall classification) and run with a std-library overlay that hooks time.Now / syscall.Getenv / syscall.Environ with caller attribution. distinct_nontrivial (de-duplicated by a hash of the DER bytes within each worker process) = distinct inputs with >= 1 lint beyond NA that went through the full repetition protocol.",
		Assumptions: []string{"wall-clock day held fixed: a UTC date change during a comparison that affects only the two exempt AIA lints is skipped and counted", "unexported parser caches are not part of the read-only claim"},
		Setup: func(c *mon.Ctx) error {
			if err := c05Setup(c); err != nil {
				return err
			}
			cfgWorkBuild(c)
			return nil
		},
		Cases: func(c *mon.Ctx) int {
			return c05SingleBase(c) + c05SingleCases(c) + c05LatticeCases(c)
		},
		RunCase: func(c *mon.Ctx, i int) { c05Case(c, i, c.Only >= 0 || i%c05FreshEvery == 0) },
		Aux:     map[string]func(c *mon.Ctx){"io": c05IOAux, "env": c05EnvAux},
		Finish: func(c *mon.Ctx, r *mon.Report, ev *mon.Evidence) []string {
			gates := mutGate(r, 500)
			gates = append(gates, c05Fresh(c, r, ev)...)
			gates = append(gates, c05IOPhase(c, r, ev)...)
			gates = append(gates, c05EnvPhase(c, r, ev)...)
			ev.Coverage["configuration_history_steps"] = r.Counters["configuration_history_steps"]
			ev.Coverage["long_repetition_runs"] = r.Counters["long_repetition_runs"]
			ev.Coverage["generated_configuration_history_steps"] = r.Counters["generated_configuration_history_steps"]
			ev.Coverage["generated_configuration_history_lints"] = r.SetKeys("generated_configuration_history_lints")
			if r.Counters["generated_configuration_history_steps"] < 500 {
				gates = append(gates, "too few generated configuration history steps compared")
			}
			if r.Counters["configuration_history_steps"] < 500 {
				gates = append(gates, "too few configuration-switching history steps compared")
			}
			if r.Counters["repetitions_compared"] < 1000 {
				gates = append(gates, "too few repetitions compared")
			}
			return gates
		},
	})
}

// c05Fresh re-runs sampled cases alone in fresh processes and compares digests.
func c05Fresh(c *mon.Ctx, r *mon.Report, ev *mon.Evidence) []string {
	inHist := map[int]string{}
	for _, k := range r.SetKeys("digest") {
		kv := strings.SplitN(k, "=", 2)
		i, _ := strconv.Atoi(kv[0])
		inHist[i] = kv[1]
	}
	var idx []int
	for i := range inHist {
		idx = append(idx, i)
	}
	sort.Ints(idx)
	// the pool-member class is compared completely, the rest by a strided sample
	var members []int
	if sb := c05SingleBase(c); len(idx) > 0 {
		cut := sort.SearchInts(idx, sb)
		members = append(members, idx[cut:]...)
		idx = idx[:cut]
	}
	maxN := c.Pick(48, 400)
	if len(idx) > maxN {
		step := len(idx) / maxN
		var pick []int
		for k := 0; k < len(idx) && len(pick) < maxN; k += step {
			pick = append(pick, idx[k])
		}
		idx = pick
	}
	idx = append(idx, members...)
	ev.Coverage["fresh_process_pool_members"] = len(members)
	exe, _ := os.Executable()
	var mu sync.Mutex
	var wg sync.WaitGroup
	sem := make(chan struct{}, 16)
	compared, mismatched := 0, 0
	for _, i := range idx {
		wg.Add(1)
		sem <- struct{}{}
		go func(i int) {
			defer wg.Done()
			defer func() { <-sem }()
			out := filepath.Join(c.Work, fmt.Sprintf("fresh%d.json", i))
			ctx, cancel := context.WithTimeout(context.Background(), 10*time.Minute)
			defer cancel()
			cmd := exec.CommandContext(ctx, exe, c.Prop, c.Tier, "-worker", "-only", strconv.Itoa(i), "-out", out, "-work", c.Work)
			if err := cmd.Run(); err != nil {
				mu.Lock()
				r.Inconcl(fmt.Sprintf("fresh-process run of case %d failed: %v", i, err))
				mu.Unlock()
				return
			}
			rep, err := mon.ReadReport(out)
			if err != nil {
				return
			}
			fresh := ""
			for k := range rep.Sets["digest"] {
				kv := strings.SplitN(k, "=", 2)
				if kv[0] == strconv.Itoa(i) {
					fresh = kv[1]
				}
			}
			mu.Lock()
			defer mu.Unlock()
			for _, v := range rep.Violations {
				r.Violate(v)
			}
			if fresh == "" {
				return
			}
			compared++
			if fresh != inHist[i] {
				mismatched++
				r.Violate(mon.Violation{Property: c.Prop, Key: c.Prop + "|fresh-process-differs", What: fmt.Sprintf("case %d: result digest in a fresh process (%s) differs from the digest obtained after a history of other lint calls (%s)", i, fresh, inHist[i]), Case: i, Tier: c.Tier, Seed: c.Seed})
			}
		}(i)
	}
	wg.Wait()
	ev.Coverage["fresh_process_comparisons"] = compared
	if compared < len(idx)/2 || compared == 0 {
		return []string{fmt.Sprintf("only %d fresh-process comparisons completed", compared)}
	}
	return nil
}

// ---- two-step histories inside the generated families ----
//
// For ordered pairs (A, B) of family members: lint A, then B, and compare B
// with B linted first in this process state's baseline (computed once, before
// any pair, on fresh parses). Exhaustive over the family at thorough.

var (
	c05PairBase map[int]mon.Snap
	c05PairOnce sync.Once
)

func c05PairCases(c *mon.Ctx) int {
	n := FamilyEnd - FamilyStart
	return n * n // exhaustive over ordered pairs (about 11 k pairs today)
}

func c05Pair(c *mon.Ctx, k int) {
	g := lint.GlobalRegistry()
	n := FamilyEnd - FamilyStart
	c05PairOnce.Do(func() {
		c05PairBase = map[int]mon.Snap{}
		for j := FamilyStart; j < FamilyEnd; j++ {
			if o := W.Objs[j].Reparse(); o != nil {
				if rs, pv, _ := o.Lint(g); pv == nil && rs != nil {
					c05PairBase[j] = mon.SnapOf(rs)
				}
			}
		}
	})
	a, b := FamilyStart+k/n, FamilyStart+k%n
	oa, ob := W.Objs[a].Reparse(), W.Objs[b].Reparse()
	base, ok := c05PairBase[b]
	if oa == nil || ob == nil || !ok {
		return
	}
	day := today()
	_, _, _ = oa.Lint(g)
	rs, pv, _ := ob.Lint(g)
	c.R.Count("evaluations", 2)
	c.R.Count("two_step_histories", 1)
	if pv != nil || rs == nil {
		return
	}
	for _, d := range dropClock(day, mon.Diff(base, mon.SnapOf(rs), false, false)) {
		name := strings.SplitN(d, ":", 2)[0]
		c.V("history-dependent|"+name, fmt.Sprintf("lint %s on %s gives a different result right after linting %s than on its own: %s", name, ob.Name, oa.Name, clipS(d, 300)), name, map[string][]byte{"first": oa.DER, "then": ob.DER}, nil)
	}
}

// ---- first in its process vs. after its relatives ----
//
// An in-process comparison cannot see state that is filled by the FIRST relative and never reset (a memo keyed by a
// folded / normalised form of a name, a table built from the first object): every later run of the subject, and the
// baseline it is compared with, already sit behind that first relative. The only uncontaminated baseline is a process
// in which the subject is the first thing linted. Family: the generated-pool family (one certificate per GeneralName
// pool entry in three templates - among them names that differ only in case, Unicode form or encoding - AIA hosts,
// adversarial DNs, name-constraint payloads). In-history side: a worker lints ALL members once (worker-specific
// order), then records each member's result digest. Fresh side (Finish, c05Fresh): every member alone in a process of
// its own (`-only`; no warm-up there). The digests must be equal.

func c05SingleBase(c *mon.Ctx) int {
	return len(W.Objs) + c.Pick(12000, 400000) + directedCount(c)/c.Pick(6, 1) + c05PairCases(c) + c05LongCases + c05CfgCases(c) + c05CfgGenCases(c)
}

func c05SingleCases(c *mon.Ctx) int {
	if c.Thorough() {
		return genPoolSize()
	}
	return len(gen.GNPool) * 3 // the GeneralName part
}

var c05SingleWarm sync.Once

func c05Single(c *mon.Ctx, i, k int) {
	g := lint.GlobalRegistry()
	if c.Only < 0 {
		c05SingleWarm.Do(func() {
			n := c05SingleCases(c)
			for j := 0; j < n; j++ {
				if o, _ := genPoolCase((j*7919 + c.Shard*131) % n); o != nil {
					_, _, _ = o.Lint(g)
					c.R.Count("evaluations", 1)
				}
				c.Tick()
			}
		})
	}
	o, _ := genPoolCase(k)
	if o == nil {
		return
	}
	rs, pv, _ := o.Lint(g)
	c.R.Count("evaluations", 1)
	if pv != nil || rs == nil {
		return
	}
	c.R.Count("pool_members_digested", 1)
	c.R.Distinct("digest", fmt.Sprintf("%d=%s", i, mon.SnapDigest(stripClock(mon.SnapOf(rs)))))
}

// ---- the key usage x extended key usage lattice, completely, with repetitions ----
//
// Verdicts assembled from per-purpose tables (maps) are the classic place for iteration-order dependence; whether a
// cell is affected depends on the exact bit set and purpose list, and the unstable outcome may be rare (1 run in 10).
// Every cell is linted 10 times (fresh parses) through a registry filtered to the certificate lints of the RFC 5280
// source (the whole registry at thorough); status and details must not vary.

func c05LatticeCases(c *mon.Ctx) int { return kuekuSize() }

var (
	c05LatticeReg  lint.Registry
	c05LatticeOnce sync.Once
)

func c05Lattice(c *mon.Ctx, k int) {
	c05LatticeOnce.Do(func() {
		c05LatticeReg = lint.GlobalRegistry()
		if !c.Thorough() {
			if r, err := lint.GlobalRegistry().Filter(lint.FilterOptions{IncludeSources: lint.SourceList{lint.RFC5280}}); err == nil {
				c05LatticeReg = r
			}
		}
	})
	o, how := kuekuCase(k)
	if o == nil {
		return
	}
	rs, pv, _ := o.Lint(c05LatticeReg)
	c.R.Count("evaluations", 1)
	if pv != nil || rs == nil {
		return
	}
	first := mon.SnapOf(rs)
	for rep := 0; rep < 9; rep++ {
		t := o.Reparse()
		if t == nil {
			t = o
		}
		rs2, pv2, _ := t.Lint(c05LatticeReg)
		c.R.Count("evaluations", 1)
		if pv2 != nil || rs2 == nil {
			continue
		}
		c.R.Count("lattice_repetitions_compared", 1)
		for _, d := range c05FirstDiff(first, mon.SnapOf(rs2)) {
			name := strings.SplitN(d, ":", 2)[0]
			c.V("repeat|"+name, fmt.Sprintf("repeat: same object, registry and configuration, different result: %s (input gen/kueku-lattice: %s)", clipS(d, 300), how), name, inputs(o), nil)
		}
	}
}

// ---- long repetitions: behaviour that depends on how often something was called ----

const c05LongCases = 32

// c05Long lints one object a few thousand times in a row (same parse and fresh parses alternating) and
// requires every result to equal the first: a counter, a cache that fills up, an "every Nth call" path.
func c05Long(c *mon.Ctx, k int) {
	g := lint.GlobalRegistry()
	o := W.Objs[(k*131+int(uint64(c.Seed)%97))%len(W.Objs)]
	if k%4 == 3 {
		o = W.Objs[FamilyStart+(k*7)%(FamilyEnd-FamilyStart)]
	}
	rs, pv, _ := o.Lint(g)
	if pv != nil || rs == nil {
		return
	}
	first := mon.SnapOf(rs)
	day := today()
	n := c.Pick(1500, 20000)
	for r := 0; r < n; r++ {
		t := o
		if r%3 == 2 {
			if t = o.Reparse(); t == nil {
				continue
			}
		}
		rs, pv, _ := t.Lint(g)
		c.R.Count("evaluations", 1)
		if pv != nil || rs == nil {
			c.V("panic-after-repetition", fmt.Sprintf("linting %s panicked at repetition %d: %v", o.Name, r, pv), "", inputs(o), nil)
			return
		}
		if d := dropClock(day, mon.Diff(first, mon.SnapOf(rs), false, false)); len(d) > 0 {
			name := strings.SplitN(d[0], ":", 2)[0]
			c.V("call-count-dependent|"+name, fmt.Sprintf("repetition %d of linting the same object differs from the first: %s (input %s)", r+2, clipS(d[0], 300), o.Name), name, inputs(o), nil)
			return
		}
		if r%200 == 0 {
			c.Tick()
		}
	}
	c.R.Count("long_repetition_runs", 1)
}

// ---- configuration-switching histories ----
//
// "Same object, same registry, same configuration => same result, whatever was linted before" includes runs of
// the SAME object under OTHER configurations before. One registry is switched through the documents below in
// every order (24 permutations, each walked twice); every (object, document) result is compared with the first
// result this process saw for that pair - and, because the permutations start with different documents, a verdict
// remembered from a run under another configuration shows whichever direction it leaks in. Every third history
// uses a freshly filtered registry per step instead of switching one.

var c05CfgDocs = []cfgDoc{
	{"none", ""},
	{"low", "[e_rsa_fermat_factorization]\nRounds = 0\n[e_crl_next_update_invalid]\nSubscriberCRL = true\n[e_subj_contains_html_entities]\nSkip = false\n[e_subj_orgunit_in_ca_cert]\nCrossCert = false\n"},
	{"high", "[e_rsa_fermat_factorization]\nRounds = 1000\n[e_crl_next_update_invalid]\nSubscriberCRL = false\n[e_subj_contains_html_entities]\nSkip = true\n[e_subj_orgunit_in_ca_cert]\nCrossCert = true\n"},
	{"mid", "[e_rsa_fermat_factorization]\nRounds = 10\n"},
}

var (
	c05CfgObjs  []*mon.Obj
	c05CfgOnce  sync.Once
	c05CfgFirst = map[string]mon.Snap{}
	c05CfgMu    sync.Mutex
)

func c05CfgBuild(c *mon.Ctx) {
	c05CfgOnce.Do(func() {
		c11BuildObjs(c)
		for _, o := range c11Objs {
			if strings.HasPrefix(o.Name, "gen/cfg/") {
				c05CfgObjs = append(c05CfgObjs, o)
			}
		}
		// close-prime keys whose Fermat index lies between the Rounds values of the documents
		for k := 0; k < 14; k++ { // the generator draws the index from {0, 1, 2, 3, 50, 99, 100, 101, 150, 999, 1000, 1001, 5000}
			idx := k
			p, q := fermatPair(int64(2100+k), []int{2, 7, 12, 0, 5, 3, 8, 13, 1, 6, 11, 4, 9, 14}[k])
			if p.Cmp(q) == 0 {
				continue
			}
			sp := gen.TLSLeaf(gen.D(2024, 3, 1), "www.example.com")
			sp.SPKI = gen.RSASPKI(new(big.Int).Mul(p, q), big.NewInt(65537))
			if o, _ := mon.ParseObj(corpus.Cert, fmt.Sprintf("gen/cfghist/fermat-%d", idx), sp.DER()); o != nil {
				c05CfgObjs = append(c05CfgObjs, o)
			}
		}
		for _, i := range W.ByKind[corpus.CRL] {
			c05CfgObjs = append(c05CfgObjs, W.Objs[i])
		}
		for _, o := range W.Objs {
			if o.Kind == corpus.Cert && (strings.Contains(o.Name, "ermat") || strings.Contains(o.Name, "html") || strings.Contains(o.Name, "Html") || strings.Contains(o.Name, "orgunit") || strings.Contains(o.Name, "OrgUnit")) {
				c05CfgObjs = append(c05CfgObjs, o)
			}
		}
	})
}

func c05CfgCases(c *mon.Ctx) int { return 24 * c.Pick(2, 8) }

func permOf(n, idx int) []int {
	items := make([]int, n)
	for i := range items {
		items[i] = i
	}
	var out []int
	for i := n; i > 0; i-- {
		f := 1
		for j := 2; j < i; j++ {
			f *= j
		}
		k := (idx / f) % i
		idx %= f
		out = append(out, items[k])
		items = append(items[:k], items[k+1:]...)
	}
	return out
}

func c05CfgHistory(c *mon.Ctx, k int) {
	c05CfgBuild(c)
	order := permOf(len(c05CfgDocs), k%24)
	fresh := (k/24)%3 == 2
	shared, _ := lint.GlobalRegistry().Filter(lint.FilterOptions{NameFilter: regexpAll})
	day := today()
	for round := 0; round < 2; round++ {
		for _, di := range order {
			d := c05CfgDocs[di]
			reg := shared
			if fresh {
				reg, _ = lint.GlobalRegistry().Filter(lint.FilterOptions{ExcludeNames: []string{someCertLint()}})
			}
			reg.SetConfiguration(mustConfig(d.Text))
			for oi, o0 := range c05CfgObjs {
				o := o0
				if (oi+round)%2 == 1 {
					if o = o0.Reparse(); o == nil {
						continue
					}
				}
				rs, pv, _ := o.Lint(reg)
				c.R.Count("evaluations", 1)
				if pv != nil || rs == nil {
					continue
				}
				s := mon.SnapOf(rs)
				if fresh { // the two registries select different lints; compare what both ran
					delete(s, someCertLint())
				}
				key := o0.Name + "|" + d.Label
				c05CfgMu.Lock()
				first, ok := c05CfgFirst[key]
				if !ok {
					c05CfgFirst[key] = s
				}
				c05CfgMu.Unlock()
				c.R.Count("configuration_history_steps", 1)
				if !ok {
					continue
				}
				ref := mon.Snap{}
				for n, v := range first {
					if n != someCertLint() {
						ref[n] = v
					}
				}
				cmp := mon.Snap{}
				for n, v := range s {
					if n != someCertLint() {
						cmp[n] = v
					}
				}
				for _, df := range dropClock(day, mon.Diff(ref, cmp, false, false)) {
					name := strings.SplitN(df, ":", 2)[0]
					c.V("configuration-history|"+name, fmt.Sprintf("lint %s on %s under configuration %q gives a different result than the first time this process linted it under that configuration - in between it was linted under other configurations (order %v, round %d): %s", name, o0.Name, d.Label, order, round, clipS(df, 300)), name, inputs(o0), map[string]any{"configuration": d.Text})
				}
			}
		}
	}
}

// ---- generated configuration histories ----
//
// The four hand-written documents above know the options shipped today. This part takes every Configurable lint of
// the live registry with C11's generated documents (fields by reflection): ONE registry filtered to that lint is walked
// through all its valid-TOML documents in a seeded order, twice, over the objects of the lint's kind; every (object,
// document) result must equal the first one this process saw for that pair - whatever configuration the registry
// carried in between.

func c05CfgGenCases(c *mon.Ctx) int { return len(c11Lints) * c.Pick(1, 3) }

func c05CfgGenHistory(c *mon.Ctx, k int) {
	if len(c11Lints) == 0 {
		return
	}
	li := k % len(c11Lints)
	cl := c11Lints[li]
	var docs []cfgWorkCase
	for _, cs := range cfgWork {
		if cs.lint == li {
			docs = append(docs, cs)
		}
	}
	rng := c.Rng(-51, k)
	rng.Shuffle(len(docs), func(a, b int) { docs[a], docs[b] = docs[b], docs[a] })
	reg, err := lint.GlobalRegistry().Filter(lint.FilterOptions{IncludeNames: []string{cl.info.Name}})
	if err != nil {
		return
	}
	objs := cfgWorkObjs(c)[cl.info.Kind]
	first := map[string]mon.SD{}
	day := today()
	c.R.Distinct("generated_configuration_history_lints", cl.info.Name)
	for round := 0; round < 2; round++ {
		for di, cs := range docs {
			cfg, err := lint.NewConfigFromString(cs.doc)
			if err != nil {
				continue
			}
			reg.SetConfiguration(cfg)
			for oi, o0 := range objs {
				o := o0
				if (oi+round+di)%3 == 1 {
					if o = o0.Reparse(); o == nil {
						continue
					}
				}
				rs, pv, _ := o.Lint(reg)
				c.R.Count("evaluations", 1)
				if pv != nil || rs == nil {
					continue
				}
				sd, ok := mon.SnapOf(rs)[cl.info.Name]
				if !ok {
					continue
				}
				key := fmt.Sprintf("%d|%d", oi, di)
				f, seen := first[key]
				if !seen {
					first[key] = sd
					continue
				}
				c.R.Count("generated_configuration_history_steps", 1)
				if f != sd && !(c05ClockLints[cl.info.Name] && today() != day) {
					c.V("configuration-history|"+cl.info.Name, fmt.Sprintf("lint %s on %s under %s gives %s %q, the first time this process linted it under that configuration it gave %s %q - in between the registry carried other configurations", cl.info.Name, o0.Name, cs.desc, lint.LintStatus(sd.Status), clipS(sd.Details, 80), lint.LintStatus(f.Status), clipS(f.Details, 80)), cl.info.Name, inputs(o0), map[string]any{"configuration": cs.doc})
				}
			}
		}
	}
}
