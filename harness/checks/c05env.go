package checks

import (
	"context"
	"encoding/json"
	"fmt"
	"os"
	"os/exec"
	"path/filepath"
	"sort"
	"strconv"
	"strings"
	"time"

	"github.com/zmap/zlint/v3/lint"

	"verif/corpus"
	"verif/mon"
)

// ---- environment variation ----
//
// "The result is a function of object, registry and configuration alone": the same fixed object list is linted in
// fresh processes started under DIFFERENT ENVIRONMENTS - process time zone (TZ: UTC, a zone with daylight saving
// west of Greenwich, +14:00, a half-hour zone), locale variables, HOME, working directory, proxy and certificate-file
// variables, unrelated ZLINT_* variables - and every per-object result digest must equal the one obtained under
// TZ=UTC. The I/O phase observes ACCESSES (and the process zone is read by the Go runtime, once, outside any lint,
// so it is invisible there); this part observes DEPENDENCE, whatever the access path was. The two lints the
// property exempts are left out of the digests.

type envSpec struct {
	label string
	env   []string
	dir   string
}

var c05Envs = []envSpec{
	{"TZ=UTC", []string{"TZ=UTC"}, ""},
	{"TZ=America/New_York", []string{"TZ=America/New_York"}, ""},
	{"TZ=Pacific/Kiritimati", []string{"TZ=Pacific/Kiritimati"}, ""},
	{"TZ=Asia/Kolkata, Turkish locale, no HOME, cwd /", []string{"TZ=Asia/Kolkata", "LANG=tr_TR.UTF-8", "LC_ALL=tr_TR.UTF-8", "LANGUAGE=tr", "HOME=/nonexistent"}, "/"},
	{"TZ=Europe/London, proxy / cert-file / ZLINT_ variables", []string{"TZ=Europe/London", "http_proxy=http://127.0.0.1:9", "HTTPS_PROXY=http://127.0.0.1:9", "SSL_CERT_FILE=/nonexistent", "SSL_CERT_DIR=/nonexistent", "ZLINT_CONFIG=/nonexistent", "ZLINT_DEBUG=1", "TMPDIR=/nonexistent"}, ""},
}

func c05EnvObjects(c *mon.Ctx) []*mon.Obj {
	objs := append([]*mon.Obj{}, W.Objs...)
	dC, tail := directedCount(c), directedSmallTail(c)
	for k := 0; k < dC; k++ {
		if k < dC-tail && !directedSampled(c, k, c.Pick(41, 11)) {
			continue
		}
		if o, _ := directedCase(c, k); o != nil {
			objs = append(objs, o)
		}
	}
	return objs
}

// c05EnvAux runs in the varied environment: lints the object list under the global registry and under a configured,
// filtered one, and writes one digest line per object.
func c05EnvAux(c *mon.Ctx) {
	if err := setupCommon(c); err != nil {
		fmt.Fprintln(os.Stderr, err)
		os.Exit(2)
	}
	g := lint.GlobalRegistry()
	cfgd, _ := g.Filter(lint.FilterOptions{NameFilter: regexpAll})
	cfgd.SetConfiguration(mustConfig("[e_crl_next_update_invalid]\nSubscriberCRL = false\n[e_rsa_fermat_factorization]\nRounds = 7\n[e_subj_orgunit_in_ca_cert]\nCrossCert = true\n"))
	only := -1
	if s := os.Getenv("VERIF_ENV_ONLY"); s != "" {
		only, _ = strconv.Atoi(s)
	}
	objs := c05EnvObjects(c)
	out := map[string]string{}
	for i, o := range objs {
		if only >= 0 && i != only {
			continue
		}
		var parts []mon.Snap
		for _, reg := range []lint.Registry{g, cfgd} {
			if reg == cfgd && o.Kind == corpus.Cert && i%5 != 0 {
				continue
			}
			fo := o.Reparse()
			if fo == nil {
				continue
			}
			rs, pv, _ := fo.Lint(reg)
			if pv != nil || rs == nil {
				continue
			}
			parts = append(parts, stripClock(mon.SnapOf(rs)))
		}
		d := ""
		for _, p := range parts {
			d += mon.SnapDigest(p) + "/"
		}
		out[strconv.Itoa(i)] = d
		if only >= 0 {
			full := map[string]string{}
			for pi, p := range parts {
				for n, sd := range p {
					full[fmt.Sprintf("%d:%s", pi, n)] = fmt.Sprintf("%s %q", lint.LintStatus(sd.Status), sd.Details)
				}
			}
			b, _ := json.Marshal(full)
			out["full"] = string(b)
		}
	}
	out["zone"] = time.Now().Location().String() + " " + time.Date(2024, 7, 1, 12, 0, 0, 0, time.Local).Format("-0700")
	out["objects"] = strconv.Itoa(len(objs))
	b, _ := json.Marshal(out)
	if p := os.Getenv("VERIF_ENV_OUT"); p != "" {
		_ = os.WriteFile(p, b, 0o644)
	}
}

func c05RunEnv(c *mon.Ctx, e envSpec, tag string, only int) (map[string]string, error) {
	exe, err := os.Executable()
	if err != nil {
		return nil, err
	}
	outFile := filepath.Join(c.Work, "env."+tag+".json")
	ctx, cancel := context.WithTimeout(context.Background(), 30*time.Minute)
	defer cancel()
	cmd := exec.CommandContext(ctx, exe, c.Prop, c.Tier, "-aux", "env", "-work", c.Work)
	var env []string
	for _, kv := range os.Environ() { // the variables under test are replaced, everything else is inherited
		k := strings.SplitN(kv, "=", 2)[0]
		drop := k == "TZ" || k == "VERIF_ENV_ONLY" || k == "VERIF_ENV_OUT"
		for _, x := range e.env {
			if strings.HasPrefix(x, k+"=") {
				drop = true
			}
		}
		if !drop {
			env = append(env, kv)
		}
	}
	env = append(env, e.env...)
	env = append(env, "VERIF_ENV_OUT="+outFile)
	if only >= 0 {
		env = append(env, "VERIF_ENV_ONLY="+strconv.Itoa(only))
	}
	cmd.Env = env
	cmd.Dir = e.dir
	if b, err := cmd.CombinedOutput(); err != nil {
		return nil, fmt.Errorf("%v: %s", err, clipS(string(b), 300))
	}
	b, err := os.ReadFile(outFile)
	if err != nil {
		return nil, err
	}
	m := map[string]string{}
	if err := json.Unmarshal(b, &m); err != nil {
		return nil, err
	}
	return m, nil
}

// c05EnvPhase (driver side): one child per environment, digests compared with the TZ=UTC child's.
func c05EnvPhase(c *mon.Ctx, r *mon.Report, ev *mon.Evidence) []string {
	type res struct {
		m   map[string]string
		err error
	}
	results := make([]res, len(c05Envs))
	done := make(chan int, len(c05Envs))
	for i := range c05Envs {
		go func(i int) {
			m, err := c05RunEnv(c, c05Envs[i], strconv.Itoa(i), -1)
			results[i] = res{m, err}
			done <- i
		}(i)
	}
	for range c05Envs {
		<-done
	}
	var gates []string
	base := results[0]
	if base.err != nil {
		return []string{"environment phase: the reference child (TZ=UTC) failed: " + base.err.Error()}
	}
	zones := map[string]string{}
	compared := 0
	for i, e := range c05Envs {
		rr := results[i]
		if rr.err != nil {
			gates = append(gates, "environment phase: child under "+e.label+" failed: "+rr.err.Error())
			continue
		}
		zones[e.label] = rr.m["zone"]
		if i == 0 {
			continue
		}
		if rr.m["objects"] != base.m["objects"] {
			gates = append(gates, "environment phase: children built different object lists (harness problem)")
			continue
		}
		var diff []int
		for k, v := range base.m {
			if k == "zone" || k == "objects" {
				continue
			}
			compared++
			if rr.m[k] != v {
				n, _ := strconv.Atoi(k)
				diff = append(diff, n)
			}
		}
		sort.Ints(diff)
		for di, idx := range diff {
			if di >= 5 {
				break
			}
			// name the lints: re-run both environments on that object alone with full output
			a, errA := c05RunEnv(c, c05Envs[0], "0.only", idx)
			b, errB := c05RunEnv(c, e, strconv.Itoa(i)+".only", idx)
			what := fmt.Sprintf("object #%d", idx)
			lints := "?"
			if errA == nil && errB == nil {
				fa, fb := map[string]string{}, map[string]string{}
				_ = json.Unmarshal([]byte(a["full"]), &fa)
				_ = json.Unmarshal([]byte(b["full"]), &fb)
				var names []string
				for n, v := range fa {
					if fb[n] != v {
						names = append(names, fmt.Sprintf("%s: %s vs %s", n, clipS(v, 80), clipS(fb[n], 80)))
					}
				}
				sort.Strings(names)
				if len(names) > 0 {
					lints = strings.Join(names[:min(3, len(names))], "; ")
					what += " " + strings.SplitN(strings.SplitN(names[0], ":", 3)[1], ":", 2)[0]
				}
			}
			key := "environment-dependent"
			if f := strings.Fields(lints); len(f) > 0 && strings.Contains(f[0], ":") {
				key += "|" + strings.TrimSuffix(strings.SplitN(f[0], ":", 2)[1], ":")
			}
			r.Violate(mon.Violation{Property: c.Prop, Key: c.Prop + "|" + key, What: fmt.Sprintf("the same object, registry and configuration give different results in a process started under %s than under TZ=UTC (%s; %d objects differ): %s", e.label, what, len(diff), lints), Tier: c.Tier, Seed: c.Seed, Case: -4})
		}
	}
	ev.Coverage["environments_compared"] = zones
	ev.Coverage["environment_object_comparisons"] = compared
	distinctZones := map[string]bool{}
	for _, z := range zones {
		distinctZones[z] = true
	}
	if len(distinctZones) < 3 {
		gates = append(gates, fmt.Sprintf("environment phase: the children did not run in different time zones (%v): zone data missing?", zones))
	}
	if compared < 1000 {
		gates = append(gates, "environment phase compared too few objects")
	}
	return gates
}
