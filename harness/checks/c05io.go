package checks

import (
	"bufio"
	"context"
	"fmt"
	"os"
	"os/exec"
	"path/filepath"
	"regexp"
	"runtime"
	"sort"
	"strings"
	"sync"
	"sync/atomic"
	"time"

	"github.com/zmap/zlint/v3/lint"

	"verif/mon"
)

// ---- C05 I/O phase -------------------------------------------------------
//
// `vcheck.shim C05 <tier> -aux io` (built with the std overlay) preloads every
// input, then between two marker writes lints everything (a) through Lint*Ex
// from 8 goroutines and (b) lint by lint through the direct reference, while
// hooks in time.Now / syscall.Getenv / Environ attribute every hit. The whole
// process runs under `strace -f`; the driver classifies every syscall of
// every thread between the markers.

const (
	ioBegin = "VERIF_PHASE_BEGIN"
	ioEnd   = "VERIF_PHASE_END"
)

const zlintMod = "github.com/zmap/zlint/v3"

var ioEntryPoints = map[string]bool{
	zlintMod + ".LintCertificateEx": true, zlintMod + ".LintRevocationListEx": true, zlintMod + ".LintOcspResponseEx": true,
}

// innermostZlint returns the innermost frame inside the zlint module.
func innermostZlint(skip int) string {
	pc := make([]uintptr, 64)
	n := runtime.Callers(skip, pc)
	fr := runtime.CallersFrames(pc[:n])
	for {
		f, more := fr.Next()
		if strings.HasPrefix(f.Function, zlintMod+".") || strings.HasPrefix(f.Function, zlintMod+"/") {
			return f.Function
		}
		if !more {
			return ""
		}
	}
}

func c05IOAux(c *mon.Ctx) {
	if !shimBuilt {
		fmt.Fprintln(os.Stderr, "io phase needs the overlay build")
		os.Exit(2)
	}
	if err := setupCommon(c); err != nil {
		fmt.Fprintln(os.Stderr, err)
		os.Exit(2)
	}
	g := lint.GlobalRegistry()
	// preload: seeds + accepted mutants + positional members, all parsed before the phase starts
	objs := append([]*mon.Obj{}, W.Objs...)
	nMut := c.Pick(4000, 60000)
	var st mon.MutStats
	for i := 0; i < nMut*3 && len(objs) < len(W.Objs)+nMut; i++ {
		if o, _ := W.Mutant(c.Rng(i, 9), &st); o != nil {
			objs = append(objs, o)
		}
	}
	nDir := directedCount(c)
	tail := directedSmallTail(c) // SAN-sibling, generated-pool, extension-shape and CRL-shape families: complete; positional and DN-text: 1 in 17
	for k := 0; k < nDir; k++ {
		if k < nDir-tail && !directedSampled(c, k, 17) {
			continue
		}
		if o, _ := directedCase(c, k); o != nil {
			objs = append(objs, o)
		}
	}
	// hostile configurations: values that LOOK like resources (paths, URLs) under key names a layered / included /
	// remote configuration would use, at the top level, in the higher-scoped tables and in every configurable lint's
	// own table. Built and installed BEFORE the phase; if anything in the lint path follows them, the kernel sees it.
	resKeys := []string{"extends", "extend", "include", "includes", "import", "imports", "base", "parent", "inherit", "file", "files", "path", "dir", "url", "uri", "source", "config", "configuration", "load", "from", "ref", "template", "overlay", "defaults", "schema", "plugin", "exec", "command", "script", "env", "proxy", "cache", "log", "output"}
	resVals := []string{"/verif-no-such-dir/base.toml", "../../verif-no-such.toml", "verif-no-such-relative.toml", "http://127.0.0.1:9/verif.toml", "https://verif-no-such-host.invalid/c.toml", "file:///verif-no-such", "/etc/hostname", "/dev/null", "$HOME/.zlint.toml", "~/.zlint.toml"}
	resTable := func() string {
		t := ""
		for i, k := range resKeys {
			t += fmt.Sprintf("%s = %q\n", k, resVals[i%len(resVals)])
		}
		return t
	}
	docTop := resTable() + "[Global]\n" + resTable() + "[CABFBaselineRequirementsConfig]\n" + resTable()
	docAll := docTop
	for _, li := range Inv {
		if li.Config {
			docAll += "[" + li.Name + "]\n" + resTable()
		}
	}
	var hostile []lint.Registry
	for _, d := range []string{docTop, docAll} {
		if cfgH, err := lint.NewConfigFromString(d); err == nil {
			if r, err := g.Filter(lint.FilterOptions{NameFilter: regexpAll}); err == nil {
				r.SetConfiguration(cfgH)
				hostile = append(hostile, r)
			}
		}
	}
	c11BuildObjs(c)
	_ = time.Now().Local().String() // force time.Local (reads TZ / zoneinfo) before the phase
	_, _, _ = objs[0].Lint(g)       // first-use initialisation of lazily built tables
	cfg := g.GetConfiguration()

	var phase atomic.Int32 // 0 = outside, 1 = full runs, 2 = direct runs
	var curLint atomic.Value
	curLint.Store("")
	var mu sync.Mutex
	rec := func(kind, who string) {
		mu.Lock()
		c.R.Distinct(kind, who)
		mu.Unlock()
	}
	shimInstall(func() {
		p := phase.Load()
		if p == 0 {
			return
		}
		fn := innermostZlint(3)
		if fn == "" {
			rec("clock_nonzlint_callers", "harness/runtime")
			return
		}
		rec("clock_callers", fn)
		if p == 1 {
			// full runs: framework-level clock reads other than the documented timestamp
			if !ioEntryPoints[fn] && !strings.HasPrefix(fn, zlintMod+"/lints/") && !strings.HasPrefix(fn, zlintMod+"/util.") {
				rec("clock_violation", "framework:"+fn)
			}
			return
		}
		l := curLint.Load().(string)
		rec("clock_lints", l)
		if !c05ClockLints[l] {
			rec("clock_violation", "lint:"+l+" via "+fn)
		}
	}, func(op, key string) {
		if phase.Load() == 0 {
			return
		}
		fn := innermostZlint(3)
		if fn == "" {
			rec("env_nonzlint", op+":"+key)
			return
		}
		l, _ := curLint.Load().(string)
		rec("env_violation", fmt.Sprintf("%s(%s) from %s (lint %q)", op, key, fn, l))
	})

	os.Stdout.WriteString(ioBegin + "\n")
	phase.Store(1)
	var wg sync.WaitGroup
	var next atomic.Int64
	var evals atomic.Int64
	for gi := 0; gi < 8; gi++ {
		wg.Add(1)
		go func() {
			defer wg.Done()
			for {
				i := int(next.Add(1)) - 1
				if i >= len(objs) {
					return
				}
				o := objs[i].Reparse()
				if o == nil {
					continue
				}
				o.Lint(g)
				evals.Add(1)
			}
		}()
	}
	wg.Wait()
	// the same entry points under the hostile configurations (objects on which the configurable lints decide)
	hostileRuns := 0
	for _, r := range hostile {
		for i, o := range append(append([]*mon.Obj{}, c11Objs...), objs[:min(len(objs), 400)]...) {
			if i >= len(c11Objs) && i%4 != 0 {
				continue
			}
			if fo := o.Reparse(); fo != nil {
				fo.Lint(r)
				hostileRuns++
			}
		}
	}
	c.R.Count("io_runs_under_resource_looking_configuration", int64(hostileRuns))
	phase.Store(2)
	direct := 0
	for i, o := range objs {
		if i%3 != 0 && i >= len(W.Objs) {
			continue
		}
		phase.Store(1)
		rs, pv, _ := o.Lint(g)
		phase.Store(2)
		if pv != nil || rs == nil {
			continue
		}
		for _, li := range Inv {
			if li.Kind != o.Kind {
				continue
			}
			if r := rs.Results[li.Name]; r == nil || r.Status == lint.NA {
				continue
			}
			curLint.Store(li.Name)
			mon.RunDirect(li, o, cfg)
			direct++
		}
		curLint.Store("")
	}
	phase.Store(0)
	os.Stdout.WriteString(ioEnd + "\n")
	c.R.Count("io_full_runs", evals.Load())
	c.R.Count("io_direct_runs", int64(direct))
	c.R.Count("io_objects", int64(len(objs)))
}

var (
	reSyscall = regexp.MustCompile(`^(\d+)\s+(?:<\.\.\. )?([a-z0-9_]+)`)
	reResumed = regexp.MustCompile(`^(\d+)\s+<\.\.\. ([a-z0-9_]+) resumed>`)
)

var ioRuntimeInternal = map[string]bool{
	"futex": true, "nanosleep": true, "sched_yield": true, "tgkill": true, "getpid": true, "rt_sigreturn": true,
	"epoll_pwait": true, "epoll_wait": true, "mmap": true, "munmap": true, "mprotect": true, "madvise": true, "brk": true,
	"rt_sigprocmask": true, "sigaltstack": true, "set_robust_list": true, "rseq": true, "gettid": true,
	"clock_gettime": true, "clock_nanosleep": true, "getrandom": false, "exit": true, "restart_syscall": true, "membarrier": true,
	"sched_getaffinity": true, "prctl": false, "arch_prctl": true, "timer_settime": true, "timer_create": true, "timer_delete": true, "setitimer": true,
}

var ioForbidden = map[string]bool{}

func init() {
	for _, s := range strings.Fields(`open openat openat2 creat stat lstat fstat newfstatat statx access faccessat faccessat2 readlink readlinkat
		getdents getdents64 chdir fchdir mkdir mkdirat rmdir unlink unlinkat rename renameat renameat2 link linkat symlink symlinkat chmod fchmod fchmodat chown fchown truncate ftruncate
		socket socketpair connect bind listen accept accept4 sendto recvfrom sendmsg recvmsg sendmmsg recvmmsg shutdown getsockname getpeername setsockopt getsockopt
		execve execveat fork vfork kill ptrace wait4 waitid pipe pipe2 dup dup2 dup3
		read write pread64 pwrite64 readv writev preadv pwritev sendfile splice ioctl fcntl inotify_init inotify_init1 inotify_add_watch
		setenv getcwd uname sysinfo getrandom prctl`) {
		ioForbidden[s] = true
	}
}

// c05IOPhase builds nothing itself: bin/check exported VERIF_SHIM_BIN.
func c05IOPhase(c *mon.Ctx, r *mon.Report, ev *mon.Evidence) []string {
	shim := os.Getenv("VERIF_SHIM_BIN")
	if shim == "" {
		return []string{"VERIF_SHIM_BIN not set: the overlay flavour was not built, I/O phase not run"}
	}
	trace := filepath.Join(c.Work, "io.strace")
	out := filepath.Join(c.Work, "io.json")
	ctx, cancel := context.WithTimeout(context.Background(), 40*time.Minute)
	defer cancel()
	cmd := exec.CommandContext(ctx, "strace", "-f", "-qq", "-s", "64", "-o", trace, shim, c.Prop, c.Tier, "-aux", "io", "-out", out, "-work", c.Work)
	cmd.Env = append(os.Environ(), "GOMAXPROCS=8")
	b, err := cmd.CombinedOutput()
	if err != nil {
		return []string{fmt.Sprintf("I/O phase process failed: %v: %s", err, clipS(string(b), 400))}
	}
	rep, err := mon.ReadReport(out)
	if err != nil {
		return []string{"I/O phase wrote no report: " + err.Error()}
	}
	for _, k := range []string{"io_full_runs", "io_direct_runs", "io_objects", "io_runs_under_resource_looking_configuration"} {
		r.Counters[k] += rep.Counters[k]
	}
	var gates []string
	// in-process hooks
	keys := func(set string) []string {
		var out []string
		for k := range rep.Sets[set] {
			out = append(out, k)
		}
		sort.Strings(out)
		return out
	}
	ev.Coverage["clock_callers"] = keys("clock_callers")
	ev.Coverage["clock_lints"] = keys("clock_lints")
	ev.Coverage["env_hits_outside_zlint"] = keys("env_nonzlint")
	for _, v := range keys("clock_violation") {
		r.Violate(mon.Violation{Property: c.Prop, Key: c.Prop + "|clock|" + v, What: "wall clock read during linting outside the documented places (result timestamp, the two exempt AIA lints): " + v, Tier: c.Tier, Seed: c.Seed, Case: -3})
	}
	for _, v := range keys("env_violation") {
		r.Violate(mon.Violation{Property: c.Prop, Key: c.Prop + "|env|" + v, What: "environment access during linting: " + v, Tier: c.Tier, Seed: c.Seed, Case: -3})
	}
	if len(rep.Sets["clock_callers"]) == 0 {
		gates = append(gates, "clock hook never fired (not even for the result timestamp): overlay not effective")
	}
	// kernel side
	f, err := os.Open(trace)
	if err != nil {
		return append(gates, "no strace output: "+err.Error())
	}
	defer f.Close()
	sc := bufio.NewScanner(f)
	sc.Buffer(make([]byte, 1<<20), 1<<20)
	in := false
	seenBegin, seenEnd := false, false
	eventfds := map[string]bool{} // descriptors the Go runtime created for its own wake-ups (netpollBreak)
	reEventfd := regexp.MustCompile(`eventfd2?\b.*\)\s+=\s+(\d+)\s*$`)
	reFdArg := regexp.MustCompile(`^\d+\s+(?:read|write)\((\d+),`)
	counts := map[string]int{}
	unknown := map[string]int{}
	total := 0
	for sc.Scan() {
		line := sc.Text()
		if strings.Contains(line, ioBegin) && strings.Contains(line, "write(1") {
			in, seenBegin = true, true
			continue
		}
		if strings.Contains(line, ioEnd) && strings.Contains(line, "write(1") {
			in, seenEnd = false, true
			continue
		}
		if m := reEventfd.FindStringSubmatch(line); m != nil {
			eventfds[m[1]] = true
		}
		if !in {
			continue
		}
		if reResumed.MatchString(line) { // second half of a split line: already counted at the call
			continue
		}
		m := reSyscall.FindStringSubmatch(line)
		if m == nil {
			continue // signal deliveries ("--- SIGURG ..."), exits
		}
		name := m[2]
		total++
		counts[name]++
		switch {
		case name == "clone" || name == "clone3":
			if !strings.Contains(line, "CLONE_THREAD") {
				r.Violate(mon.Violation{Property: c.Prop, Key: c.Prop + "|syscall|process-creation", What: "process created during the lint phase: " + clipS(line, 200), Tier: c.Tier, Seed: c.Seed, Case: -3})
			}
		case (name == "read" || name == "write") && func() bool { m := reFdArg.FindStringSubmatch(line); return m != nil && eventfds[m[1]] }():
			counts[name+"(runtime eventfd)"]++
		case ioForbidden[name]:
			r.Violate(mon.Violation{Property: c.Prop, Key: c.Prop + "|syscall|" + name, What: "file-system / network / process / descriptor syscall during the lint phase: " + clipS(line, 200), Tier: c.Tier, Seed: c.Seed, Case: -3})
		case ioRuntimeInternal[name]:
		default:
			unknown[name]++
		}
	}
	ev.Coverage["syscalls_seen_in_lint_phase"] = counts
	ev.Coverage["syscalls_unclassified"] = unknown
	ev.Coverage["syscalls_total_in_lint_phase"] = total
	if !seenBegin || !seenEnd {
		gates = append(gates, "phase markers not found in the strace output")
	}
	if total == 0 {
		gates = append(gates, "no syscall observed between the markers (strace not effective)")
	}
	if rep.Counters["io_full_runs"] < 1000 {
		gates = append(gates, "I/O phase linted too few objects")
	}
	return gates
}
