package checks

import (
	"fmt"
	"strings"

	"github.com/zmap/zlint/v3/lint"

	"verif/mon"
)

// C06 - severity matches the lint's name.

var c06Mut mon.MutStats

func c06Observe(c *mon.Ctx, o *mon.Obj, s mon.Snap, desc string) {
	for name, sd := range s {
		st := lint.LintStatus(sd.Status)
		if st >= lint.Pass {
			c.R.Distinct("lint_status_pairs", name+"="+st.String())
		}
		if st == lint.Notice || st == lint.Warn || st == lint.Error {
			c.R.Distinct("lints_with_finding", name)
		}
		if p := mon.SeverityProblem(name, st); p != "" {
			c.V(fmt.Sprintf("%s|%s", name, p),
				fmt.Sprintf("lint %s reported %s (details %q) on %s", name, st, clipS(sd.Details, 100), desc), name, inputs(o), nil)
		}
	}
}

func init() {
	var nSeeds int
	mon.Register(&mon.Check{
		ID:          "C06",
		Rule:        "evaluations = Lint*Ex calls whose every (lint name, status) pair was judged against the prefix contract; distinct_nontrivial = distinct (lint, status) pairs with status >= pass observed (the measure of how many return paths were actually seen). Workload: corpus, generated seeds, hostile mutants, objects re-dated to every lint's effective / ineffective instant -1s/0/+1s (severity chosen from the date), directed families (AIA with unparseable URLs, code-signing key-usage lattice, CRL reason codes/duplicate serials, QC language variants, SCT lattices, signature-algorithm lattice, EKU combinations).",
		Assumptions: []string{"a return path that no generated input reaches is not judged; evidence lists the lints that never produced a finding"},
		Setup: func(c *mon.Ctx) error {
			if err := setupCommon(c); err != nil {
				return err
			}
			nSeeds = len(W.Objs)
			cfgWorkBuild(c)
			c03Build(c) // the boundary campaign of C03: objects dated exactly at every lint's effective / ineffective instant
			return nil
		},
		Once: func(c *mon.Ctx) {
			// every name carries exactly one of the three prefixes (all kinds)
			for _, li := range Inv {
				n := 0
				for _, p := range []string{"e_", "w_", "n_"} {
					if strings.HasPrefix(li.Name, p) {
						n++
					}
				}
				if n != 1 {
					c.V("prefix|"+li.Name, "lint name "+li.Name+" does not carry exactly one of e_/w_/n_", li.Name, nil, nil)
				}
				c.R.Count("names_checked", 1)
			}
			// "every lint name": also names a lint answers to WITHOUT being listed under them. Whatever Filter accepts
			// as an include name puts a lint into a registry; if a listed rule can be selected under another severity
			// prefix (an alias, a former name), the results it produces there are keyed by - and judged under - that
			// name. Objects: those on which the listed lint shows each of its verdicts.
			g := lint.GlobalRegistry()
			for _, li := range Inv {
				for _, p := range []string{"e_", "w_", "n_"} {
					if strings.HasPrefix(li.Name, p) || len(li.Name) < 3 {
						continue
					}
					alias := p + li.Name[2:]
					if _, taken := InvBy[alias]; taken {
						continue
					}
					reg, err := g.Filter(lint.FilterOptions{IncludeNames: []string{alias}})
					c.R.Count("alias_names_tried", 1)
					if err != nil || reg == nil {
						continue
					}
					c.R.Count("alias_names_accepted", 1)
					for _, idx := range c03ByStat[li.Name] {
						o := W.Objs[idx]
						rs, pv, _ := o.Lint(reg)
						c.R.Count("evaluations", 1)
						if pv != nil || rs == nil {
							continue
						}
						c06Observe(c, o, mon.SnapOf(rs), o.Name+"~registry selected by the unlisted name "+alias)
					}
				}
			}
		},
		Cases: func(c *mon.Ctx) int { return nSeeds + c.Pick(40000, 2000000) + directedCount(c) + len(c03Cases) + len(cfgWork) },
		RunCase: func(c *mon.Ctx, i int) {
			nMut := nSeeds + c.Pick(40000, 2000000)
			var o *mon.Obj
			var desc string
			if nc := nMut + directedCount(c) + len(c03Cases); i >= nc {
				// configuration-dependent return paths
				cfgWorkRun(c, i-nc, func(o *mon.Obj, reg lint.Registry, desc string) {
					rs, pv, _ := o.Lint(reg)
					c.R.Count("evaluations", 1)
					c.R.Count("configured_evaluations", 1)
					if pv != nil {
						c.R.CrossObs("C01:panic-at-caller")
						return
					}
					c06Observe(c, o, mon.SnapOf(rs), o.Name+"~"+desc)
				})
				return
			}
			if nb := nMut + directedCount(c); i >= nb {
				cs := c03Cases[i-nb]
				var base *mon.Obj
				o, base = c03Object(cs)
				if o == nil {
					return
				}
				o.Name = base.Name
				desc = fmt.Sprintf("re-dated to %s of %s", cs.label, Inv[cs.lint].Name)
				c.R.Count("boundary_dated_objects", 1)
			} else if i >= nMut {
				o, desc = directedCase(c, i-nMut)
				if o == nil {
					return
				}
				c.R.Count("directed_accepted", 1)
			} else {
				o, desc, _ = unionCase(c, i, &c06Mut)
				if o == nil {
					return
				}
			}
			rs, pv, _ := o.Lint(lint.GlobalRegistry())
			c.R.Count("evaluations", 1)
			if pv != nil {
				c.R.CrossObs("C01:panic-at-caller")
				return
			}
			s := mon.SnapOf(rs)
			c06Observe(c, o, s, o.Name+"~"+desc)
			observeCross(c, "C06", s)
			if i%15013 == 0 {
				c.R.Sample(8, map[string]any{"kind": o.Kind.String(), "input": o.Name, "edits": desc, "statuses": statusSetKey(s)})
			}
		},
		Finish: func(c *mon.Ctx, r *mon.Report, ev *mon.Evidence) []string {
			gates := mutGate(r, 1000)
			ev.Coverage["distinct_nontrivial"] = r.SetSize("lint_status_pairs")
			with := map[string]bool{}
			for _, k := range r.SetKeys("lints_with_finding") {
				with[k] = true
			}
			var never []string
			for _, li := range Inv {
				if !with[li.Name] {
					never = append(never, li.Name)
				}
			}
			ev.Coverage["lints_with_finding_observed"] = len(with)
			ev.Coverage["lints_registered"] = len(Inv)
			ev.Coverage["configured_lints"] = r.SetKeys("configured_lints")
			ev.Coverage["configured_documents"] = r.Counters["configured_documents"]
			ev.Coverage["configured_evaluations"] = r.Counters["configured_evaluations"]
			if r.Counters["configured_evaluations"] == 0 {
				gates = append(gates, "no configured run observed")
			}
			ev.Coverage["lints_never_reporting_a_finding"] = never
			if r.Counters["names_checked"] != int64(len(Inv)) {
				gates = append(gates, "prefix census did not run over the whole registry")
			}
			if len(with)*10 < len(Inv)*7 {
				gates = append(gates, fmt.Sprintf("only %d of %d lints ever reported a finding", len(with), len(Inv)))
			}
			return gates
		},
	})
}
