package checks

import (
	"fmt"
	zlint "github.com/zmap/zlint/v3"
	"regexp"
	"strings"
	"time"

	"github.com/zmap/zlint/v3/lint"

	"verif/corpus"
	"verif/mon"
)

// C07 - a lint's verdict does not depend on which other lints run.

var (
	c07Mut     mon.MutStats
	c07Single  map[string]lint.Registry
	c07Filters []struct {
		reg   lint.Registry
		label string
	}
)

func today() string { return time.Now().UTC().Format("2006-01-02") }

// dropClock removes differences that only concern the two clock-reading
// lints when the UTC date changed between the compared runs.
func dropClock(day string, diffs []string) []string {
	if today() == day {
		return diffs
	}
	var out []string
	for _, d := range diffs {
		if !c05ClockLints[strings.SplitN(d, ":", 2)[0]] {
			out = append(out, d)
		}
	}
	return out
}

func c07Setup(c *mon.Ctx) error {
	if err := setupCommon(c); err != nil {
		return err
	}
	g := lint.GlobalRegistry()
	c07Single = map[string]lint.Registry{}
	for _, li := range Inv {
		r, err := g.Filter(lint.FilterOptions{IncludeNames: []string{li.Name}})
		if err != nil {
			return err
		}
		c07Single[li.Name] = r
	}
	rng := c.Rng(-9, 0)
	c07Filters = nil
	for len(c07Filters) < c.Pick(8, 24) {
		o := randFilter(rng, false)
		if o.Empty() {
			continue
		}
		r, err := g.Filter(o)
		if err != nil || len(r.Names()) == 0 {
			continue
		}
		c07Filters = append(c07Filters, struct {
			reg   lint.Registry
			label string
		}{r, describeFilter(o)})
	}
	return nil
}

func c07Compare(c *mon.Ctx, orig *mon.Obj, full mon.Snap, fullRS flags, reg lint.Registry, label, desc, day string) {
	// every compared run gets its own fresh parse: a lint that modifies the parsed object would otherwise
	// leave the same modification behind for both sides of the comparison
	o := orig.Reparse()
	if o == nil {
		return
	}
	rs, pv, _ := o.Lint(reg)
	c.R.Count("evaluations", 1)
	if pv != nil || rs == nil {
		c.R.CrossObs("C01:panic-at-caller")
		return
	}
	part := mon.SnapOf(rs)
	// selected lints of the object's kind, computed from the registry (not from the result)
	want := map[string]bool{}
	for _, li := range mon.Inventory(reg) {
		if li.Kind == o.Kind {
			want[li.Name] = true
		}
	}
	for n := range part {
		if !want[n] {
			c.V("unselected-result|"+n, fmt.Sprintf("filtered run (%s) returned a result for unselected lint %s", label, n), n, inputs(o), nil)
		}
	}
	restr := mon.Snap{}
	for n := range want {
		if v, ok := full[n]; ok {
			restr[n] = v
		}
	}
	for _, d := range dropClock(day, mon.Diff(restr, part, false, false)) {
		name := strings.SplitN(d, ":", 2)[0]
		c.V("differs|"+name, fmt.Sprintf("lint %s: full registry vs filtered registry (%s) differ: %s (input %s~%s)", name, label, clipS(d, 300), o.Name, desc), name, inputs(o), map[string]any{"filter": label})
	}
	f := flags{rs.NoticesPresent, rs.WarningsPresent, rs.ErrorsPresent, rs.FatalsPresent}
	if f.n && !fullRS.n || f.w && !fullRS.w || f.e && !fullRS.e || f.f && !fullRS.f {
		c.V("flag-not-in-full-run", fmt.Sprintf("filtered run (%s) raised presence flags %+v that the full run did not raise %+v", label, f, fullRS), "", inputs(o), nil)
	}
	c.R.Count("comparisons", int64(len(want)))
}

type flags struct{ n, w, e, f bool }

func init() {
	var nSeeds int
	mon.Register(&mon.Check{
		ID:          "C07",
		Solo:        c07Solo,
		Rule:        "evaluations = Lint*Ex calls; for each object the full-registry run is compared, lint by lint (status and details), with runs under filtered registries - every lint ALONE (one single-lint registry per lint of the object's kind) and seeded multi-lint filters (name-sorted execution order vs registration order) - plus 'no result for unselected lints' and 'flags of the filtered run are a subset of the full run's'. distinct_nontrivial (de-duplicated by a hash of the DER bytes within each worker process) = distinct objects with >= 1 lint beyond NA that went through the comparison.",
		Assumptions: []string{"a UTC date change between two compared runs may move only the two clock-reading AIA lints; such differences are dropped"},
		Setup: func(c *mon.Ctx) error {
			if err := c07Setup(c); err != nil {
				return err
			}
			nSeeds = len(W.Objs)
			return nil
		},
		Cases: func(c *mon.Ctx) int { return nSeeds + c.Pick(20000, 400000) + c07Directed(c) },
		RunCase: func(c *mon.Ctx, i int) {
			var o *mon.Obj
			var desc string
			var isSeed, smallFam bool
			if nU := nSeeds + c.Pick(20000, 400000); i >= nU {
				// directed families: the small ones completely (and every lint alone on each of their members), a
				// hashed sample of the big ones
				k := directedPick(c, i-nU)
				if k < 0 {
					return
				}
				smallFam = i-nU < directedSmallTail(c)
				o, desc = directedCase(c, k)
				if o != nil {
					c.R.Count("directed_objects", 1)
				}
			} else {
				o, desc, isSeed = unionCase(c, i, &c07Mut)
			}
			if o == nil {
				return
			}
			day := today()
			g := lint.GlobalRegistry()
			if isSeed && i%5 == 2 && o.Kind == corpus.Cert {
				// an object a CALLER assembled or copied rather than took straight from the parser: the extension index
				// the parser builds is missing (every run - full, alone, filtered - gets its own such object)
				o = &mon.Obj{Kind: o.Kind, Name: o.Name, DER: o.DER, Post: func(x *mon.Obj) {
					if x.Cert != nil {
						x.Cert.ExtensionsMap = nil
					}
				}}
				desc += " (extension index dropped by the caller)"
				c.R.Count("caller_assembled_objects", 1)
			}
			if fo := o.Reparse(); fo != nil {
				o = fo
			} else if o.Cert == nil && o.CRL == nil && o.OCSP == nil {
				return
			}
			rs, pv, _ := o.Lint(g)
			c.R.Count("evaluations", 1)
			if pv != nil || rs == nil {
				c.R.CrossObs("C01:panic-at-caller")
				return
			}
			full := mon.SnapOf(rs)
			ff := flags{rs.NoticesPresent, rs.WarningsPresent, rs.ErrorsPresent, rs.FatalsPresent}
			if i%3 == 0 { // the entry points without a registry argument, and a nil registry, are the global registry
				if fo := o.Reparse(); fo != nil {
					if rd, pvd, _ := fo.LintDefault(); pvd == nil && rd != nil {
						for _, d := range dropClock(day, mon.Diff(full, mon.SnapOf(rd), false, false)) {
							name := strings.SplitN(d, ":", 2)[0]
							c.V("default-entry-point-differs|"+name, "Lint<Kind>(obj) differs from Lint<Kind>Ex(obj, global registry): "+clipS(d, 240), name, inputs(o), nil)
						}
						c.R.Count("default_entry_point_runs", 1)
					}
				}
			}
			rng := c.Rng(i, 3)
			// every lint alone (seeds, and every 8th mutant); otherwise a random 48 singletons
			all := isSeed || smallFam || i%8 == 0 || c.Thorough() && i%2 == 0
			for _, li := range Inv {
				if li.Kind != o.Kind {
					continue
				}
				if !all && rng.Intn(8) != 0 {
					continue
				}
				c07Compare(c, o, full, ff, c07Single[li.Name], "only "+li.Name, desc, day)
				c.R.Distinct("lints_run_alone", li.Name)
			}
			// filters made on the spot: the registry is built, then a sibling selection is filtered from the same
			// source (and dropped), and only then is the first registry used
			for k := 0; k < 2; k++ {
				fo := randFilter(rng, false)
				if fo.Empty() {
					continue
				}
				fr, err := g.Filter(fo)
				if err != nil || len(fr.Names()) == 0 {
					continue
				}
				_, _ = g.Filter(c08Sibling(rng, fo))
				c07Compare(c, o, full, ff, fr, "fresh "+describeFilter(fo), desc, day)
				c.R.Count("fresh_filter_runs", 1)
			}
			nf := 3
			if isSeed {
				nf = len(c07Filters)
			}
			for k := 0; k < nf; k++ {
				f := c07Filters[(i+k)%len(c07Filters)]
				c07Compare(c, o, full, ff, f.reg, f.label, desc, day)
			}
			if nontrivial(full) {
				c.CountDistinct(o.DER)
			}
			if i%1501 == 0 {
				c.R.Sample(6, map[string]any{"kind": o.Kind.String(), "input": o.Name, "edits": desc, "statuses": statusSetKey(full), "filters": nf})
			}
		},
		Finish: func(c *mon.Ctx, r *mon.Report, ev *mon.Evidence) []string {
			gates := mutGate(r, 300)
			ev.Coverage["lints_run_alone"] = r.SetSize("lints_run_alone")
			ev.Coverage["configured_source_comparisons"] = r.Counters["configured_source_comparisons"]
			ev.Coverage["configured_lint_judged"] = r.SetSize("configured_lint_judged")
			if r.Counters["configured_source_comparisons"] < 500 || r.SetSize("configured_lint_judged") < 8 {
				gates = append(gates, fmt.Sprintf("configured-source scenario observed too little: %d comparisons, %d (document, configurable lint) pairs judged", r.Counters["configured_source_comparisons"], r.SetSize("configured_lint_judged")))
			}
			ev.Coverage["lints_registered"] = len(Inv)
			ev.Coverage["lint_level_comparisons"] = r.Counters["comparisons"]
			if r.SetSize("lints_run_alone") < len(Inv) {
				gates = append(gates, fmt.Sprintf("only %d of %d lints were run alone", r.SetSize("lints_run_alone"), len(Inv)))
			}
			return gates
		},
	})
}

var _ = corpus.Cert

// c07Solo (own process): after the registry has been used, lints of every kind are registered through the public
// API; a filter that selects them must then run them, with the verdict the full registry gives.
func c07Solo(c *mon.Ctx) {
	c07Configured(c)
	g := lint.GlobalRegistry()
	objs := map[corpus.Kind]*mon.Obj{}
	for _, k := range []corpus.Kind{corpus.Cert, corpus.CRL, corpus.OCSP} {
		if idxs := W.ByKind[k]; len(idxs) > 0 {
			objs[k] = W.Objs[idxs[0]]
			_, _, _ = objs[k].Lint(g) // first use
		}
	}
	_, _ = g.Filter(lint.FilterOptions{IncludeSources: lint.SourceList{lint.Community}})
	type added struct {
		name string
		kind corpus.Kind
		src  lint.LintSource
	}
	var adds []added
	m := func(n string, s lint.LintSource) lint.LintMetadata {
		return lint.LintMetadata{Name: n, Description: "verif addition", Citation: "verif", Source: s}
	}
	// one registration at a time, checks after EACH (a later registration of another kind may repair what an
	// earlier one left stale), two waves, the OCSP kind both first and last
	type step struct {
		a   added
		reg func()
	}
	var steps []step
	for wave := 0; wave < 2; wave++ {
		sfx := fmt.Sprint(wave)
		oc := step{added{"e_verif_c07_ocsp" + sfx, corpus.OCSP, lint.RFC8813}, func() {
			lint.RegisterOcspResponseLint(&lint.OcspResponseLint{LintMetadata: m("e_verif_c07_ocsp"+sfx, lint.RFC8813), Lint: func() lint.OcspResponseLintInterface { return c01POCSP{c01P{st: lint.Error}} }})
		}}
		cr := step{added{"w_verif_c07_crl" + sfx, corpus.CRL, lint.RFC8813}, func() {
			lint.RegisterRevocationListLint(&lint.RevocationListLint{LintMetadata: m("w_verif_c07_crl"+sfx, lint.RFC8813), Lint: func() lint.RevocationListLintInterface { return c01PCRL{c01P{st: lint.Warn}} }})
		}}
		ce := step{added{"n_verif_c07_cert" + sfx, corpus.Cert, lint.RFC8813}, func() {
			lint.RegisterCertificateLint(&lint.CertificateLint{LintMetadata: m("n_verif_c07_cert"+sfx, lint.RFC8813), Lint: func() lint.CertificateLintInterface { return c01PCert{c01P{st: lint.Notice}} }})
		}}
		if wave == 0 {
			steps = append(steps, oc, cr, ce)
		} else {
			steps = append(steps, ce, cr, oc)
		}
	}
	for wave, st := range steps {
		st.reg()
		adds = append(adds, st.a)
		for _, a := range adds {
			o := objs[a.kind]
			if o == nil {
				continue
			}
			full, pv, _ := o.Lint(g)
			if pv != nil || full == nil {
				continue
			}
			fr := full.Results[a.name]
			if fr == nil {
				c.V("added-lint-not-run|full", fmt.Sprintf("lint %s was registered (wave %d) but the full registry gives no result for it", a.name, wave), a.name, inputs(o), nil)
				continue
			}
			// "the full registry" is also what a nil registry argument and the entry points without a registry
			// argument mean: they must run the added lint too, with the same verdict
			for how, run := range map[string]func() (*zlint.ResultSet, any, string){
				"nil registry argument": func() (*zlint.ResultSet, any, string) { return o.Lint(nil) },
				"no registry argument":  func() (*zlint.ResultSet, any, string) { return o.LintDefault() },
			} {
				rs2, pv2, _ := run()
				c.R.Count("evaluations", 1)
				if pv2 != nil || rs2 == nil {
					continue
				}
				if r2 := rs2.Results[a.name]; r2 == nil {
					c.V("added-lint-not-run|"+how, fmt.Sprintf("lint %s was registered (wave %d); the run with the global registry named explicitly has a result for it, the run with %s has none", a.name, wave, how), a.name, inputs(o), nil)
				} else if r2.Status != fr.Status || r2.Details != fr.Details {
					c.V("differs|"+a.name, fmt.Sprintf("added lint %s: global registry %s, %s %s", a.name, fr.Status, how, r2.Status), a.name, inputs(o), nil)
				}
			}
			for label, opts := range map[string]lint.FilterOptions{
				"include name":   {IncludeNames: []string{a.name}},
				"name pattern":   {NameFilter: regexp.MustCompile("^" + a.name + "$")},
				"include source": {IncludeSources: lint.SourceList{a.src}},
				"exclude source": {ExcludeSources: lint.SourceList{lint.CABFBaselineRequirements}},
				"exclude name":   {ExcludeNames: []string{someCertLint()}},
			} {
				reg, err := g.Filter(opts)
				c.R.Count("evaluations", 1)
				c.R.Count("addition_filter_runs", 1)
				if err != nil {
					c.V("added-lint-not-selectable|"+label, fmt.Sprintf("filter (%s) selecting the added lint %s fails: %v", label, a.name, err), a.name, nil, nil)
					continue
				}
				rs, pv, _ := o.Lint(reg)
				if pv != nil || rs == nil {
					continue
				}
				r := rs.Results[a.name]
				if r == nil {
					c.V("selected-lint-not-run|"+label, fmt.Sprintf("filter (%s) selects the added lint %s but the filtered run has no result for it (the full run reports %s)", label, a.name, fr.Status), a.name, inputs(o), nil)
				} else if r.Status != fr.Status || r.Details != fr.Details {
					c.V("differs|"+a.name, fmt.Sprintf("added lint %s: full registry %s, filtered (%s) %s", a.name, fr.Status, label, r.Status), a.name, inputs(o), nil)
				}
			}
		}
	}
}

// c07Configured (own process, before the additions): the property quantifies over configurations too. The SOURCE
// registry is given a configuration that flips verdicts of the configurable lints; registries filtered from it
// afterwards (each configurable lint alone, by source, by pattern, random selections, a filter of a filter) must
// give every selected lint the verdict of the full, configured run.
func c07Configured(c *mon.Ctx) {
	g := lint.GlobalRegistry()
	c11BuildObjs(c)
	objs := c11Objs
	if len(objs) > 60 {
		objs = objs[:60]
	}
	def, _ := g.DefaultConfiguration()
	docs := []cfgDoc{
		{"options-A", "[e_rsa_fermat_factorization]\nRounds = 1000\n[e_subj_contains_html_entities]\nSkip = true\n[e_subj_orgunit_in_ca_cert]\nCrossCert = true\n[e_crl_next_update_invalid]\nSubscriberCRL = false\n"},
		{"options-B", "[e_rsa_fermat_factorization]\nRounds = 0\n[e_crl_next_update_invalid]\nSubscriberCRL = true\n"},
		{"inapplicable", "e_rsa_fermat_factorization = 7\n[e_crl_next_update_invalid]\nSubscriberCRL = \"x\"\n[e_subj_orgunit_in_ca_cert]\nCrossCert = 3\n"},
		{"default", string(def)},
		{"empty", ""},
	}
	var cfgNames []string
	for _, li := range Inv {
		if li.Config {
			cfgNames = append(cfgNames, li.Name)
		}
	}
	rng := c.Rng(-77, 0)
	day := today()
	for _, d := range docs {
		cfg, err := lint.NewConfigFromString(d.Text)
		if err != nil {
			continue
		}
		g.SetConfiguration(cfg)
		type fr struct {
			reg   lint.Registry
			label string
		}
		var regs []fr
		add := func(label string, o lint.FilterOptions) {
			if r, err := g.Filter(o); err == nil && len(r.Names()) > 0 {
				regs = append(regs, fr{r, "configured(" + d.Label + ") " + label})
				if sub, err := r.Filter(lint.FilterOptions{ExcludeNames: []string{someCertLint()}}); err == nil {
					regs = append(regs, fr{sub, "configured(" + d.Label + ") filter of " + label})
				}
			}
		}
		for _, n := range cfgNames {
			add("only "+n, lint.FilterOptions{IncludeNames: []string{n}})
			add("source of "+n, lint.FilterOptions{IncludeSources: lint.SourceList{InvBy[n].Meta.Source}})
		}
		add("all by pattern", lint.FilterOptions{NameFilter: regexpAll})
		add("exclude one name", lint.FilterOptions{ExcludeNames: []string{someCertLint()}})
		for k := 0; k < 6; k++ {
			if fo := randFilter(rng, false); !fo.Empty() {
				add("random "+describeFilter(fo), fo)
			}
		}
		for _, o0 := range objs {
			o := o0.Reparse()
			if o == nil {
				continue
			}
			rs, pv, _ := o.Lint(g)
			c.R.Count("evaluations", 1)
			if pv != nil || rs == nil {
				continue
			}
			full := mon.SnapOf(rs)
			ff := flags{rs.NoticesPresent, rs.WarningsPresent, rs.ErrorsPresent, rs.FatalsPresent}
			for _, r := range regs {
				c07Compare(c, o, full, ff, r.reg, r.label, "configured source registry", day)
				c.R.Count("configured_source_comparisons", 1)
			}
			for _, n := range cfgNames {
				if v, ok := full[n]; ok && v.Status > int(lint.NE) {
					c.R.Distinct("configured_lint_judged", d.Label+"|"+n)
				}
			}
		}
	}
	g.SetConfiguration(lint.NewEmptyConfig())
}

func c07Directed(c *mon.Ctx) int {
	return directedSmallTail(c) + (directedCount(c)-directedSmallTail(c))/c.Pick(40, 4)
}
