package checks

import (
	"fmt"
	"math/rand"
	"reflect"
	"regexp"
	"sort"
	"strings"

	"github.com/zmap/zlint/v3/lint"

	"verif/corpus"
	"verif/mon"
)

// C08 - filtering selects exactly the documented set.

type regSnapshot struct {
	names   []string
	sources []string
	ptrs    map[string]uintptr
	cfg     lint.Configuration
}

func snapshotReg(r lint.Registry) regSnapshot {
	s := regSnapshot{ptrs: map[string]uintptr{}, cfg: r.GetConfiguration()}
	s.names = append(s.names, r.Names()...)
	for _, x := range r.Sources() {
		s.sources = append(s.sources, string(x))
	}
	sort.Strings(s.sources)
	for _, n := range s.names {
		if l := r.CertificateLints().ByName(n); l != nil {
			s.ptrs["cert:"+n] = reflect.ValueOf(l).Pointer()
		}
		if l := r.RevocationListLints().ByName(n); l != nil {
			s.ptrs["crl:"+n] = reflect.ValueOf(l).Pointer()
		}
		if l := r.OcspResponseLints().ByName(n); l != nil {
			s.ptrs["ocsp:"+n] = reflect.ValueOf(l).Pointer()
		}
	}
	return s
}

func (a regSnapshot) equal(b regSnapshot) bool {
	return reflect.DeepEqual(a.names, b.names) && reflect.DeepEqual(a.sources, b.sources) && reflect.DeepEqual(a.ptrs, b.ptrs) && reflect.DeepEqual(a.cfg, b.cfg)
}

// c08Model is the reference: which names does o select from inv, or is it an error?
func c08Model(inv []mon.LintInfo, o lint.FilterOptions) (sel map[string]bool, wantErr string) {
	known := map[string]bool{}
	for _, li := range inv {
		known[li.Name] = true
	}
	trim := func(l []string) (map[string]bool, string) {
		if len(l) == 0 {
			return nil, ""
		}
		m := map[string]bool{}
		for _, n := range l {
			t := strings.TrimSpace(n)
			if !known[t] {
				return nil, "unknown name " + fmt.Sprintf("%q", n)
			}
			m[t] = true
		}
		return m, ""
	}
	exc, e1 := trim(o.ExcludeNames)
	inc, e2 := trim(o.IncludeNames)
	if e1 != "" {
		return nil, e1
	}
	if e2 != "" {
		return nil, e2
	}
	if o.NameFilter != nil && (len(exc) > 0 || len(inc) > 0) {
		return nil, "pattern together with name lists"
	}
	srcIn := func(l lint.SourceList, s lint.LintSource) bool {
		for _, x := range l {
			if x == s {
				return true
			}
		}
		return false
	}
	sel = map[string]bool{}
	for _, li := range inv {
		switch {
		case srcIn(o.ExcludeSources, li.Meta.Source):
		case len(o.IncludeSources) > 0 && !srcIn(o.IncludeSources, li.Meta.Source):
		case o.NameFilter != nil && !o.NameFilter.MatchString(li.Name):
		case exc != nil && exc[li.Name]:
		case inc != nil && !inc[li.Name]:
		default:
			sel[li.Name] = true
		}
	}
	return sel, ""
}

// c08Judge filters src by o and checks the outcome against the model.
func c08Judge(c *mon.Ctx, src lint.Registry, srcInv []mon.LintInfo, srcLabel string, o lint.FilterOptions) lint.Registry {
	before := snapshotReg(src)
	var got lint.Registry
	var err error
	var pv any
	func() {
		defer func() { pv = recover() }()
		got, err = src.Filter(o)
	}()
	c.R.Count("evaluations", 1)
	desc := srcLabel + " / " + describeFilter(o)
	extra := map[string]any{"options": desc}
	if pv != nil {
		c.V("filter-panics", fmt.Sprintf("Filter panicked: %v (%s)", pv, desc), "", nil, extra)
		return nil
	}
	if !before.equal(snapshotReg(src)) {
		c.V("source-registry-changed", "Filter changed the registry it was called on ("+desc+")", "", nil, extra)
	}
	if o.Empty() {
		c.R.Distinct("outcomes", "identity")
		if err != nil || got != src {
			c.V("empty-options", "empty FilterOptions must return the registry itself without error ("+desc+")", "", nil, extra)
		}
		return got
	}
	sel, wantErr := c08Model(srcInv, o)
	if wantErr != "" {
		c.R.Distinct("outcomes", "error:"+strings.SplitN(wantErr, " ", 2)[0])
		if err == nil {
			c.V("missing-error|"+strings.SplitN(wantErr, " ", 2)[0], fmt.Sprintf("Filter accepted options that must be rejected (%s): %s", wantErr, desc), "", nil, extra)
		}
		return nil
	}
	if err != nil {
		c.V("unexpected-error", fmt.Sprintf("Filter rejected valid options: %v (%s)", err, desc), "", nil, extra)
		return nil
	}
	if got == nil {
		c.V("nil-registry", "Filter returned nil registry without error ("+desc+")", "", nil, extra)
		return nil
	}
	var want []string
	for n := range sel {
		want = append(want, n)
	}
	sort.Strings(want)
	c.R.Distinct("selected_sets", fmt.Sprintf("%d:%s", len(want), mon.HexPrefix([]byte(strings.Join(want, ",")), 0)+hashStrings(want)))
	c.R.Distinct("outcomes", "ok")
	names := got.Names()
	if !reflect.DeepEqual(append([]string{}, names...), want) && !(len(names) == 0 && len(want) == 0) {
		miss, extraN := diffNames(want, names)
		c.V("wrong-selection", fmt.Sprintf("Filter selected the wrong set: missing %v, unexpected %v (%s)", clip(miss, 5), clip(extraN, 5), desc), "", nil, extra)
		return got
	}
	// the per-kind listings hold exactly the selected lints (Names() alone would not show a wrong Lints() slice)
	inListing := map[string]int{}
	for _, l := range got.CertificateLints().Lints() {
		inListing[l.Name]++
	}
	for _, l := range got.RevocationListLints().Lints() {
		inListing[l.Name]++
	}
	for _, l := range got.OcspResponseLints().Lints() {
		inListing[l.Name]++
	}
	for n, k := range inListing {
		if !sel[n] || k != 1 {
			c.V("lints-listing-content", fmt.Sprintf("Lints() of the filtered registry lists %s %d time(s) although selected=%v (%s)", n, k, sel[n], desc), n, nil, extra)
			break
		}
	}
	// kind, metadata, identity of each selected lint; nothing else reachable
	byName := map[string]mon.LintInfo{}
	for _, li := range srcInv {
		byName[li.Name] = li
	}
	kinds := map[corpus.Kind]int{}
	wantSources := map[string]bool{}
	for _, n := range want {
		li := byName[n]
		kinds[li.Kind]++
		wantSources[string(li.Meta.Source)] = true
		cl, rl, ol := got.CertificateLints().ByName(n), got.RevocationListLints().ByName(n), got.OcspResponseLints().ByName(n)
		ok := false
		switch li.Kind {
		case corpus.Cert:
			ok = cl == li.CertL && rl == nil && ol == nil && cl != nil && cl.LintMetadata == li.Meta
		case corpus.CRL:
			ok = rl == li.CrlL && cl == nil && ol == nil && rl != nil && rl.LintMetadata == li.Meta
		default:
			ok = ol == li.OcspL && cl == nil && rl == nil && ol != nil && ol.LintMetadata == li.Meta
		}
		if !ok {
			c.V("kind-or-metadata|"+li.Kind.String(), fmt.Sprintf("lint %s is not the same %s lint object with the same metadata in the filtered registry (%s)", n, li.Kind, desc), n, nil, extra)
		}
	}
	if n := len(got.CertificateLints().Lints()); n != kinds[corpus.Cert] {
		c.V("lints-listing|cert", fmt.Sprintf("CertificateLints().Lints() has %d entries, want %d (%s)", n, kinds[corpus.Cert], desc), "", nil, extra)
	}
	if n := len(got.RevocationListLints().Lints()); n != kinds[corpus.CRL] {
		c.V("lints-listing|crl", fmt.Sprintf("RevocationListLints().Lints() has %d entries, want %d (%s)", n, kinds[corpus.CRL], desc), "", nil, extra)
	}
	if n := len(got.OcspResponseLints().Lints()); n != kinds[corpus.OCSP] {
		c.V("lints-listing|ocsp", fmt.Sprintf("OcspResponseLints().Lints() has %d entries, want %d (%s)", n, kinds[corpus.OCSP], desc), "", nil, extra)
	}
	// lookup BY SOURCE, per kind, agrees with the selection: the filtered registry "keeps each lint's kind and metadata",
	// so asking it for the lints of a source must give exactly the selected lints of that source and kind (and the
	// deprecated kind-less BySource the certificate ones)
	wantBySrc := map[string]map[string]bool{}
	for _, n := range want {
		li := byName[n]
		k := li.Kind.String() + "|" + string(li.Meta.Source)
		if wantBySrc[k] == nil {
			wantBySrc[k] = map[string]bool{}
		}
		wantBySrc[k][n] = true
	}
	srcSeen := map[lint.LintSource]bool{}
	for _, li := range srcInv {
		srcSeen[li.Meta.Source] = true
	}
	for s := range srcSeen {
		gotBy := map[string]map[string]bool{corpus.Cert.String(): {}, corpus.CRL.String(): {}, corpus.OCSP.String(): {}, "deprecated": {}}
		for _, l := range got.CertificateLints().BySource(s) {
			gotBy[corpus.Cert.String()][l.Name] = true
		}
		for _, l := range got.RevocationListLints().BySource(s) {
			gotBy[corpus.CRL.String()][l.Name] = true
		}
		for _, l := range got.OcspResponseLints().BySource(s) {
			gotBy[corpus.OCSP.String()][l.Name] = true
		}
		for _, l := range got.BySource(s) {
			if l != nil {
				gotBy["deprecated"][l.Name] = true
			}
		}
		for _, k := range []corpus.Kind{corpus.Cert, corpus.CRL, corpus.OCSP} {
			w := wantBySrc[k.String()+"|"+string(s)]
			if g := gotBy[k.String()]; len(g) != len(w) || !subsetOf(g, w) {
				c.V("by-source|"+k.String(), fmt.Sprintf("%s lints of source %s in the filtered registry: BySource gives %d, the selection holds %d (%s)", k, s, len(g), len(w), desc), "", nil, extra)
			}
		}
		if g, w := gotBy["deprecated"], wantBySrc[corpus.Cert.String()+"|"+string(s)]; len(g) != len(w) || !subsetOf(g, w) {
			c.V("by-source|deprecated", fmt.Sprintf("Registry.BySource(%s) of the filtered registry gives %d lints, the selection holds %d certificate lints of that source (%s)", s, len(g), len(w), desc), "", nil, extra)
		}
		c.R.Count("by_source_lookups_compared", 1)
	}
	gotSources := map[string]bool{}
	for _, s := range got.Sources() {
		gotSources[string(s)] = true
	}
	if !reflect.DeepEqual(gotSources, wantSources) && !(len(gotSources) == 0 && len(wantSources) == 0) {
		c.V("sources", fmt.Sprintf("Sources() of the filtered registry = %v, want %v (%s)", keysOf(gotSources), keysOf(wantSources), desc), "", nil, extra)
	}
	if !reflect.DeepEqual(got.GetConfiguration(), src.GetConfiguration()) {
		c.V("configuration-not-inherited", "the filtered registry does not carry the source registry's configuration ("+desc+")", "", nil, extra)
	}
	return got
}

func subsetOf(a, b map[string]bool) bool {
	for k := range a {
		if !b[k] {
			return false
		}
	}
	return true
}

func hashStrings(l []string) string {
	return mon.SnapDigest(func() mon.Snap {
		s := mon.Snap{}
		for _, x := range l {
			s[x] = mon.SD{}
		}
		return s
	}())
}

func keysOf(m map[string]bool) []string {
	var out []string
	for k := range m {
		out = append(out, k)
	}
	sort.Strings(out)
	return out
}

func diffNames(want, got []string) (missing, extra []string) {
	w, g := map[string]bool{}, map[string]bool{}
	for _, n := range want {
		w[n] = true
	}
	for _, n := range got {
		g[n] = true
	}
	for _, n := range want {
		if !g[n] {
			missing = append(missing, n)
		}
	}
	for _, n := range got {
		if !w[n] {
			extra = append(extra, n)
		}
	}
	if len(missing) == 0 && len(extra) == 0 {
		extra = append(extra, "(same set, different order or duplicates)")
	}
	return
}

func init() {
	mon.Register(&mon.Check{
		ID:          "C08",
		Rule:        "evaluations = Filter calls on the real registry (and on previously filtered, configured registries), each judged against a reference model over the inventory (name, source, kind): selected set, error cases (unknown name after trimming, pattern + name lists), identity for empty options, per-kind lookups returning the very same lint objects with equal metadata, Lints() sizes, Sources(), inherited configuration, source registry unchanged (names, sources, object identities, configuration). distinct_nontrivial = distinct selected name sets produced by valid option sets.",
		Assumptions: []string{"option sets are seeded samples: multisets of known/unknown names with stray blanks, nil vs empty slices, all source subsets incl. Unknown and a non-existent source, a pool of regular expressions"},
		Setup:       setupCommon,
		Solo:        c08Solo,
		Once: func(c *mon.Ctx) {
			g := lint.GlobalRegistry()
			// directed: every single name with surrounding blanks, include and exclude; every single source
			for _, li := range Inv {
				for _, form := range []string{li.Name, " " + li.Name, li.Name + "\t\n", "  " + li.Name + "  "} {
					c08Judge(c, g, Inv, "global", lint.FilterOptions{IncludeNames: []string{form}})
					c08Judge(c, g, Inv, "global", lint.FilterOptions{ExcludeNames: []string{form}})
				}
				c08Judge(c, g, Inv, "global", lint.FilterOptions{IncludeNames: []string{strings.ToUpper(li.Name)}})
				c08Judge(c, g, Inv, "global", lint.FilterOptions{ExcludeNames: []string{li.Name + "x"}})
				c.Tick()
			}
			for _, s := range append(allSources(), lint.UnknownLintSource, lint.LintSource("NoSuchSource")) {
				c08Judge(c, g, Inv, "global", lint.FilterOptions{IncludeSources: lint.SourceList{s}})
				c08Judge(c, g, Inv, "global", lint.FilterOptions{ExcludeSources: lint.SourceList{s}})
				c08Judge(c, g, Inv, "global", lint.FilterOptions{IncludeSources: lint.SourceList{s}, ExcludeSources: lint.SourceList{s}})
			}
			c08Judge(c, g, Inv, "global", lint.FilterOptions{})
			c08Judge(c, g, Inv, "global", lint.FilterOptions{IncludeNames: []string{}, ExcludeNames: []string{}})
			c08Judge(c, g, Inv, "global", lint.FilterOptions{NameFilter: regexpAll, IncludeNames: []string{}})
			c08Judge(c, g, Inv, "global", lint.FilterOptions{NameFilter: regexpAll, IncludeNames: []string{Inv[0].Name}})
			c08Judge(c, g, Inv, "global", lint.FilterOptions{NameFilter: regexpAll, ExcludeNames: []string{Inv[0].Name}})
		},
		Cases: func(c *mon.Ctx) int { return c.Pick(12000, 400000) },
		RunCase: func(c *mon.Ctx, i int) {
			rng := c.Rng(i, 0)
			g := lint.GlobalRegistry()
			o := randFilter(rng, i%3 == 0)
			r1 := c08Judge(c, g, Inv, "global", o)
			// a registry obtained earlier must stay what it was, whatever is filtered afterwards: in particular
			// after a "sibling" selection (same options, one list varied) that shares everything but a tail
			if r1 != nil && r1 != g {
				snap := snapshotReg(r1)
				listing := c08Listing(r1)
				for k := 0; k < 2; k++ {
					o2 := c08Sibling(rng, o)
					if r2, err := g.Filter(o2); err == nil && r2 != nil && k == 1 {
						_ = r2.Names()
					}
				}
				c.R.Count("stability_checks", 1)
				if !snap.equal(snapshotReg(r1)) || listing != c08Listing(r1) {
					c.V("earlier-registry-changed", "a registry returned by Filter changed after later Filter calls on its source ("+describeFilter(o)+")", "", nil, map[string]any{"options": describeFilter(o)})
				}
				c08History = append(c08History, c08Kept{r1, snap, listing, describeFilter(o)})
				if len(c08History) > 24 {
					old := c08History[0]
					c08History = c08History[1:]
					if !old.snap.equal(snapshotReg(old.reg)) || old.listing != c08Listing(old.reg) {
						c.V("earlier-registry-changed", "a registry returned by Filter 24 selections ago is no longer what it was ("+old.desc+")", "", nil, map[string]any{"options": old.desc})
					}
				}
			}
			// chained: filter a filtered registry that has its own configuration
			if r1 != nil && r1 != g && i%4 == 0 {
				cfgs := basicConfigs()
				r1, _ = g.Filter(o) // a registry of its own: the ones kept for the stability history are never touched by the harness
				r1.SetConfiguration(mustConfig(cfgs[rng.Intn(len(cfgs))].Text))
				inv1 := mon.Inventory(r1)
				if len(inv1) > 0 {
					o2 := randFilterOver(rng, inv1, i%5 == 0)
					c08Judge(c, r1, inv1, "filtered{"+describeFilter(o)+"}+cfg", o2)
					c.R.Count("chained", 1)
				}
			}
			if i%2003 == 0 {
				c.R.Sample(8, map[string]any{"options": describeFilter(o)})
			}
		},
		Finish: func(c *mon.Ctx, r *mon.Report, ev *mon.Evidence) []string {
			var gates []string
			ev.Coverage["distinct_nontrivial"] = r.SetSize("selected_sets")
			ev.Coverage["outcomes"] = r.Sets["outcomes"]
			for _, k := range []string{"ok", "identity", "error:unknown", "error:pattern"} {
				if r.Sets["outcomes"][k] == 0 {
					gates = append(gates, "outcome class never exercised: "+k)
				}
			}
			ev.Coverage["addition_filter_judgements"] = r.Counters["addition_filter_judgements"]
			if r.Counters["addition_filter_judgements"] < 300 {
				gates = append(gates, "the additions scenario (own process) did not complete")
			}
			if r.Counters["chained"] == 0 {
				gates = append(gates, "no chained filter exercised")
			}
			return gates
		},
	})
}

type c08Kept struct {
	reg     lint.Registry
	snap    regSnapshot
	listing string
	desc    string
}

var c08History []c08Kept

// c08Listing is the per-kind Lints() listing (names in listing order), which Names()/ByName() do not show.
func c08Listing(r lint.Registry) string {
	var b strings.Builder
	for _, l := range r.CertificateLints().Lints() {
		b.WriteString(l.Name + ",")
	}
	b.WriteString("|")
	for _, l := range r.RevocationListLints().Lints() {
		b.WriteString(l.Name + ",")
	}
	b.WriteString("|")
	for _, l := range r.OcspResponseLints().Lints() {
		b.WriteString(l.Name + ",")
	}
	for _, s := range allSources() {
		b.WriteString(fmt.Sprintf("|%s:%d,%d,%d", s, len(r.CertificateLints().BySource(s)), len(r.RevocationListLints().BySource(s)), len(r.OcspResponseLints().BySource(s))))
	}
	return b.String()
}

// c08Sibling varies one list of o: same head, different tail.
func c08Sibling(rng *rand.Rand, o lint.FilterOptions) lint.FilterOptions {
	srcs := allSources()
	n := o
	switch {
	case len(o.IncludeSources) > 0:
		n.IncludeSources = append(lint.SourceList{o.IncludeSources[0]}, srcs[rng.Intn(len(srcs))], srcs[rng.Intn(len(srcs))])
	case len(o.ExcludeSources) > 0:
		n.ExcludeSources = append(lint.SourceList{o.ExcludeSources[0]}, srcs[rng.Intn(len(srcs))])
	case len(o.IncludeNames) > 0:
		n.IncludeNames = append([]string{o.IncludeNames[0]}, Inv[rng.Intn(len(Inv))].Name, Inv[rng.Intn(len(Inv))].Name)
	case len(o.ExcludeNames) > 0:
		n.ExcludeNames = append([]string{o.ExcludeNames[0]}, Inv[rng.Intn(len(Inv))].Name)
	default:
		n.IncludeSources = lint.SourceList{srcs[rng.Intn(len(srcs))], srcs[rng.Intn(len(srcs))]}
	}
	return n
}

// randFilterOver draws options over a sub-inventory (for chained filters).
func randFilterOver(rng interface{ Intn(int) int }, inv []mon.LintInfo, hostile bool) lint.FilterOptions {
	var o lint.FilterOptions
	pick := func(n int) []string {
		var out []string
		for i := 0; i < n; i++ {
			nm := inv[rng.Intn(len(inv))].Name
			if rng.Intn(5) == 0 {
				nm = " " + nm + " "
			}
			out = append(out, nm)
		}
		return out
	}
	switch rng.Intn(5) {
	case 0:
		o.IncludeNames = pick(1 + rng.Intn(4))
	case 1:
		o.ExcludeNames = pick(1 + rng.Intn(4))
	case 2:
		o.IncludeSources = lint.SourceList{inv[rng.Intn(len(inv))].Meta.Source}
	case 3:
		o.ExcludeSources = lint.SourceList{inv[rng.Intn(len(inv))].Meta.Source}
	default:
		o.IncludeNames = pick(2)
		o.ExcludeNames = pick(1)
	}
	if r, ok := rng.(*rand.Rand); ok && len(o.IncludeNames) == 0 && len(o.ExcludeNames) == 0 && r.Intn(2) == 0 {
		o.NameFilter = randPattern(r) // grown from names of the FULL inventory: also matches names this registry does not hold
	}
	if hostile {
		// a name known to the global registry but not to this filtered one must be unknown here
		o.IncludeNames = append(o.IncludeNames, Inv[rng.Intn(len(Inv))].Name)
	}
	return o
}

// c08Solo (own process): the reference model after the registry has GROWN. The registry is used first (names listed,
// selections filtered, objects linted), then lints of every kind are registered through the public API one at a time
// (OCSP first and last); after each registration the inventory the model works on is the start-up inventory plus
// what the harness itself registered - never re-read from the registry's own listing - and Filter is judged on
// selections that name the new lint, its source, patterns, exclusions and seeded random options.
func c08Solo(c *mon.Ctx) {
	g := lint.GlobalRegistry()
	inv := append([]mon.LintInfo{}, Inv...)
	_ = g.Names()
	for _, k := range []corpus.Kind{corpus.Cert, corpus.CRL, corpus.OCSP} {
		if idx := W.ByKind[k]; len(idx) > 0 {
			_, _, _ = W.Objs[idx[0]].Lint(g)
		}
	}
	rng := c.Rng(-8, 0)
	for k := 0; k < 20; k++ {
		c08Judge(c, g, inv, "global before additions", randFilterOver(rng, inv, k%4 == 0))
	}
	md := func(n string, s lint.LintSource) lint.LintMetadata {
		return lint.LintMetadata{Name: n, Description: "verif addition", Citation: "verif", Source: s}
	}
	type step struct {
		name string
		kind corpus.Kind
		src  lint.LintSource
		reg  func(m lint.LintMetadata)
	}
	regO := func(m lint.LintMetadata) {
		lint.RegisterOcspResponseLint(&lint.OcspResponseLint{LintMetadata: m, Lint: func() lint.OcspResponseLintInterface { return c01POCSP{c01P{st: lint.Pass}} }})
	}
	regR := func(m lint.LintMetadata) {
		lint.RegisterRevocationListLint(&lint.RevocationListLint{LintMetadata: m, Lint: func() lint.RevocationListLintInterface { return c01PCRL{c01P{st: lint.Pass}} }})
	}
	regC := func(m lint.LintMetadata) {
		lint.RegisterCertificateLint(&lint.CertificateLint{LintMetadata: m, Lint: func() lint.CertificateLintInterface { return c01PCert{c01P{st: lint.Pass}} }})
	}
	steps := []step{
		{"e_verif_c08_ocsp_a", corpus.OCSP, lint.RFC8813, regO},
		{"w_verif_c08_crl_a", corpus.CRL, lint.RFC6960, regR},
		{"n_verif_c08_cert_a", corpus.Cert, lint.RFC8813, regC},
		{"e_000_verif_c08_cert_first", corpus.Cert, lint.Community, regC},
		{"w_zzz_verif_c08_crl_last", corpus.CRL, lint.CABFSMIMEBaselineRequirements, regR},
		{"e_verif_c08_ocsp_b", corpus.OCSP, lint.AppleRootStorePolicy, regO},
		// sources that are not among the shipped constants (a private policy): still sources, distinct from each
		// other and from "Unknown"
		{"e_verif_c08_cert_house", corpus.Cert, lint.LintSource("Internal_Policy"), regC},
		{"e_verif_c08_crl_partner", corpus.CRL, lint.LintSource("Partner_Policy"), regR},
		{"e_verif_c08_ocsp_unknown", corpus.OCSP, lint.UnknownLintSource, regO},
		// names that CONTAIN each other, across kinds: a pattern anchored at both ends selects one of them, an
		// unanchored literal all of them
		{"e_verif_c08_nest", corpus.Cert, lint.Community, regC},
		{"e_verif_c08_nest_strict", corpus.CRL, lint.Community, regR},
		{"w_e_verif_c08_nest", corpus.OCSP, lint.Community, regO},
	}
	for si, st := range steps {
		m := md(st.name, st.src)
		st.reg(m)
		li := mon.LintInfo{Name: st.name, Kind: st.kind, Meta: m}
		switch st.kind {
		case corpus.Cert:
			li.CertL = g.CertificateLints().ByName(st.name)
		case corpus.CRL:
			li.CrlL = g.RevocationListLints().ByName(st.name)
		default:
			li.OcspL = g.OcspResponseLints().ByName(st.name)
		}
		if li.CertL == nil && li.CrlL == nil && li.OcspL == nil {
			c.V("addition-not-found-by-name|"+st.kind.String(), "a lint registered through the public API is not found by its kind's ByName: "+st.name, st.name, nil, nil)
			continue
		}
		inv = append(inv, li)
		sort.Slice(inv, func(i, j int) bool { return inv[i].Name < inv[j].Name })
		label := fmt.Sprintf("global after %d additions (last: %s lint %s)", si+1, st.kind, st.name)
		for _, o := range []lint.FilterOptions{
			{IncludeNames: []string{st.name}},
			{IncludeNames: []string{" " + st.name + "\t", Inv[0].Name}},
			{ExcludeNames: []string{st.name}},
			{ExcludeNames: []string{Inv[1].Name}},
			{IncludeSources: lint.SourceList{st.src}},
			{ExcludeSources: lint.SourceList{st.src}},
			{ExcludeSources: lint.SourceList{lint.CABFBaselineRequirements}},
			{NameFilter: regexp.MustCompile("verif_c08")},
			{NameFilter: regexp.MustCompile("^" + st.name + "$")},
			{NameFilter: regexp.MustCompile(`\A` + st.name + `\z`)},
			{NameFilter: regexp.MustCompile("^(?:" + st.name + ")$")},
			{NameFilter: regexp.MustCompile(st.name)},
			{NameFilter: regexp.MustCompile("^" + st.name[:len(st.name)-1] + "$")},
			{NameFilter: regexp.MustCompile("^" + st.name[2:] + "$")},
			{NameFilter: regexp.MustCompile("^e_verif_c08_nest$")},
			{NameFilter: regexp.MustCompile("e_verif_c08_nest")},
			{NameFilter: regexpAll},
			{IncludeSources: lint.SourceList{st.src}, ExcludeNames: []string{st.name}},
			{IncludeSources: lint.SourceList{lint.LintSource("Partner_Policy")}},
			{ExcludeSources: lint.SourceList{lint.LintSource("Partner_Policy")}},
			{IncludeSources: lint.SourceList{lint.LintSource("Other_Private_Policy")}},
			{ExcludeSources: lint.SourceList{lint.LintSource("Other_Private_Policy"), lint.LintSource("")}},
			{IncludeSources: lint.SourceList{lint.UnknownLintSource}},
			{ExcludeSources: lint.SourceList{lint.UnknownLintSource}},
			{IncludeSources: lint.SourceList{lint.LintSource("Internal_Policy"), lint.RFC5280}, ExcludeSources: lint.SourceList{lint.LintSource("internal_policy")}},
		} {
			c08Judge(c, g, inv, label, o)
			c.R.Count("addition_filter_judgements", 1)
		}
		for k := 0; k < 60; k++ {
			c08Judge(c, g, inv, label, randFilterOver(rng, inv, k%5 == 0))
			c.R.Count("addition_filter_judgements", 1)
		}
	}
}
