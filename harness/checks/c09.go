package checks

import (
	"bytes"
	"encoding/asn1"
	"fmt"
	"github.com/zmap/zcrypto/x509"
	"math/big"
	"math/rand"
	"strings"

	"github.com/zmap/zlint/v3/lint"

	"verif/corpus"
	"verif/der"
	"verif/gen"
	"verif/mon"
)

// C09 - verdicts do not depend on the signature value.

var c09Mut mon.MutStats

// sigBytes returns the signature BIT STRING's contents without the
// unused-bits octet, and a setter replacing them by same-length bytes.
func sigBytes(dc *der.Cert) (cur []byte, unused byte, set func([]byte)) {
	n := dc.SigBits()
	if !n.Is(der.TagBitString) {
		return nil, 0, nil
	}
	var raw []byte
	if n.Wrapped != nil {
		raw = append([]byte{n.Unused}, n.Wrapped.Encode()...)
	} else {
		raw = n.Content
	}
	if len(raw) < 2 {
		return nil, 0, nil
	}
	return raw[1:], raw[0], func(b []byte) {
		n.Wrapped = nil
		n.Content = append([]byte{raw[0]}, b...)
	}
}

func c09Variants(rng *rand.Rand, cur []byte, donor []byte) map[string][]byte {
	n := len(cur)
	v := map[string][]byte{}
	r := make([]byte, n)
	rng.Read(r)
	v["random"] = r
	v["zero"] = make([]byte, n)
	v["ones"] = bytes.Repeat([]byte{0xff}, n)
	f := append([]byte{}, cur...)
	f[rng.Intn(n)] ^= 1 << uint(rng.Intn(8))
	v["bitflip"] = f
	d := make([]byte, n)
	for i := range d {
		if len(donor) > 0 {
			d[i] = donor[i%len(donor)]
		}
	}
	v["other-signature"] = d
	// a well-formed DER SEQUENCE{r,s} of exactly the same length where possible (ECDSA-looking)
	if n >= 10 && n < 120 {
		half := (n - 6) / 2
		rest := n - 6 - half
		s := []byte{0x30, byte(n - 2), 0x02, byte(half)}
		s = append(s, bytes.Repeat([]byte{0x11}, half)...)
		s = append(s, 0x02, byte(rest))
		s = append(s, bytes.Repeat([]byte{0x22}, rest)...)
		v["der-seq"] = s
	}
	return v
}

func init() {
	var nSeeds int
	mon.Register(&mon.Check{
		ID:          "C09",
		Rule:        "evaluations = Lint*Ex calls; for every certificate whose issuer DN bytes differ from its subject DN bytes the signature BIT STRING contents are replaced (unused-bits octet kept, same length) by random bits, all-zero, all-ones, one flipped bit, another certificate's signature cut/padded and a DER SEQUENCE{r,s} of the same length; every variant must give the original's status and details for every lint. Plus the pre-issuance scenario: one generated TBSCertificate really signed by two different keys. distinct_nontrivial (de-duplicated by a hash of the DER bytes within each worker process) = distinct non-self-issued certificates compared.",
		Assumptions: []string{"self-issued certificates are excluded, as the property states", "variants the parser rejects are counted and skipped"},
		Setup: func(c *mon.Ctx) error {
			if err := setupCommon(c); err != nil {
				return err
			}
			nSeeds = len(W.Objs)
			c09BuildMismatch()
			return nil
		},
		Solo: c09Solo,
		Once: func(c *mon.Ctx) {
			// pre-issuance: same TBS, two signers
			g := lint.GlobalRegistry()
			k1, k2 := gen.DefaultKey(), gen.NewRSAKey(rand.New(rand.NewSource(99)), 2048)
			for j, mk := range []func() *gen.Spec{
				func() *gen.Spec { return gen.TLSLeaf(gen.D(2024, 3, 1), "www.example.com", "example.org") },
				func() *gen.Spec { return gen.SMIMELeaf(gen.D(2024, 3, 1), "alice@example.com") },
				func() *gen.Spec { return gen.CSLeaf(gen.D(2024, 3, 1)) },
				func() *gen.Spec { return gen.SubCA(gen.D(2024, 3, 1)) },
				func() *gen.Spec { return gen.TLSLeaf(gen.D(2019, 3, 1), "xn--bad.example.com", "10.0.0.1") },
			} {
				a, b := mk(), mk()
				a.SelfSign, b.SelfSign = k1, k2
				oa, _ := mon.ParseObj(corpus.Cert, fmt.Sprintf("preissue%d/dummy-key", j), a.DER())
				ob, _ := mon.ParseObj(corpus.Cert, fmt.Sprintf("preissue%d/real-key", j), b.DER())
				if oa == nil || ob == nil {
					c.R.Inconcl("pre-issuance template rejected by the parser")
					continue
				}
				day := today()
				ra, _, _ := oa.Lint(g)
				rb, _, _ := ob.Lint(g)
				c.R.Count("evaluations", 2)
				c.R.Count("preissuance_pairs", 1)
				for _, d := range dropClock(day, mon.Diff(mon.SnapOf(ra), mon.SnapOf(rb), false, false)) {
					name := strings.SplitN(d, ":", 2)[0]
					c.V("preissuance|"+name, "same TBSCertificate signed by two different keys, lint differs: "+clipS(d, 300), name, map[string][]byte{"dummy": oa.DER, "real": ob.DER}, nil)
				}
			}
		},
		Cases: func(c *mon.Ctx) int {
			return nSeeds + c.Pick(30000, 600000) + c09OwnKeyCases + c09Directed(c) + len(c09Mismatch)
		},
		RunCase: func(c *mon.Ctx, i int) {
			var o *mon.Obj
			var desc string
			if nm := nSeeds + c.Pick(30000, 600000) + c09OwnKeyCases + c09Directed(c); i >= nm {
				o, desc = c09MismatchCase(i - nm)
				if o != nil {
					c.R.Count("alg_mismatch_bases", 1)
				}
			} else if base := nSeeds + c.Pick(30000, 600000); i >= base+c09OwnKeyCases {
				// directed families: the small ones completely (among them every key type under every signature
				// algorithm - lints that look at the signature FIELD have most to decide there), a hashed sample of the
				// two big ones
				k := directedPick(c, i-base-c09OwnKeyCases)
				if k < 0 {
					return
				}
				o, desc = directedCase(c, k)
				if o != nil {
					c.R.Count("directed_objects", 1)
				}
			} else if i >= base {
				o, desc = c09OwnKey(i - base)
			} else {
				o, desc, _ = unionCase(c, i, &c09Mut)
			}
			if o == nil || o.Kind != corpus.Cert {
				return
			}
			if bytes.Equal(o.Cert.RawIssuer, o.Cert.RawSubject) {
				c.R.Count("self_issued_skipped", 1)
				return
			}
			isMutant := i >= nSeeds && i < nSeeds+c.Pick(30000, 600000)
			compared := c09JudgeX(c, o, desc, lint.GlobalRegistry(), c.Rng(i, 4), !isMutant || i%4 == 0)
			cur := o.Cert.Signature
			if compared > 0 {
				c.CountDistinct(o.DER)
				c.R.Distinct("sig_algs", o.Cert.SignatureAlgorithm.String())
			}
			if i%1201 == 0 {
				c.R.Sample(6, map[string]any{"input": o.Name, "edits": desc, "sig_alg": o.Cert.SignatureAlgorithm.String(), "sig_len": len(cur), "variants": compared})
			}
		},
		Finish: func(c *mon.Ctx, r *mon.Report, ev *mon.Evidence) []string {
			var gates []string
			ev.Coverage["recovered_panic_reports_compared"] = r.Counters["recovered_panic_reports_compared"]
			ev.Coverage["probe_objects_compared"] = r.Counters["probe_objects_compared"]
			if r.Counters["recovered_panic_reports_compared"] < 50 || r.Counters["probe_objects_compared"] < 50 {
				gates = append(gates, "probe-lint part (own process) compared too little")
			}
			ev.Coverage["signature_algorithms_seen"] = r.SetKeys("sig_algs")
			ev.Coverage["directed_family_objects"] = r.Counters["directed_objects"]
			ev.Coverage["variants_compared"] = r.Sets["variants_compared"]
			if r.Counters["preissuance_pairs"] < 4 {
				gates = append(gates, "pre-issuance pairs not compared")
			}
			if r.Counters["distinct_nontrivial"] < 500 {
				gates = append(gates, "too few non-self-issued certificates compared")
			}
			ev.Coverage["variants_not_comparable"] = r.Counters["variant_not_comparable"]
			ev.Coverage["alg_mismatch_bases_accepted"] = r.Counters["alg_mismatch_bases"]
			return gates
		},
	})
}

// ---- certificates whose signature really verifies under their OWN key although they are not self-issued ----
//
// (cross-signed / re-keyed CA shapes). Any logic that looks at the signature value - e.g. "is this really
// self-signed?" - gives a different answer for these than for the same TBS with other signature bits, so they
// are the bases on which signature dependence can show at all. Templates x {AKI == SKI, AKI != SKI, no AKI,
// neither} x signature algorithm field.

const c09OwnKeyCases = 5 * 4 * 2

// ---- certificates whose two signature AlgorithmIdentifiers differ ----
//
// The algorithm is declared twice: inside the to-be-signed part and, next to the signature value, outside it. A lint
// that compares or inspects the OUTER one reads bytes that sit right in front of the signature bits; on certificates
// where the two differ (parameters changed, dropped, replaced by NULL, another certificate's identifier) such a lint
// has something to report, and that report must not depend on what follows the identifier. Bases: up to three
// non-self-issued seeds per signature algorithm; tweaks of the outer and of the inner identifier.
type c09MM struct {
	base  int
	tweak int
	donor int
}

var c09Mismatch []c09MM

const c09Tweaks = 7

func c09BuildMismatch() {
	c09Mismatch = nil
	per := map[string]int{}
	var donors []int
	seenDonor := map[string]bool{}
	for _, idx := range W.ByKind[corpus.Cert] {
		o := W.Objs[idx]
		if bytes.Equal(o.Cert.RawIssuer, o.Cert.RawSubject) {
			continue
		}
		a := o.Cert.SignatureAlgorithm.String()
		if !seenDonor[a] {
			seenDonor[a] = true
			donors = append(donors, idx)
		}
		if per[a] >= 3 {
			continue
		}
		per[a]++
		for t := 0; t < c09Tweaks; t++ {
			c09Mismatch = append(c09Mismatch, c09MM{idx, t, -1})
		}
	}
	n := len(c09Mismatch)
	for k := 0; k < n; k += c09Tweaks { // each base also with every other algorithm's identifier outside
		for _, d := range donors {
			c09Mismatch = append(c09Mismatch, c09MM{c09Mismatch[k].base, -1, d})
		}
	}
}

func c09MismatchCase(k int) (o *mon.Obj, desc string) {
	defer func() {
		if recover() != nil {
			o = nil
		}
	}()
	mm := c09Mismatch[k]
	b := W.Objs[mm.base]
	dc, err := der.ParseCert(b.DER)
	if err != nil {
		return nil, ""
	}
	setOuter := func(n *der.Node) { dc.Root.Children[1] = n }
	outer, inner := dc.OuterAlg(), dc.InnerAlg()
	lastByte := func(n *der.Node) bool { // change the last content octet of the identifier (salt length, trailer, curve, NULL ...)
		for len(n.Children) > 0 {
			n = n.Children[len(n.Children)-1]
		}
		if n.Wrapped != nil || len(n.Content) == 0 {
			return false
		}
		n.Content[len(n.Content)-1] ^= 0x31
		return true
	}
	switch mm.tweak {
	case -1:
		dd, err := der.ParseCert(W.Objs[mm.donor].DER)
		if err != nil {
			return nil, ""
		}
		setOuter(dd.OuterAlg().Clone())
		desc = "outer AlgorithmIdentifier taken from " + W.Objs[mm.donor].Name
	case 0:
		if !lastByte(outer) {
			return nil, ""
		}
		desc = "last octet of the outer AlgorithmIdentifier changed"
	case 1:
		if !lastByte(inner) {
			return nil, ""
		}
		desc = "last octet of the inner AlgorithmIdentifier changed"
	case 2:
		if len(outer.Children) < 2 {
			return nil, ""
		}
		outer.Children = outer.Children[:1]
		desc = "outer parameters dropped"
	case 3:
		if len(outer.Children) < 1 {
			return nil, ""
		}
		outer.Children = append(outer.Children[:1], der.Null())
		desc = "outer parameters replaced by NULL"
	case 4:
		if len(inner.Children) < 1 {
			return nil, ""
		}
		inner.Children = append(inner.Children[:1], der.Null())
		desc = "inner parameters replaced by NULL"
	case 5:
		if len(outer.Children) < 2 {
			return nil, ""
		}
		outer.Children = append(outer.Children, outer.Children[1].Clone())
		desc = "outer parameters repeated"
	default:
		if len(inner.Children) < 2 {
			return nil, ""
		}
		inner.Children = inner.Children[:1]
		desc = "inner parameters dropped"
	}
	o, _ = mon.ParseObj(corpus.Cert, b.Name+"#alg-mismatch", dc.Encode())
	return o, desc
}

func c09Directed(c *mon.Ctx) int {
	return directedSmallTail(c) + (directedCount(c)-directedSmallTail(c))/c.Pick(60, 6)
}

func c09OwnKey(k int) (*mon.Obj, string) {
	key := gen.DefaultKey()
	tmpl, akiMode, alt := k%5, (k/5)%4, k/20
	nb := gen.D(2024, 3, 1)
	var s *gen.Spec
	switch tmpl {
	case 0:
		s = gen.SubCA(nb)
	case 1:
		s = gen.TLSLeaf(nb, "www.example.com")
	case 2:
		s = gen.SMIMELeaf(nb, "alice@example.com")
	case 3:
		s = gen.CSLeaf(nb)
	default:
		s = gen.SubCA(gen.D(2010, 3, 1))
	}
	if alt == 1 { // issuer and subject share every attribute but one
		s.Issuer = s.Subject.Clone()
		s.Issuer.Children = append(s.Issuer.Children, gen.Name(gen.A(gen.OIDOU, "cross-signed")).Children...)
	}
	ski := []byte{1, 2, 3, 4, 5, 6, 7, 8, 9, 10, 11, 12, 13, 14, 15, 16, 17, 18, 19, 20}
	s.RemoveExt(gen.OIDExtSKI)
	s.RemoveExt(gen.OIDExtAKI)
	switch akiMode {
	case 0:
		s.Exts = append(s.Exts, gen.ExtSKI(ski), gen.ExtAKI(ski))
	case 1:
		s.Exts = append(s.Exts, gen.ExtSKI(ski), gen.ExtAKI([]byte{9, 9, 9, 9, 9, 9, 9, 9, 9, 9, 9, 9, 9, 9, 9, 9, 9, 9, 9, 9}))
	case 2:
		s.Exts = append(s.Exts, gen.ExtSKI(ski))
	}
	s.SPKI = gen.RSASPKI(key.N, big.NewInt(65537))
	s.SelfSign = key // really signed with the key it carries
	o, _ := mon.ParseObj(corpus.Cert, fmt.Sprintf("gen/ownkey/t%d-aki%d-alt%d", tmpl, akiMode, alt), s.DER())
	return o, "signed by its own key, not self-issued"
}

// c09Judge lints o and its same-length signature variants with reg and requires identical status and details for
// every lint; returns the number of variants compared.
// c09PrevZero: the all-zero-signature variant judged last in this worker (see c09JudgeX)
var c09PrevZero *mon.Obj

// derSeqOfLen builds a DER SEQUENCE whose complete encoding is exactly n octets (nil when n is too small).
func derSeqOfLen(n int) []byte {
	hdr := func(l int) []byte { // definite length octets, minimal
		switch {
		case l < 128:
			return []byte{byte(l)}
		case l < 256:
			return []byte{0x81, byte(l)}
		default:
			return []byte{0x82, byte(l >> 8), byte(l)}
		}
	}
	elems := []byte{0x0c, 0x0d, 't', 'o', '-', 'b', 'e', '-', 's', 'i', 'g', 'n', 'e', 'd', 0x00, // UTF8String with a NUL
		0x16, 0x03, 'a', 0x00, 'b', // IA5String with a NUL
		0x13, 0x03, 'x', '*', 'y', // PrintableString with a character outside the type
		0x06, 0x03, 0x55, 0x04, 0x03, // OID commonName
		0x01, 0x01, 0xff, // BOOLEAN
		0x18, 0x0f, '2', '0', '2', '4', '0', '3', '0', '1', '0', '0', '0', '0', '0', '0', 'Z'}
	for h := 2; h <= 4; h++ { // outer header size
		body := n - h
		if body < len(elems)+2 || len(hdr(body))+1 != h {
			continue
		}
		pad := body - len(elems) // the padding OCTET STRING, header included
		for ph := 2; ph <= 4; ph++ {
			pl := pad - ph
			if pl < 0 || len(hdr(pl))+1 != ph {
				continue
			}
			out := append([]byte{0x30}, hdr(body)...)
			out = append(out, elems...)
			out = append(append(out, 0x04), hdr(pl)...)
			for k := 0; k < pl; k++ {
				out = append(out, byte(0x41+k%26))
			}
			if len(out) == n {
				return out
			}
		}
	}
	return nil
}

func c09Judge(c *mon.Ctx, o *mon.Obj, desc string, g lint.Registry, rng *rand.Rand) int {
	return c09JudgeX(c, o, desc, g, rng, true)
}

// c09JudgeX: with full == false only the basic variants are compared (random mutants, three in four)
func c09JudgeX(c *mon.Ctx, o *mon.Obj, desc string, g lint.Registry, rng *rand.Rand, full bool) int {
	dc, err := der.ParseCert(o.DER)
	if err != nil {
		return 0
	}
	cur, _, _ := sigBytes(dc)
	if len(cur) == 0 {
		c.R.Count("no_signature_bits", 1)
		return 0
	}
	day := today()
	rs, pv, _ := o.Lint(g)
	c.R.Count("evaluations", 1)
	if pv != nil || rs == nil {
		return 0
	}
	base := mon.SnapOf(rs)
	donor := W.Objs[W.ByKind[corpus.Cert][rng.Intn(len(W.ByKind[corpus.Cert]))]].Cert.Signature
	compared := 0
	variants := c09Variants(rng, cur, donor)
	// signature values that LOOK like certificate content: the tail of this certificate's own to-be-signed bytes
	// (its extensions), and its extensions' OID encodings each followed by an explicit critical FALSE / TRUE / the
	// value's OCTET STRING header - for lints that search or re-decode the raw certificate
	fill := func(pat []byte) []byte {
		out := make([]byte, len(cur))
		for i := range out {
			out[i] = pat[i%len(pat)]
		}
		return out
	}
	if tbs := o.Cert.RawTBSCertificate; len(tbs) > 0 {
		tail := tbs
		if len(tail) > len(cur) {
			tail = tail[len(tail)-len(cur):]
		}
		variants["own-tbs-tail"] = fill(tail)
		if len(tbs) > len(cur)+40 {
			variants["own-tbs-middle"] = fill(tbs[len(tbs)/2 : len(tbs)/2+len(cur)])
		}
	}
	for suffix, label := range map[string]string{"\x01\x01\x00": "ext-oids+critical-false", "\x01\x01\xff": "ext-oids+critical-true", "\x04\x02\x30\x00": "ext-oids+empty-value"} {
		var pat []byte
		for _, e := range o.Cert.Extensions {
			if b, err := asn1.Marshal(asn1.ObjectIdentifier(e.Id)); err == nil { // the parser's OID type is its own: convert, or it encodes as SEQUENCE OF INTEGER
				pat = append(append(pat, b...), suffix...)
			}
		}
		if len(pat) > 0 {
			variants[label] = fill(pat)
			if len(pat) < len(cur) { // the same, ending exactly at the end of the signature
				sh := make([]byte, len(cur))
				copy(sh[len(cur)-len(pat):], pat)
				variants[label+"-at-end"] = sh
			}
		}
	}
	// ... and every top-level field of the to-be-signed part (inner signature AlgorithmIdentifier, issuer, validity,
	// subject, the key's AlgorithmIdentifier, serial) and the outer AlgorithmIdentifier, each placed at the start, in
	// the middle and exactly at the end of the signature: a lint that searches the bytes BEHIND the to-be-signed part
	// for one of these encodings must not find it in the signature
	func() {
		defer func() { _ = recover() }() // a mutant whose outline the tree reader does not know: no such variants
		if !full {
			return
		}
		fields := map[string][]byte{"inner-alg": dc.InnerAlg().Encode(), "outer-alg": dc.OuterAlg().Encode(), "serial": dc.Serial().Encode(),
			"validity": dc.Validity().Encode(), "issuer": dc.Issuer().Encode(), "subject": dc.Subject().Encode()}
		if sp := dc.SPKI(); len(sp.Children) > 0 {
			fields["key-alg"] = sp.Children[0].Encode()
		}
		// the algorithm OIDs by themselves, followed by what a lint might look for behind them: NULL parameters, an empty
		// SEQUENCE, nothing
		for an, alg := range map[string]*der.Node{"inner-alg-oid": dc.InnerAlg(), "outer-alg-oid": dc.OuterAlg()} {
			if len(alg.Children) > 0 {
				oid := alg.Children[0].Encode()
				fields[an+"+null"] = append(append([]byte{}, oid...), 0x05, 0x00)
				fields[an+"+empty-seq"] = append(append([]byte{}, oid...), 0x30, 0x00)
				fields[an] = oid
			}
		}
		for fname, enc := range fields {
			if len(enc) == 0 || len(enc) > len(cur) {
				continue
			}
			for _, at := range []struct {
				where string
				off   int
			}{{"start", 0}, {"middle", (len(cur) - len(enc)) / 2}, {"end", len(cur) - len(enc)}} {
				vb := make([]byte, len(cur))
				rng.Read(vb)
				copy(vb[at.off:], enc)
				variants["holds-"+fname+"-at-"+at.where] = vb
			}
		}
	}()
	// a signature value that IS a well-formed DER SEQUENCE of exactly that length, holding the kinds of element lints
	// look for elsewhere in a certificate (strings of several types - one with a NUL octet, one with a character outside
	// its type -, an OID, a BOOLEAN, a GeneralizedTime, padded with an OCTET STRING): whatever walks "the whole
	// certificate" and follows BIT STRING / OCTET STRING encapsulation must stop in front of the signature
	if v := derSeqOfLen(len(cur)); v != nil {
		variants["der-sequence-of-strings"] = v
	}
	for vname, vb := range variants {
		if bytes.Equal(vb, cur) {
			continue
		}
		d2 := dc.Clone()
		_, _, set := sigBytes(d2)
		set(vb)
		enc := d2.Encode()
		if len(enc) != len(o.DER) {
			// the seed's own encoding is not what the tree re-encodes to (non-minimal lengths inside the mutant): not comparable
			c.R.Count("variant_not_comparable", 1)
			continue
		}
		o2, _ := mon.ParseObj(corpus.Cert, o.Name+"#sig="+vname, enc)
		if o2 == nil {
			c.R.Count("variant_rejected", 1)
			continue
		}
		if !bytes.Equal(o2.Cert.RawTBSCertificate, o.Cert.RawTBSCertificate) {
			c.R.Count("variant_not_comparable", 1)
			continue
		}
		if vname == "zero" {
			// directly in front of it, ANOTHER certificate carrying the very same signature value (the previous case's
			// all-zero variant of equal length, usually of another scope): a dummy signature shared by a batch of
			// to-be-issued certificates must not carry anything over from one to the next
			if c09PrevZero != nil && len(c09PrevZero.Cert.Signature) == len(o2.Cert.Signature) {
				if pz := c09PrevZero.Reparse(); pz != nil {
					_, _, _ = pz.Lint(g)
					c.R.Count("shared_dummy_signature_neighbours", 1)
				}
			}
			c09PrevZero = o2
		}
		rs2, pv2, _ := o2.Lint(g)
		c.R.Count("evaluations", 1)
		if pv2 != nil || rs2 == nil {
			c.V("variant-panics|"+vname, "linting panicked only after replacing the signature by "+vname, "", map[string][]byte{"orig": o.DER, "variant": enc}, nil)
			continue
		}
		compared++
		c.R.Distinct("variants_compared", vname)
		for _, d := range dropClock(day, mon.Diff(base, mon.SnapOf(rs2), false, false)) {
			name := strings.SplitN(d, ":", 2)[0]
			c.V("sig-dependent|"+name, fmt.Sprintf("lint %s changes when only the signature bits change (%s): %s (input %s~%s)", name, vname, clipS(d, 300), o.Name, desc), name, map[string][]byte{"orig": o.DER, "variant": enc}, map[string]any{"variant": vname})
		}
	}
	return compared
}

// ---- probe lints (own process) ----
//
// Whatever the FRAMEWORK adds around a rule body must not depend on the signature either - in particular its report
// of a recovered panic, which no lint of a healthy tree produces. Probe lints registered through the public API (one
// whose rule body panics, one that reports details taken from the to-be-signed part, one plain) are run through the
// global registry, a registry filtered to them, and by calling CertificateLint.Execute and the deprecated
// Lint.Execute directly, on non-self-issued seeds and their signature variants.

type c09Probe struct{ mode int }

func (c09Probe) CheckApplies(*x509.Certificate) bool { return true }
func (p c09Probe) Execute(c *x509.Certificate) *lint.LintResult {
	switch p.mode {
	case 0:
		var names []string
		_ = names[len(c.DNSNames)+3] // index out of range: the framework's recovery has to report it
		return nil
	case 1:
		return &lint.LintResult{Status: lint.Error, Details: fmt.Sprintf("serial %x, %d extensions, algorithm %s", c.SerialNumber, len(c.Extensions), c.SignatureAlgorithm)}
	}
	return &lint.LintResult{Status: lint.Pass}
}

func c09Solo(c *mon.Ctx) {
	g := lint.GlobalRegistry()
	names := []string{"e_verif_c09_panics", "e_verif_c09_details", "e_verif_c09_plain"}
	for m, n := range names {
		m := m
		lint.RegisterCertificateLint(&lint.CertificateLint{LintMetadata: lint.LintMetadata{Name: n, Description: "verif probe", Citation: "verif", Source: lint.Community},
			Lint: func() lint.CertificateLintInterface { return c09Probe{m} }})
	}
	only, err := g.Filter(lint.FilterOptions{IncludeNames: names})
	if err != nil {
		c.R.Inconcl("probe lints cannot be selected: " + err.Error())
		return
	}
	rng := c.Rng(-9, 1)
	n := 0
	for _, idx := range W.ByKind[corpus.Cert] {
		o := W.Objs[idx]
		if bytes.Equal(o.Cert.RawIssuer, o.Cert.RawSubject) || idx%3 != int(uint64(c.Seed)%3) {
			continue
		}
		if n++; n > c.Pick(150, 1200) {
			break
		}
		reg := only
		if n%4 == 0 {
			reg = g
		}
		if k := c09Judge(c, o, "probe lints", reg, rng); k > 0 {
			c.R.Count("probe_objects_compared", 1)
		}
		// direct execution of the lint values, both API generations
		dc, err := der.ParseCert(o.DER)
		if err != nil {
			continue
		}
		cur, _, set := sigBytes(dc)
		if len(cur) == 0 {
			continue
		}
		flipped := append([]byte{}, cur...)
		for i := range flipped {
			flipped[i] ^= 0xff
		}
		set(flipped)
		o2, _ := mon.ParseObj(corpus.Cert, o.Name+"#sig=inverted", dc.Encode())
		if o2 == nil || !bytes.Equal(o2.Cert.RawTBSCertificate, o.Cert.RawTBSCertificate) {
			continue
		}
		cfg := g.GetConfiguration()
		for _, pn := range names {
			cl := g.CertificateLints().ByName(pn)
			dep := g.ByName(pn)
			if cl == nil || dep == nil {
				continue
			}
			for which, run := range map[string]func(x *x509.Certificate) *lint.LintResult{
				"CertificateLint.Execute": func(x *x509.Certificate) *lint.LintResult { return cl.Execute(x, cfg) },
				"deprecated Lint.Execute": func(x *x509.Certificate) *lint.LintResult { return dep.Execute(x, cfg) },
			} {
				var a, b *lint.LintResult
				func() {
					defer func() { _ = recover() }()
					a, b = run(o.Cert), run(o2.Cert)
				}()
				c.R.Count("evaluations", 2)
				if a == nil || b == nil {
					continue
				}
				c.R.Count("probe_direct_comparisons", 1)
				if a.Status != b.Status || a.Details != b.Details {
					c.V("sig-dependent|"+pn, fmt.Sprintf("%s of probe lint %s changes when only the signature bits change: %s %q vs %s %q (input %s)", which, pn, a.Status, clipS(a.Details, 160), b.Status, clipS(b.Details, 160), o.Name), pn, map[string][]byte{"orig": o.DER, "variant": o2.DER}, nil)
				}
				if pn == names[0] && a.Status == lint.Fatal {
					c.R.Count("recovered_panic_reports_compared", 1)
				}
			}
		}
	}
}
