package checks

import (
	"bytes"
	"fmt"
	"github.com/zmap/zcrypto/x509"
	"math/rand"
	"os"
	"path/filepath"
	"regexp"
	"runtime"
	"sort"
	"strings"
	"sync"
	"sync/atomic"

	"github.com/zmap/zlint/v3/lint"

	"verif/corpus"
	"verif/mon"
)

// C10 - concurrent linting is safe and equals sequential linting.
// Built with -race by bin/check; one worker process, many goroutines.

type c10Obj struct {
	o    *mon.Obj
	base map[int]mon.Snap // registry index -> sequential baseline
}

var (
	c10Objs []*c10Obj // W1/W3 subset, baselines under every registry
	c10All  []*c10Obj // every seed, baseline under the global registry only (W2 applicability)
	c10Regs []regCfg
)

var c10CanaryVar int

// c10Canary is a deliberate data race on a harness variable: it proves that
// the detector, GORACE's log_path and the report parser work in this run.
// Reports mentioning c10Canary are counted and never treated as violations.
func c10Canary() {
	var wg sync.WaitGroup
	for k := 0; k < 2; k++ {
		wg.Add(1)
		go func(k int) {
			defer wg.Done()
			for n := 0; n < 1000; n++ {
				c10CanaryVar += k
			}
		}(k)
	}
	wg.Wait()
}

// Probe lints for what no shipped lint has: a Configurable lint whose configuration struct carries REFERENCE-typed
// state (a slice, a map, a pointer) that the rule body writes through while it runs. Every execution gets a fresh,
// freshly configured instance, so this is private to one execution - unless something in the framework starts
// sharing configured state between instances, which only such a lint can show.
type c10ProbeCfg struct {
	Limit   int
	Scratch []string
	Seen    map[string]int
	Last    *string
}

type c10ProbeCert struct{ cfg c10ProbeCfg }

func newC10ProbeCfg() c10ProbeCfg {
	s := ""
	return c10ProbeCfg{Limit: 3, Scratch: make([]string, 0, 64), Seen: map[string]int{}, Last: &s}
}

func (l *c10ProbeCert) Configure() interface{}              { return &l.cfg }
func (l *c10ProbeCert) CheckApplies(*x509.Certificate) bool { return true }
func (l *c10ProbeCert) Execute(c *x509.Certificate) *lint.LintResult {
	return &lint.LintResult{Status: lint.Notice, Details: c10ProbeWork(&l.cfg, append(append([]string{c.SerialNumber.String()}, c.DNSNames...), c.Subject.CommonName))}
}

type c10ProbeCRL struct{ cfg c10ProbeCfg }

func (l *c10ProbeCRL) Configure() interface{}                 { return &l.cfg }
func (l *c10ProbeCRL) CheckApplies(*x509.RevocationList) bool { return true }
func (l *c10ProbeCRL) Execute(r *x509.RevocationList) *lint.LintResult {
	items := []string{r.Issuer.String(), r.ThisUpdate.String()}
	for _, e := range r.RevokedCertificates {
		items = append(items, e.SerialNumber.String())
	}
	return &lint.LintResult{Status: lint.Notice, Details: c10ProbeWork(&l.cfg, items)}
}

// c10ProbeWork uses the instance's reference-typed state as scratch space and derives the details from it.
func c10ProbeWork(cfg *c10ProbeCfg, items []string) string {
	cfg.Scratch = cfg.Scratch[:0]
	for _, it := range items {
		cfg.Scratch = append(cfg.Scratch, it)
		cfg.Seen[it]++
		*cfg.Last = it
	}
	h := 0
	for i := 0; i < 40; i++ { // read it back several times, as a longer rule body would
		for _, s := range cfg.Scratch {
			h = h*31 + len(s) + cfg.Seen[s]
		}
	}
	return fmt.Sprintf("items=%d last=%s distinct=%d h=%d limit=%d", len(cfg.Scratch), *cfg.Last, len(cfg.Seen), h, cfg.Limit)
}

var c10ProbesOnce sync.Once

func c10Setup(c *mon.Ctx) error {
	c10ProbesOnce.Do(func() {
		lint.RegisterCertificateLint(&lint.CertificateLint{LintMetadata: lint.LintMetadata{Name: "n_verif_c10_stateful_cert", Description: "verif probe", Citation: "verif", Source: lint.Community},
			Lint: func() lint.CertificateLintInterface { return &c10ProbeCert{newC10ProbeCfg()} }})
		lint.RegisterRevocationListLint(&lint.RevocationListLint{LintMetadata: lint.LintMetadata{Name: "n_verif_c10_stateful_crl", Description: "verif probe", Citation: "verif", Source: lint.Community},
			Lint: func() lint.RevocationListLintInterface { return &c10ProbeCRL{newC10ProbeCfg()} }})
	})
	if err := setupCommon(c); err != nil {
		return err
	}
	g := lint.GlobalRegistry()
	c10Regs = []regCfg{{g, "global"}, {nil, "nil (global)"}}
	rng := c.Rng(-10, 0)
	cfgs := basicConfigs()
	for len(c10Regs) < 6 {
		o := randFilter(rng, false)
		if o.Empty() {
			continue
		}
		r, err := g.Filter(o)
		if err != nil || len(r.Names()) < 20 {
			continue
		}
		r.SetConfiguration(mustConfig(cfgs[len(c10Regs)%3].Text))
		c10Regs = append(c10Regs, regCfg{r, "filter{" + describeFilter(o) + "}"})
	}
	return nil // no lint has run yet in this process: baselines are computed AFTER the cold-start phase
}

// c10Parallel runs work items 0..n-1 on G goroutines released by ONE barrier and joined by ONE Wait, with no
// monitor-side synchronisation in between: static partition (item k -> goroutine k mod G), results go to per-item
// slots, counters are per goroutine. This matters for the race detector: it reports two accesses only when no
// happens-before edge orders them, and every shared counter, work queue or watchdog tick the MONITOR touches between
// two lint calls is such an edge (atomics and mutexes are release/acquire points). With a shared queue, calls that
// did not overlap in real time were ordered by the monitor itself and their races hidden - and how much overlaps in
// real time depends on machine load. Here all calls of different goroutines are unordered whatever the schedule.
func c10Parallel(G, n int, work func(gi, k int)) {
	start := make(chan struct{})
	var wg sync.WaitGroup
	for gi := 0; gi < G; gi++ {
		wg.Add(1)
		go func(gi int) {
			defer wg.Done()
			<-start
			for k := gi; k < n; k += G {
				work(gi, k)
			}
		}(gi)
	}
	close(start)
	wg.Wait()
}

type c10Res struct {
	ri    int
	s     mon.Snap
	pv    any
	stack string
	done  bool
}

var c10ColdOnce sync.Once

// c10Cold is the first linting this process ever does: G goroutines lint every seed (each its own parse, in a
// worker-specific order) against the shared registries at once, so that lazily initialised state (caches filled
// on first use, sync.Once, memo tables) is first touched concurrently. A sequential warm-up would hide exactly
// the races that only exist on first use. Sequential baselines are computed afterwards and compared.
func c10Cold(c *mon.Ctx) {
	G := []int{8, 32, 4, 64}[c.Shard%4]
	runtime.GOMAXPROCS([]int{16, 16, 4, 8}[c.Shard%4])
	order := c.Rng(-77, c.Shard).Perm(len(W.Objs))
	res := make([]c10Res, len(W.Objs))
	stopReaders := c10StartReaders(c, 3, 7000+c.Shard)
	c10Parallel(G, len(order), func(gi, k int) {
		idx := order[k]
		own := W.Objs[idx].Reparse()
		if own == nil {
			return
		}
		ri := 0
		if k%4 == 3 {
			ri = 2 + k%(len(c10Regs)-2)
		}
		rs, pv, stack := own.Lint(c10Regs[ri].reg)
		r := c10Res{ri: ri, pv: pv, stack: stack, done: true}
		if pv == nil && rs != nil {
			r.s = mon.SnapOf(rs)
		}
		res[idx] = r
	})
	stopReaders()
	for idx, r := range res {
		if !r.done {
			continue
		}
		c.R.Count("evaluations", 1)
		c.R.Count("cold_concurrent_lint_calls", 1)
		if r.pv != nil || r.s == nil {
			c.V("panic-under-concurrency|cold", fmt.Sprintf("Lint*Ex panicked during the cold-start phase (%d goroutines): %v at %s", G, r.pv, mon.PanicSite(r.stack)), "", inputs(W.Objs[idx]), map[string]any{"stack": r.stack})
		}
	}
	c.Tick()
	// now the sequential baselines: "the same call made alone" - one goroutine on ONE processor, so that a lint that
	// spreads its own work over the available processors is compared with its single-processor answer
	prevProcs := runtime.GOMAXPROCS(1)
	defer runtime.GOMAXPROCS(prevProcs)
	day := today()
	stride := c.Pick(5, 1)
	for i, o := range W.Objs {
		sub := !(o.Kind == corpus.Cert && i%stride != int(uint64(c.Seed)%uint64(stride)))
		co := &c10Obj{o: o, base: map[int]mon.Snap{}}
		c10All = append(c10All, co)
		for ri, rc := range c10Regs {
			if !sub && ri > 0 && ri != res[i].ri {
				continue
			}
			rs, pv, _ := o.Lint(rc.reg)
			if pv != nil || rs == nil {
				continue
			}
			co.base[ri] = mon.SnapOf(rs)
		}
		if sub {
			c10Objs = append(c10Objs, co)
		}
		if res[i].s != nil {
			if base, ok := co.base[res[i].ri]; ok {
				for _, d := range dropClock(day, mon.Diff(base, res[i].s, false, false)) {
					name := strings.SplitN(d, ":", 2)[0]
					c.V("concurrent-differs|cold|"+name, fmt.Sprintf("lint %s: the call made concurrently at process start differs from the same call made alone afterwards (G=%d): %s", name, G, clipS(d, 240)), name, inputs(o), nil)
				}
			}
		}
		c.Tick()
	}
	c.R.Distinct("cold_configs", fmt.Sprintf("shard=%d,G=%d", c.Shard, G))
}

// w1: G linters over shared registries + registry readers.
func c10W1(c *mon.Ctx, G, procs int) {
	old := runtime.GOMAXPROCS(procs)
	defer runtime.GOMAXPROCS(old)
	day := today()
	stopReaders := c10StartReaders(c, 4, G*100+procs)
	total := len(c10Objs) * 2
	res := make([]c10Res, total)
	c10Parallel(G, total, func(gi, k int) {
		co := c10Objs[k%len(c10Objs)]
		ri := (k + gi) % len(c10Regs)
		if _, ok := co.base[ri]; !ok {
			return
		}
		own := co.o.Reparse() // every goroutine lints its own parsed object
		if own == nil {
			return
		}
		rs, pv, stack := own.Lint(c10Regs[ri].reg)
		r := c10Res{ri: ri, pv: pv, stack: stack, done: true}
		if pv == nil && rs != nil {
			r.s = mon.SnapOf(rs)
		}
		res[k] = r
	})
	stopReaders()
	for k, r := range res {
		if !r.done {
			continue
		}
		co := c10Objs[k%len(c10Objs)]
		c.R.Count("evaluations", 1)
		c.R.Count("concurrent_lint_calls", 1)
		if r.pv != nil || r.s == nil {
			c.V("panic-under-concurrency", fmt.Sprintf("Lint*Ex panicked while %d goroutines lint concurrently: %v at %s", G, r.pv, mon.PanicSite(r.stack)), "", inputs(co.o), map[string]any{"stack": r.stack})
			continue
		}
		for _, d := range dropClock(day, mon.Diff(co.base[r.ri], r.s, false, false)) {
			name := strings.SplitN(d, ":", 2)[0]
			c.V("concurrent-differs|"+name, fmt.Sprintf("lint %s: the concurrent call differs from the same call made alone (G=%d, GOMAXPROCS=%d, registry %s): %s", name, G, procs, c10Regs[r.ri].label, clipS(d, 240)), name, inputs(co.o), nil)
		}
	}
	c.Tick()
	c.R.Distinct("w1_configs", fmt.Sprintf("G=%d,GOMAXPROCS=%d", G, procs))
}

// c10StartReaders starts n goroutines that hammer the registry API (every operation in turn, on every shared
// registry) until the returned stop function is called; each reader does at least 160 operations.
func c10StartReaders(c *mon.Ctx, n, stream int) (stop func()) {
	g := lint.GlobalRegistry()
	var stopFlag atomic.Bool
	var readers sync.WaitGroup
	var reads atomic.Int64
	for r := 0; r < n; r++ {
		readers.Add(1)
		go func(r int) {
			defer readers.Done()
			defer c10Recover(c, "reader")
			rng := c.Rng(-100-r, stream)
			for k := 0; !stopFlag.Load() || k < 160; k++ {
				reg := c10Regs[(k/8+r)%len(c10Regs)].reg
				if reg == nil {
					reg = g
				}
				switch (k + r) % 8 {
				case 0:
					n := reg.Names()
					if !sort.StringsAreSorted(n) {
						c.V("names-unsorted-under-concurrency", "Names() observed unsorted while other goroutines lint", "", nil, nil)
					}
				case 1:
					// the source lists are the caller's to sort ("can be sorted by the caller with sort.Sort()"): do so, in
					// both directions, and expect the list just obtained to stay a permutation of what was obtained
					_ = reg.CertificateLints().Names()
					_ = reg.RevocationListLints().Names()
					_ = reg.OcspResponseLints().Names()
					for _, sl := range []lint.SourceList{reg.Sources(), reg.CertificateLints().Sources(), reg.RevocationListLints().Sources(), reg.OcspResponseLints().Sources()} {
						want := map[lint.LintSource]int{}
						for _, x := range sl {
							want[x]++
						}
						if (k+r)%16 < 8 {
							sort.Sort(sl)
						} else {
							sort.Sort(sort.Reverse(sl))
						}
						for _, x := range sl {
							want[x]--
						}
						for x, n := range want {
							if n != 0 {
								c.V("source-list-changed-under-its-holder", fmt.Sprintf("a source list obtained from the registry is no longer a permutation of itself after its holder sorted it while other goroutines read the registry (source %q off by %d)", x, n), "", nil, nil)
								break
							}
						}
					}
				case 2:
					n := Inv[rng.Intn(len(Inv))].Name
					_ = reg.CertificateLints().ByName(n)
					_ = reg.RevocationListLints().ByName(n)
					_ = reg.OcspResponseLints().ByName(n)
				case 3:
					_ = reg.CertificateLints().BySource(lint.CABFBaselineRequirements)
					_ = reg.RevocationListLints().BySource(lint.RFC5280)
					_ = reg.OcspResponseLints().BySource(lint.RFC6960)
				case 4:
					_ = reg.CertificateLints().Lints()
					_ = reg.RevocationListLints().Lints()
					_ = reg.OcspResponseLints().Lints()
				case 5:
					if f, err := reg.Filter(randFilter(rng, false)); err == nil {
						_ = f.Names()
					}
				case 6:
					var buf bytes.Buffer
					reg.WriteJSON(&buf)
				case 7:
					_, _ = reg.DefaultConfiguration()
				}
				reads.Add(1)
				c.Tick()
			}
		}(r)
	}
	return func() {
		stopFlag.Store(true)
		readers.Wait()
		c.R.Count("registry_reads", reads.Load())
	}
}

func c10Recover(c *mon.Ctx, who string) {
	if r := recover(); r != nil {
		c.V("goroutine-panic|"+who, fmt.Sprintf("%s goroutine panicked: %v", who, r), "", nil, nil)
	}
}

// w2: the same lint overlapping itself on distinct certificates.
func c10W2(c *mon.Ctx, perLint int) {
	runtime.GOMAXPROCS(16)
	g := lint.GlobalRegistry()
	cfg := g.GetConfiguration()
	// applicable objects per lint, from the sequential baselines
	applic := map[string][]*c10Obj{}
	for _, co := range c10All {
		for n, sd := range co.base[0] {
			if sd.Status != int(lint.NA) {
				applic[n] = append(applic[n], co)
			}
		}
	}
	const G = 16
	stopReaders := c10StartReaders(c, 2, 8000)
	defer stopReaders()
	for _, li := range Inv {
		objs := applic[li.Name]
		if len(objs) == 0 {
			c.R.Distinct("w2_no_applicable_object", li.Name)
			continue
		}
		per := perLint/G + 1
		type slot struct {
			runs  int
			bad   *lint.LintResult
			isBad bool
			want  mon.SD
			pv    any
		}
		slots := make([]slot, G)
		c10Parallel(G, G, func(gi, _ int) {
			defer func() {
				if r := recover(); r != nil {
					slots[gi].pv = r
				}
			}()
			own := objs[gi%len(objs)].o.Reparse()
			if own == nil {
				return
			}
			want := objs[gi%len(objs)].base[0][li.Name]
			slots[gi].want = want
			for k := 0; k < per; k++ {
				var r *lint.LintResult
				switch li.Kind {
				case corpus.Cert:
					r = li.CertL.Execute(own.Cert, cfg)
				case corpus.CRL:
					r = li.CrlL.Execute(own.CRL, cfg)
				default:
					r = li.OcspL.Execute(own.OCSP, cfg)
				}
				slots[gi].runs++
				if (r == nil || int(r.Status) != want.Status || r.Details != want.Details) && !slots[gi].isBad {
					slots[gi].bad, slots[gi].isBad = r, true
				}
			}
		})
		c.Tick()
		active := 0
		for gi := range slots {
			sl := slots[gi]
			c.R.Count("evaluations", int64(sl.runs))
			if sl.runs > 0 {
				active++
			}
			if sl.pv != nil {
				c.V("goroutine-panic|w2:"+li.Name, fmt.Sprintf("lint %s panicked when executed concurrently with itself: %v", li.Name, sl.pv), li.Name, nil, nil)
			}
			if sl.isBad && !c05ClockLints[li.Name] {
				c.V("self-overlap-differs|"+li.Name, fmt.Sprintf("lint %s executed concurrently with itself returns %v, alone it returned %s %q", li.Name, sl.bad, lint.LintStatus(sl.want.Status), clipS(sl.want.Details, 80)), li.Name, nil, nil)
			}
		}
		if active >= 2 {
			c.R.Distinct("w2_lints_overlapped", li.Name)
			c.R.Count("w2_overlapped_executions", int64(active*per))
		} else {
			c.R.Distinct("w2_lints_little_overlap", fmt.Sprintf("%s(%d goroutines)", li.Name, active))
		}
	}
}

// w3: concurrent Filter + lint on the freshly filtered registries.
func c10W3(c *mon.Ctx, rounds int) {
	runtime.GOMAXPROCS(16)
	g := lint.GlobalRegistry()
	stopReaders := c10StartReaders(c, 2, 9000)
	const G = 16
	type w3res struct {
		co  *c10Obj
		got mon.Snap
		pv  any
		ok  bool
	}
	res := make([]w3res, G*rounds)
	rngs := make([]*rand.Rand, G)
	for gi := range rngs {
		rngs[gi] = c.Rng(-300-gi, 0)
	}
	c10Parallel(G, G*rounds, func(gi, k int) {
		rng := rngs[gi] // used by goroutine gi only
		o := randFilter(rng, false)
		r, err := g.Filter(o)
		if err != nil {
			return
		}
		co := c10Objs[rng.Intn(len(c10Objs))]
		own := co.o.Reparse()
		if own == nil {
			return
		}
		rs, pv, _ := own.Lint(r)
		x := w3res{co: co, pv: pv, ok: true}
		if pv == nil && rs != nil {
			x.got = mon.SnapOf(rs)
		}
		res[k] = x
	})
	stopReaders()
	for _, x := range res {
		if !x.ok {
			continue
		}
		c.R.Count("evaluations", 1)
		c.R.Count("w3_filter_and_lint", 1)
		if x.pv != nil || x.got == nil {
			c.V("panic-under-concurrency|w3", fmt.Sprintf("lint on a freshly filtered registry panicked under concurrency: %v", x.pv), "", inputs(x.co.o), nil)
			continue
		}
		// the filtered registry has no configuration of its own: compare with the global baseline restricted
		for n, sd := range x.got {
			if b, ok := x.co.base[0][n]; ok && b != sd && !c05ClockLints[n] {
				c.V("concurrent-differs|w3|"+n, fmt.Sprintf("lint %s on a concurrently filtered registry differs from the sequential baseline: %v vs %v", n, sd, b), n, inputs(x.co.o), nil)
			}
		}
	}
	c.Tick()
}

// w4: the directed families (general-name pool, AIA shapes, adversarial DNs, name constraints, DN texts, extension
// shapes, a stride of the positional family) - code paths the corpus does not drive - are linted CONCURRENTLY FIRST
// (16 goroutines, own parse each, so a lazily initialised table on such a path is first touched under contention)
// and only then alone; the two must agree.
func c10W4(c *mon.Ctx) {
	runtime.GOMAXPROCS(16)
	g := lint.GlobalRegistry()
	n := directedCount(c)
	tail := directedSmallTail(c)
	stride := c.Pick(29, 7)
	var objs []*mon.Obj
	for k := 0; k < n; k++ {
		if k < n-tail && !directedSampled(c, k, stride) {
			continue
		}
		if o, _ := directedCase(c, k); o != nil {
			objs = append(objs, o)
		}
	}
	// first in WAVES of 16 neighbours of the enumeration (neighbours are members of one family with similar shapes):
	// each wave is released by its own barrier, one object per goroutine, so that whatever a shape touches for the first
	// time in this process - a lazily built table, a memo - is touched by several goroutines AT THE SAME MOMENT. (A
	// static partition of the whole list lets the 16 goroutines drift apart; the race detector then often sees an
	// accidental happens-before edge - sync.Pool inside fmt / regexp - between the first touch and the next one.)
	// Calls of different waves are ordered by the barriers, calls within a wave are not.
	waveRes := make([]mon.Snap, len(objs))
	for w := 0; w < len(objs); w += 16 {
		n := len(objs) - w
		if n > 16 {
			n = 16
		}
		// parsed BEFORE the barrier: after it the goroutines do nothing but lint, so the calls start together
		own := make([]*mon.Obj, n)
		for k := range own {
			own[k] = objs[w+k].Reparse()
		}
		c10Parallel(16, n, func(gi, k int) {
			if own[k] == nil {
				return
			}
			if rs, pv, _ := own[k].Lint(g); pv == nil && rs != nil {
				waveRes[w+k] = mon.SnapOf(rs)
			}
		})
		if w%1024 == 0 {
			c.Tick()
		}
	}
	c.R.Count("w4_waves", int64((len(objs)+15)/16))
	stopReaders := c10StartReaders(c, 2, 9000)
	res := make([]mon.Snap, len(objs))
	pvs := make([]any, len(objs))
	c10Parallel(16, len(objs), func(gi, k int) {
		own := objs[k].Reparse()
		if own == nil {
			return
		}
		rs, pv, stack := own.Lint(g)
		if pv != nil || rs == nil {
			pvs[k] = fmt.Sprintf("%v at %s", pv, mon.PanicSite(stack))
			return
		}
		res[k] = mon.SnapOf(rs)
	})
	stopReaders()
	for k := range objs {
		c.R.Count("evaluations", 1)
		if pvs[k] != nil {
			c.V("panic-under-concurrency|w4", fmt.Sprintf("Lint*Ex panicked while directed-family objects are linted concurrently: %v", pvs[k]), "", inputs(objs[k]), nil)
		}
	}
	c.Tick()
	day := today()
	runtime.GOMAXPROCS(1) // alone = one goroutine on one processor
	for k, o := range objs {
		if res[k] == nil {
			continue
		}
		rs, pv, _ := o.Lint(g)
		if pv != nil || rs == nil {
			continue
		}
		c.R.Count("w4_objects", 1)
		if waveRes[k] != nil {
			for _, d := range dropClock(day, mon.Diff(mon.SnapOf(rs), waveRes[k], false, false)) {
				name := strings.SplitN(d, ":", 2)[0]
				c.V("concurrent-differs|w4-wave|"+name, fmt.Sprintf("lint %s: the call made in a wave of 16 simultaneous calls on neighbouring directed-family objects (%s) differs from the same call made alone afterwards: %s", name, o.Name, clipS(d, 240)), name, inputs(o), nil)
			}
		}
		for _, d := range dropClock(day, mon.Diff(mon.SnapOf(rs), res[k], false, false)) {
			name := strings.SplitN(d, ":", 2)[0]
			c.V("concurrent-differs|w4|"+name, fmt.Sprintf("lint %s: the call made concurrently (directed-family object %s) differs from the same call made alone afterwards: %s", name, o.Name, clipS(d, 240)), name, inputs(o), nil)
		}
		c.Tick()
	}
	c.R.Sample(8, map[string]any{"workload": "W4 directed families, concurrent first", "objects": len(objs), "goroutines": 16})
}

var (
	reRaceFrame = regexp.MustCompile(`^\s{2}(\S+)\(`)
	reLineNo    = regexp.MustCompile(`:\d+( \+0x[0-9a-f]+)?$`)
)

// parseRaceLogs reads race.log.* and returns de-duplicated reports.
func parseRaceLogs(dir string) (total int, byKey map[string]string) {
	byKey = map[string]string{}
	files, _ := filepath.Glob(filepath.Join(dir, "race.log*"))
	for _, f := range files {
		b, err := os.ReadFile(f)
		if err != nil {
			continue
		}
		for _, blk := range strings.Split(string(b), "==================") {
			if !strings.Contains(blk, "WARNING: DATA RACE") {
				continue
			}
			if strings.Contains(blk, "c10Canary") {
				byKey["canary"] = blk
				continue
			}
			total++
			// the two access stacks: innermost zlint frame of each, line numbers stripped
			var keys []string
			cur := ""
			inAccess := false
			flush := func() {
				if inAccess {
					keys = append(keys, cur)
				}
				cur, inAccess = "", false
			}
			for _, l := range strings.Split(blk, "\n") {
				t := strings.TrimSpace(l)
				switch {
				case strings.HasPrefix(t, "Read at"), strings.HasPrefix(t, "Write at"), strings.HasPrefix(t, "Previous read at"), strings.HasPrefix(t, "Previous write at"), strings.HasPrefix(t, "Atomic"), strings.HasPrefix(t, "Previous atomic"):
					flush()
					inAccess = true
				case t == "" || strings.HasPrefix(t, "Goroutine"):
					flush()
				default:
					if inAccess && cur == "" {
						if m := reRaceFrame.FindStringSubmatch(l); m != nil && strings.Contains(m[1], "zmap/zlint") {
							cur = m[1]
						}
					}
				}
			}
			flush()
			sort.Strings(keys)
			k := strings.Join(keys, " <-> ")
			if k == "" || k == " <-> " {
				k = "outside-zlint:" + clipS(strings.TrimSpace(blk), 80)
			}
			if _, ok := byKey[k]; !ok {
				byKey[k] = blk
			}
		}
	}
	return
}

func init() {
	mon.Register(&mon.Check{
		ID:               "C10",
		CrashIsViolation: true,
		StallSecs:        300,
		Procs:            func(c *mon.Ctx) int { return c.Pick(5, 4) },
		Rule:             "built with the Go race detector (GORACE=halt_on_error=0 log_path=...; reports counted and de-duplicated by the innermost zlint frame pair, exit code not trusted; a deliberate canary race proves detector, log and parser work in every run). In every concurrent phase the linting goroutines are released by ONE barrier and joined by ONE Wait with NO monitor-side synchronisation in between (static partition of the work, per-item result slots, no shared counters, queues or watchdog ticks): every atomic or mutex the monitor would touch between two lint calls is a happens-before edge that hides races between calls that did not overlap in real time, so with it detection would depend on machine load; without it all calls of different goroutines are unordered for the detector whatever the schedule. W0 (cold start, in each worker process, before any other linting): G in {8,32,4,64} goroutines lint every seed in a worker-specific order, so lazily initialised state is first touched concurrently; baselines are computed afterwards and compared. W1: G in {2,8,32,128} goroutines lint their own parse of each object against shared registries (global, nil, filtered+configured) while 4 reader goroutines hammer Names/Sources/ByName/BySource/Lints/Filter/WriteJSON/DefaultConfiguration, at GOMAXPROCS in {1,2,4,16}; every result is compared with the sequential baseline. W2: for every lint, 16 goroutines execute that same lint on their own parsed objects (a lint counts when >= 2 goroutines executed it unordered). W3: concurrent Filter + lint on the fresh registries. W4: the directed families (code paths the corpus does not drive) are linted concurrently FIRST and alone afterwards. evaluations = concurrent lint executions; distinct_nontrivial = lints executed by several goroutines unordered with respect to each other.",
		Assumptions:      []string{"the race detector sees only executed code", "SetConfiguration concurrent with linting is a write the property does not include and is not exercised"},
		Setup:            c10Setup,
		Aux:              map[string]func(c *mon.Ctx){"volume": c10VolumeAux},
		WorkerEnv: func(c *mon.Ctx, work string) []string {
			return []string{"GORACE=halt_on_error=0 exitcode=0 log_path=" + filepath.Join(work, "race.log"), "GOMAXPROCS=8"}
		},
		Cases: func(c *mon.Ctx) int { return c.Pick(5, 21) },
		RunCase: func(c *mon.Ctx, i int) {
			c10ColdOnce.Do(func() { c10Canary(); c10Cold(c) })
			type w1 struct{ g, p int }
			quick := []w1{{8, 2}, {32, 16}}
			full := []w1{{2, 1}, {8, 1}, {2, 2}, {8, 2}, {32, 2}, {8, 4}, {32, 4}, {128, 4}, {8, 16}, {32, 16}, {128, 16}, {128, 2}}
			plan := quick
			if c.Thorough() {
				plan = full
			}
			switch {
			case i < len(plan):
				c10W1(c, plan[i].g, plan[i].p)
				c.R.Sample(8, map[string]any{"workload": "W1", "goroutines": plan[i].g, "GOMAXPROCS": plan[i].p, "objects": len(c10Objs), "registries": len(c10Regs), "readers": 4})
			case i == len(plan):
				c10W2(c, c.Pick(400, 5000))
				c.R.Sample(8, map[string]any{"workload": "W2 same-lint collision", "goroutines_per_lint": 16, "executions_per_lint": c.Pick(400, 5000), "overlapped_executions": c.R.Counters["w2_overlapped_executions"]})
			case i == len(plan)+1:
				c10W3(c, c.Pick(40, 600))
			case i == len(plan)+2:
				c10W4(c)
			default: // thorough: repeat W2/W3 (race reports vary from run to run)
				if i%2 == 0 {
					c10W2(c, 2000)
				} else {
					c10W3(c, 300)
				}
			}
		},
		Finish: func(c *mon.Ctx, r *mon.Report, ev *mon.Evidence) []string {
			var gates []string
			total, byKey := parseRaceLogs(c.Work)
			_, canary := byKey["canary"]
			delete(byKey, "canary")
			ev.Coverage["race_canary_detected"] = canary
			if !canary {
				gates = append(gates, "the deliberate canary race was not reported: race detector / GORACE log / parser not effective in this run")
			}
			ev.Coverage["race_reports_total"] = total
			ev.Coverage["race_reports_distinct"] = len(byKey)
			for k, blk := range byKey {
				r.Violate(mon.Violation{Property: c.Prop, Key: c.Prop + "|data-race|" + k, What: "data race reported by the Go race detector between " + k, Tier: c.Tier, Seed: c.Seed, Case: -1, Extra: map[string]any{"report": clipS(blk, 6000)}})
			}
			ev.Coverage["distinct_nontrivial"] = r.SetSize("w2_lints_overlapped")
			ev.Coverage["w2_lints_overlapped"] = r.SetSize("w2_lints_overlapped")
			ev.Coverage["w2_lints_little_overlap"] = r.SetKeys("w2_lints_little_overlap")
			ev.Coverage["w2_no_applicable_object"] = r.SetKeys("w2_no_applicable_object")
			ev.Coverage["w1_configurations"] = r.SetKeys("w1_configs")
			ev.Coverage["race_detector_enabled"] = raceEnabled
			if !raceEnabled {
				gates = append(gates, "the harness was not built with -race")
			}
			ev.Coverage["cold_start_configurations"] = r.SetKeys("cold_configs")
			if r.Counters["cold_concurrent_lint_calls"] < 1000 {
				gates = append(gates, "cold-start phase observed too little")
			}
			if r.Counters["concurrent_lint_calls"] < 500 || r.Counters["registry_reads"] < 100 {
				gates = append(gates, "W1 observed too little")
			}
			if r.SetSize("w2_lints_overlapped") < len(Inv)*8/10 {
				gates = append(gates, fmt.Sprintf("only %d of %d lints overlapped themselves", r.SetSize("w2_lints_overlapped"), len(Inv)))
			}
			ev.Coverage["w4_directed_objects_linted_concurrently_first"] = r.Counters["w4_objects"]
			if r.Counters["w4_objects"] < 1000 {
				gates = append(gates, "W4 (directed families, concurrent first) observed too little")
			}
			if r.Counters["w3_filter_and_lint"] < 100 {
				gates = append(gates, "W3 observed too little")
			}
			gates = append(gates, c10VolumePhase(c, r, ev)...)
			return gates
		},
	})
}
