package checks

import (
	"bytes"
	"fmt"
	"os"
	"path/filepath"
	"regexp"
	"runtime"
	"sort"
	"strings"
	"sync"
	"sync/atomic"

	"github.com/zmap/zlint/v3/lint"

	"verif/corpus"
	"verif/mon"
)

// C10 - concurrent linting is safe and equals sequential linting.
// Built with -race by bin/check; one worker process, many goroutines.

type c10Obj struct {
	o    *mon.Obj
	base map[int]mon.Snap // registry index -> sequential baseline
}

var (
	c10Objs []*c10Obj // W1/W3 subset, baselines under every registry
	c10All  []*c10Obj // every seed, baseline under the global registry only (W2 applicability)
	c10Regs []regCfg
)

var c10CanaryVar int

// c10Canary is a deliberate data race on a harness variable: it proves that
// the detector, GORACE's log_path and the report parser work in this run.
// Reports mentioning c10Canary are counted and never treated as violations.
func c10Canary() {
	var wg sync.WaitGroup
	for k := 0; k < 2; k++ {
		wg.Add(1)
		go func(k int) {
			defer wg.Done()
			for n := 0; n < 1000; n++ {
				c10CanaryVar += k
			}
		}(k)
	}
	wg.Wait()
}

func c10Setup(c *mon.Ctx) error {
	if err := setupCommon(c); err != nil {
		return err
	}
	g := lint.GlobalRegistry()
	c10Regs = []regCfg{{g, "global"}, {nil, "nil (global)"}}
	rng := c.Rng(-10, 0)
	cfgs := basicConfigs()
	for len(c10Regs) < 6 {
		o := randFilter(rng, false)
		if o.Empty() {
			continue
		}
		r, err := g.Filter(o)
		if err != nil || len(r.Names()) < 20 {
			continue
		}
		r.SetConfiguration(mustConfig(cfgs[len(c10Regs)%3].Text))
		c10Regs = append(c10Regs, regCfg{r, "filter{" + describeFilter(o) + "}"})
	}
	return nil // no lint has run yet in this process: baselines are computed AFTER the cold-start phase
}

var c10ColdOnce sync.Once

// c10Cold is the first linting this process ever does: G goroutines lint every seed (each its own parse, in a
// worker-specific order) against the shared registries at once, so that lazily initialised state (caches filled
// on first use, sync.Once, memo tables) is first touched concurrently. A sequential warm-up would hide exactly
// the races that only exist on first use. Sequential baselines are computed afterwards and compared.
func c10Cold(c *mon.Ctx) {
	G := []int{8, 32, 4, 64}[c.Shard%4]
	runtime.GOMAXPROCS([]int{16, 16, 4, 8}[c.Shard%4])
	order := c.Rng(-77, c.Shard).Perm(len(W.Objs))
	type got struct {
		ri int
		s  mon.Snap
	}
	res := make([]got, len(W.Objs))
	var next atomic.Int64
	var wg sync.WaitGroup
	stopReaders := c10StartReaders(c, 3, 7000+c.Shard)
	defer stopReaders()
	for gi := 0; gi < G; gi++ {
		wg.Add(1)
		go func(gi int) {
			defer wg.Done()
			defer c10Recover(c, "cold")
			for {
				k := int(next.Add(1)) - 1
				if k >= len(order) {
					return
				}
				idx := order[k]
				own := W.Objs[idx].Reparse()
				if own == nil {
					continue
				}
				ri := 0
				if k%4 == 3 {
					ri = 2 + k%(len(c10Regs)-2)
				}
				rs, pv, stack := own.Lint(c10Regs[ri].reg)
				c.R.Count("evaluations", 1)
				c.R.Count("cold_concurrent_lint_calls", 1)
				if pv != nil || rs == nil {
					c.V("panic-under-concurrency|cold", fmt.Sprintf("Lint*Ex panicked during the cold-start phase (%d goroutines): %v at %s", G, pv, mon.PanicSite(stack)), "", inputs(W.Objs[idx]), map[string]any{"stack": stack})
					continue
				}
				res[idx] = got{ri, mon.SnapOf(rs)}
				c.Tick()
			}
		}(gi)
	}
	wg.Wait()
	// now the sequential baselines
	day := today()
	stride := c.Pick(5, 1)
	for i, o := range W.Objs {
		sub := !(o.Kind == corpus.Cert && i%stride != int(uint64(c.Seed)%uint64(stride)))
		co := &c10Obj{o: o, base: map[int]mon.Snap{}}
		c10All = append(c10All, co)
		for ri, rc := range c10Regs {
			if !sub && ri > 0 && ri != res[i].ri {
				continue
			}
			rs, pv, _ := o.Lint(rc.reg)
			if pv != nil || rs == nil {
				continue
			}
			co.base[ri] = mon.SnapOf(rs)
		}
		if sub {
			c10Objs = append(c10Objs, co)
		}
		if res[i].s != nil {
			if base, ok := co.base[res[i].ri]; ok {
				for _, d := range dropClock(day, mon.Diff(base, res[i].s, false, false)) {
					name := strings.SplitN(d, ":", 2)[0]
					c.V("concurrent-differs|cold|"+name, fmt.Sprintf("lint %s: the call made concurrently at process start differs from the same call made alone afterwards (G=%d): %s", name, G, clipS(d, 240)), name, inputs(o), nil)
				}
			}
		}
		c.Tick()
	}
	c.R.Distinct("cold_configs", fmt.Sprintf("shard=%d,G=%d", c.Shard, G))
}

// w1: G linters over shared registries + registry readers.
func c10W1(c *mon.Ctx, G, procs int) {
	old := runtime.GOMAXPROCS(procs)
	defer runtime.GOMAXPROCS(old)
	day := today()
	stopReaders := c10StartReaders(c, 4, G*100+procs)
	var wg sync.WaitGroup
	var next atomic.Int64
	total := int64(len(c10Objs) * 2)
	for gi := 0; gi < G; gi++ {
		wg.Add(1)
		go func(gi int) {
			defer wg.Done()
			defer c10Recover(c, "linter")
			for {
				k := next.Add(1) - 1
				if k >= total {
					return
				}
				co := c10Objs[int(k)%len(c10Objs)]
				ri := (int(k) + gi) % len(c10Regs)
				base, ok := co.base[ri]
				if !ok {
					continue
				}
				own := co.o.Reparse() // every goroutine lints its own parsed object
				if own == nil {
					continue
				}
				rs, pv, stack := own.Lint(c10Regs[ri].reg)
				c.R.Count("evaluations", 1)
				c.R.Count("concurrent_lint_calls", 1)
				if pv != nil || rs == nil {
					c.V("panic-under-concurrency", fmt.Sprintf("Lint*Ex panicked while %d goroutines lint concurrently: %v at %s", G, pv, mon.PanicSite(stack)), "", inputs(co.o), map[string]any{"stack": stack})
					continue
				}
				for _, d := range dropClock(day, mon.Diff(base, mon.SnapOf(rs), false, false)) {
					name := strings.SplitN(d, ":", 2)[0]
					c.V("concurrent-differs|"+name, fmt.Sprintf("lint %s: the concurrent call differs from the same call made alone (G=%d, GOMAXPROCS=%d, registry %s): %s", name, G, procs, c10Regs[ri].label, clipS(d, 240)), name, inputs(co.o), nil)
				}
				c.Tick()
			}
		}(gi)
	}
	wg.Wait()
	stopReaders()
	c.R.Distinct("w1_configs", fmt.Sprintf("G=%d,GOMAXPROCS=%d", G, procs))
}

// c10StartReaders starts n goroutines that hammer the registry API (every operation in turn, on every shared
// registry) until the returned stop function is called; each reader does at least 160 operations.
func c10StartReaders(c *mon.Ctx, n, stream int) (stop func()) {
	g := lint.GlobalRegistry()
	var stopFlag atomic.Bool
	var readers sync.WaitGroup
	var reads atomic.Int64
	for r := 0; r < n; r++ {
		readers.Add(1)
		go func(r int) {
			defer readers.Done()
			defer c10Recover(c, "reader")
			rng := c.Rng(-100-r, stream)
			for k := 0; !stopFlag.Load() || k < 160; k++ {
				reg := c10Regs[(k/8+r)%len(c10Regs)].reg
				if reg == nil {
					reg = g
				}
				switch (k + r) % 8 {
				case 0:
					n := reg.Names()
					if !sort.StringsAreSorted(n) {
						c.V("names-unsorted-under-concurrency", "Names() observed unsorted while other goroutines lint", "", nil, nil)
					}
				case 1:
					_ = reg.Sources()
					_ = reg.CertificateLints().Names()
					_ = reg.RevocationListLints().Names()
					_ = reg.OcspResponseLints().Names()
					_ = reg.CertificateLints().Sources()
					_ = reg.RevocationListLints().Sources()
					_ = reg.OcspResponseLints().Sources()
				case 2:
					n := Inv[rng.Intn(len(Inv))].Name
					_ = reg.CertificateLints().ByName(n)
					_ = reg.RevocationListLints().ByName(n)
					_ = reg.OcspResponseLints().ByName(n)
				case 3:
					_ = reg.CertificateLints().BySource(lint.CABFBaselineRequirements)
					_ = reg.RevocationListLints().BySource(lint.RFC5280)
					_ = reg.OcspResponseLints().BySource(lint.RFC6960)
				case 4:
					_ = reg.CertificateLints().Lints()
					_ = reg.RevocationListLints().Lints()
					_ = reg.OcspResponseLints().Lints()
				case 5:
					if f, err := reg.Filter(randFilter(rng, false)); err == nil {
						_ = f.Names()
					}
				case 6:
					var buf bytes.Buffer
					reg.WriteJSON(&buf)
				case 7:
					_, _ = reg.DefaultConfiguration()
				}
				reads.Add(1)
				c.Tick()
			}
		}(r)
	}
	return func() {
		stopFlag.Store(true)
		readers.Wait()
		c.R.Count("registry_reads", reads.Load())
	}
}

func c10Recover(c *mon.Ctx, who string) {
	if r := recover(); r != nil {
		c.V("goroutine-panic|"+who, fmt.Sprintf("%s goroutine panicked: %v", who, r), "", nil, nil)
	}
}

// w2: the same lint overlapping itself on distinct certificates.
func c10W2(c *mon.Ctx, perLint int) {
	runtime.GOMAXPROCS(16)
	g := lint.GlobalRegistry()
	cfg := g.GetConfiguration()
	// applicable objects per lint, from the sequential baselines
	applic := map[string][]*c10Obj{}
	for _, co := range c10All {
		for n, sd := range co.base[0] {
			if sd.Status != int(lint.NA) {
				applic[n] = append(applic[n], co)
			}
		}
	}
	const G = 16
	stopReaders := c10StartReaders(c, 2, 8000)
	defer stopReaders()
	for _, li := range Inv {
		objs := applic[li.Name]
		if len(objs) == 0 {
			c.R.Distinct("w2_no_applicable_object", li.Name)
			continue
		}
		var inflight, maxInflight, overlapped atomic.Int64
		start := make(chan struct{})
		var wg sync.WaitGroup
		per := perLint/G + 1
		for gi := 0; gi < G; gi++ {
			wg.Add(1)
			go func(gi int) {
				defer wg.Done()
				defer c10Recover(c, "w2:"+li.Name)
				own := objs[gi%len(objs)].o.Reparse()
				if own == nil {
					return
				}
				want := objs[gi%len(objs)].base[0][li.Name]
				<-start
				for k := 0; k < per; k++ {
					n := inflight.Add(1)
					if n > 1 {
						overlapped.Add(1)
					}
					for {
						m := maxInflight.Load()
						if n <= m || maxInflight.CompareAndSwap(m, n) {
							break
						}
					}
					var r *lint.LintResult
					switch li.Kind {
					case corpus.Cert:
						r = li.CertL.Execute(own.Cert, cfg)
					case corpus.CRL:
						r = li.CrlL.Execute(own.CRL, cfg)
					default:
						r = li.OcspL.Execute(own.OCSP, cfg)
					}
					inflight.Add(-1)
					c.R.Count("evaluations", 1)
					if r == nil || int(r.Status) != want.Status || r.Details != want.Details {
						if !c05ClockLints[li.Name] {
							c.V("self-overlap-differs|"+li.Name, fmt.Sprintf("lint %s executed concurrently with itself returns %v, alone it returned %s %q", li.Name, r, lint.LintStatus(want.Status), clipS(want.Details, 80)), li.Name, inputs(own), nil)
						}
					}
				}
			}(gi)
		}
		close(start)
		wg.Wait()
		c.Tick()
		if overlapped.Load() >= 10 {
			c.R.Distinct("w2_lints_overlapped", li.Name)
		} else {
			c.R.Distinct("w2_lints_little_overlap", fmt.Sprintf("%s(%d)", li.Name, overlapped.Load()))
		}
		c.R.Count("w2_overlapped_executions", overlapped.Load())
	}
}

// w3: concurrent Filter + lint on the freshly filtered registries.
func c10W3(c *mon.Ctx, rounds int) {
	runtime.GOMAXPROCS(16)
	g := lint.GlobalRegistry()
	var wg sync.WaitGroup
	stopReaders := c10StartReaders(c, 2, 9000)
	defer stopReaders()
	for gi := 0; gi < 16; gi++ {
		wg.Add(1)
		go func(gi int) {
			defer wg.Done()
			defer c10Recover(c, "w3")
			rng := c.Rng(-300-gi, 0)
			for k := 0; k < rounds; k++ {
				o := randFilter(rng, false)
				r, err := g.Filter(o)
				if err != nil {
					continue
				}
				co := c10Objs[rng.Intn(len(c10Objs))]
				own := co.o.Reparse()
				if own == nil {
					continue
				}
				rs, pv, _ := own.Lint(r)
				c.R.Count("evaluations", 1)
				c.R.Count("w3_filter_and_lint", 1)
				if pv != nil || rs == nil {
					c.V("panic-under-concurrency|w3", fmt.Sprintf("lint on a freshly filtered registry panicked under concurrency: %v", pv), "", inputs(co.o), nil)
					continue
				}
				got := mon.SnapOf(rs)
				// the filtered registry has no configuration of its own: compare with the global baseline restricted
				for n, sd := range got {
					if b, ok := co.base[0][n]; ok && b != sd && !c05ClockLints[n] {
						c.V("concurrent-differs|w3|"+n, fmt.Sprintf("lint %s on a concurrently filtered registry differs from the sequential baseline: %v vs %v", n, sd, b), n, inputs(co.o), nil)
					}
				}
				c.Tick()
			}
		}(gi)
	}
	wg.Wait()
}

var (
	reRaceFrame = regexp.MustCompile(`^\s{2}(\S+)\(`)
	reLineNo    = regexp.MustCompile(`:\d+( \+0x[0-9a-f]+)?$`)
)

// parseRaceLogs reads race.log.* and returns de-duplicated reports.
func parseRaceLogs(dir string) (total int, byKey map[string]string) {
	byKey = map[string]string{}
	files, _ := filepath.Glob(filepath.Join(dir, "race.log*"))
	for _, f := range files {
		b, err := os.ReadFile(f)
		if err != nil {
			continue
		}
		for _, blk := range strings.Split(string(b), "==================") {
			if !strings.Contains(blk, "WARNING: DATA RACE") {
				continue
			}
			if strings.Contains(blk, "c10Canary") {
				byKey["canary"] = blk
				continue
			}
			total++
			// the two access stacks: innermost zlint frame of each, line numbers stripped
			var keys []string
			cur := ""
			inAccess := false
			flush := func() {
				if inAccess {
					keys = append(keys, cur)
				}
				cur, inAccess = "", false
			}
			for _, l := range strings.Split(blk, "\n") {
				t := strings.TrimSpace(l)
				switch {
				case strings.HasPrefix(t, "Read at"), strings.HasPrefix(t, "Write at"), strings.HasPrefix(t, "Previous read at"), strings.HasPrefix(t, "Previous write at"), strings.HasPrefix(t, "Atomic"), strings.HasPrefix(t, "Previous atomic"):
					flush()
					inAccess = true
				case t == "" || strings.HasPrefix(t, "Goroutine"):
					flush()
				default:
					if inAccess && cur == "" {
						if m := reRaceFrame.FindStringSubmatch(l); m != nil && strings.Contains(m[1], "zmap/zlint") {
							cur = m[1]
						}
					}
				}
			}
			flush()
			sort.Strings(keys)
			k := strings.Join(keys, " <-> ")
			if k == "" || k == " <-> " {
				k = "outside-zlint:" + clipS(strings.TrimSpace(blk), 80)
			}
			if _, ok := byKey[k]; !ok {
				byKey[k] = blk
			}
		}
	}
	return
}

func init() {
	mon.Register(&mon.Check{
		ID:               "C10",
		CrashIsViolation: true,
		StallSecs:        300,
		Procs:            func(c *mon.Ctx) int { return 4 },
		Rule:             "built with the Go race detector (GORACE=halt_on_error=0 log_path=...; reports counted and de-duplicated by the innermost zlint frame pair, exit code not trusted). W0 (cold start, in each of 4 worker processes, before any other linting): G in {8,32,4,64} goroutines lint every seed concurrently in a worker-specific order, so lazily initialised state is first touched concurrently; baselines are computed afterwards and compared. W1: G in {2,8,32,128} goroutines lint their own parse of each object against shared registries (global, nil, filtered+configured) while 4 reader goroutines hammer Names/Sources/ByName/BySource/Lints/Filter/WriteJSON/DefaultConfiguration, at GOMAXPROCS in {1,2,4,16}; every result is compared with the sequential baseline. W2: for every lint, 16 goroutines released by a barrier execute that same lint on their own certificates (per-lint overlap measured with in-flight counters; a lint counts as overlapped with >= 10 overlapping executions). W3: concurrent Filter + lint on the fresh registries. evaluations = concurrent lint executions; distinct_nontrivial = lints that were observed overlapping themselves.",
		Assumptions:      []string{"the race detector sees only executed code", "SetConfiguration concurrent with linting is a write the property does not include and is not exercised"},
		Setup:            c10Setup,
		WorkerEnv: func(c *mon.Ctx, work string) []string {
			return []string{"GORACE=halt_on_error=0 exitcode=0 log_path=" + filepath.Join(work, "race.log"), "GOMAXPROCS=8"}
		},
		Cases: func(c *mon.Ctx) int { return c.Pick(4, 20) },
		RunCase: func(c *mon.Ctx, i int) {
			c10ColdOnce.Do(func() { c10Canary(); c10Cold(c) })
			type w1 struct{ g, p int }
			quick := []w1{{8, 2}, {32, 16}}
			full := []w1{{2, 1}, {8, 1}, {2, 2}, {8, 2}, {32, 2}, {8, 4}, {32, 4}, {128, 4}, {8, 16}, {32, 16}, {128, 16}, {128, 2}}
			plan := quick
			if c.Thorough() {
				plan = full
			}
			switch {
			case i < len(plan):
				c10W1(c, plan[i].g, plan[i].p)
				c.R.Sample(8, map[string]any{"workload": "W1", "goroutines": plan[i].g, "GOMAXPROCS": plan[i].p, "objects": len(c10Objs), "registries": len(c10Regs), "readers": 4})
			case i == len(plan):
				c10W2(c, c.Pick(400, 5000))
				c.R.Sample(8, map[string]any{"workload": "W2 same-lint collision", "goroutines_per_lint": 16, "executions_per_lint": c.Pick(400, 5000), "overlapped_executions": c.R.Counters["w2_overlapped_executions"]})
			case i == len(plan)+1:
				c10W3(c, c.Pick(40, 600))
			default: // thorough: repeat W2/W3 (race reports vary from run to run)
				if i%2 == 0 {
					c10W2(c, 2000)
				} else {
					c10W3(c, 300)
				}
			}
		},
		Finish: func(c *mon.Ctx, r *mon.Report, ev *mon.Evidence) []string {
			var gates []string
			total, byKey := parseRaceLogs(c.Work)
			_, canary := byKey["canary"]
			delete(byKey, "canary")
			ev.Coverage["race_canary_detected"] = canary
			if !canary {
				gates = append(gates, "the deliberate canary race was not reported: race detector / GORACE log / parser not effective in this run")
			}
			ev.Coverage["race_reports_total"] = total
			ev.Coverage["race_reports_distinct"] = len(byKey)
			for k, blk := range byKey {
				r.Violate(mon.Violation{Property: c.Prop, Key: c.Prop + "|data-race|" + k, What: "data race reported by the Go race detector between " + k, Tier: c.Tier, Seed: c.Seed, Case: -1, Extra: map[string]any{"report": clipS(blk, 6000)}})
			}
			ev.Coverage["distinct_nontrivial"] = r.SetSize("w2_lints_overlapped")
			ev.Coverage["w2_lints_overlapped"] = r.SetSize("w2_lints_overlapped")
			ev.Coverage["w2_lints_little_overlap"] = r.SetKeys("w2_lints_little_overlap")
			ev.Coverage["w2_no_applicable_object"] = r.SetKeys("w2_no_applicable_object")
			ev.Coverage["w1_configurations"] = r.SetKeys("w1_configs")
			ev.Coverage["race_detector_enabled"] = raceEnabled
			if !raceEnabled {
				gates = append(gates, "the harness was not built with -race")
			}
			ev.Coverage["cold_start_configurations"] = r.SetKeys("cold_configs")
			if r.Counters["cold_concurrent_lint_calls"] < 1000 {
				gates = append(gates, "cold-start phase observed too little")
			}
			if r.Counters["concurrent_lint_calls"] < 500 || r.Counters["registry_reads"] < 100 {
				gates = append(gates, "W1 observed too little")
			}
			if r.SetSize("w2_lints_overlapped") < len(Inv)*8/10 {
				gates = append(gates, fmt.Sprintf("only %d of %d lints overlapped themselves", r.SetSize("w2_lints_overlapped"), len(Inv)))
			}
			if r.Counters["w3_filter_and_lint"] < 100 {
				gates = append(gates, "W3 observed too little")
			}
			return gates
		},
	})
}
