package checks

import (
	"bytes"
	"encoding/binary"
	"encoding/json"
	"fmt"
	"math/big"
	"os"
	"os/exec"
	"path/filepath"
	"regexp"
	"runtime"
	"runtime/debug"
	"strings"
	"sync"
	"sync/atomic"
	"time"

	"github.com/zmap/zlint/v3/lint"

	"verif/corpus"
	"verif/gen"
	"verif/mon"
)

// C10 volume phase (own process, the plain - not race-instrumented - flavour of the harness).
//
// "Any number of goroutines may lint ... without deadlocks": the other phases overlap a few thousand calls on a
// thousand distinct objects. What they cannot show is behaviour that only sets in after a process has seen MANY
// different objects - a bounded memo that is reset when full, a pool that runs dry, a table that is rebuilt every N
// entries - and that goes wrong exactly there (a lock not released on the "full" path, a reset racing with readers).
// This phase streams N pairwise different certificates (different RSA modulus, serial number, subject common name and
// dNSName; quick N = 150 000 > 2^17, thorough 1 200 000 > 2^20) through ONE shared global registry from 16 goroutines.
// Oracle: every call returns (progress counter; no progress for the watchdog period => the goroutine dump decides: all
// linting goroutines blocked in a sync primitive below a zlint frame => deadlock, anything else inconclusive); a
// sample of the stream is linted again ALONE afterwards and must equal what the concurrent call returned.

type volOutcome struct {
	N          int      `json:"n"`
	Done       int64    `json:"done"`
	Stalled    bool     `json:"stalled"`
	Dump       string   `json:"dump,omitempty"`
	Recompared int      `json:"recompared"`
	Differs    []string `json:"differs,omitempty"`
	Panics     []string `json:"panics,omitempty"`
	Rejected   int64    `json:"rejected"`
	WallS      float64  `json:"wall_s"`
}

func c10VolumeN(c *mon.Ctx) int { return c.Pick(150000, 1200000) }

// volTemplate: one certificate with marker bytes at the places that are made different per object.
func volTemplate() (tmpl []byte, offMod, offSerial, offCN, offSAN int, err error) {
	// a 512-bit modulus: what matters here is that the keys DIFFER, and the cost of the arithmetic lints (Fermat rounds,
	// trial division) grows steeply with the size - 150 000 keys of 2048 bits would take minutes
	nb := make([]byte, 64)
	for i := range nb {
		nb[i] = byte(0x9d + 37*i)
	}
	nb[0] |= 0x80
	nb[63] |= 1
	mark := []byte{0xA5, 0x5A, 0xC3, 0x3C, 0x96, 0x69, 0x0F, 0xF0}
	copy(nb[24:], mark)
	n := new(big.Int).SetBytes(nb)
	name := "h00000000.vol.example.com"
	s := gen.TLSLeaf(gen.D(2024, 3, 1), name)
	s.SPKI = gen.RSASPKI(n, big.NewInt(65537))
	s.Serial = new(big.Int).SetBytes([]byte{0x51, 0xE7, 0x1A, 0x10, 0x00, 0x00, 0x00, 0x00, 0x77})
	tmpl = s.DER()
	offMod = bytes.Index(tmpl, mark)
	offSerial = bytes.Index(tmpl, []byte{0x51, 0xE7, 0x1A, 0x10, 0x00, 0x00, 0x00, 0x00, 0x77})
	offCN = bytes.Index(tmpl, []byte(name))
	offSAN = bytes.LastIndex(tmpl, []byte(name))
	if offMod < 0 || offSerial < 0 || offCN < 0 || offSAN <= offCN {
		return nil, 0, 0, 0, 0, fmt.Errorf("volume template: markers not found")
	}
	return
}

func volObject(tmpl []byte, offMod, offSerial, offCN, offSAN int, i int) []byte {
	b := append([]byte{}, tmpl...)
	binary.BigEndian.PutUint32(b[offMod:], uint32(i)*2654435761+12345)
	binary.BigEndian.PutUint32(b[offMod+4:], uint32(i))
	binary.BigEndian.PutUint32(b[offSerial+4:], uint32(i))
	label := fmt.Sprintf("h%08x", uint32(i))
	copy(b[offCN:], label)
	copy(b[offSAN:], label)
	return b
}

func c10VolumeAux(c *mon.Ctx) {
	out := volOutcome{N: c10VolumeN(c)}
	t0 := time.Now()
	// the live heap is a few MB while every call allocates some hundred KB: with the default GC target the collector
	// runs continuously and its stop-the-world phases serialise the 16 goroutines (measured: 3.5 of 16 cores busy)
	debug.SetGCPercent(4000)
	write := func() {
		out.WallS = time.Since(t0).Seconds()
		b, _ := json.Marshal(out)
		_ = os.WriteFile(os.Getenv("VERIF_VOL_OUT"), b, 0o644)
	}
	tmpl, oM, oS, oC, oA, err := volTemplate()
	if err != nil {
		out.Panics = append(out.Panics, err.Error())
		write()
		return
	}
	g := lint.GlobalRegistry()
	const G = 16
	var done, rejected atomic.Int64
	every := 997
	type kept struct {
		i    int
		snap mon.Snap
	}
	keptBy := make([][]kept, G)
	var pmu sync.Mutex
	var wg sync.WaitGroup
	finished := make(chan struct{})
	for w := 0; w < G; w++ {
		wg.Add(1)
		go func(w int) {
			defer wg.Done()
			defer func() {
				if r := recover(); r != nil {
					pmu.Lock()
					out.Panics = append(out.Panics, fmt.Sprint(r))
					pmu.Unlock()
				}
			}()
			for i := w; i < out.N; i += G {
				o, _ := mon.ParseObj(corpus.Cert, "vol", volObject(tmpl, oM, oS, oC, oA, i))
				if o == nil {
					rejected.Add(1)
					done.Add(1)
					continue
				}
				rs, pv, _ := o.Lint(g)
				if pv != nil {
					pmu.Lock()
					if len(out.Panics) < 5 {
						out.Panics = append(out.Panics, fmt.Sprint(pv))
					}
					pmu.Unlock()
				} else if i%every == 0 && rs != nil {
					keptBy[w] = append(keptBy[w], kept{i, mon.SnapOf(rs)})
				}
				done.Add(1)
			}
		}(w)
	}
	go func() { wg.Wait(); close(finished) }()
	last, lastChange := int64(-1), time.Now()
	stall := 60 * time.Second
	tick := time.NewTicker(500 * time.Millisecond)
	defer tick.Stop()
loop:
	for {
		select {
		case <-finished:
			break loop
		case <-tick.C:
			if d := done.Load(); d != last {
				last, lastChange = d, time.Now()
			} else if time.Since(lastChange) > stall {
				buf := make([]byte, 4<<20)
				buf = buf[:runtime.Stack(buf, true)]
				out.Stalled, out.Done, out.Dump = true, d, string(buf)
				out.Rejected = rejected.Load()
				write()
				os.Exit(0)
			}
		}
	}
	out.Done, out.Rejected = done.Load(), rejected.Load()
	// the same calls made alone
	for w := range keptBy {
		for _, k := range keptBy[w] {
			o, _ := mon.ParseObj(corpus.Cert, "vol", volObject(tmpl, oM, oS, oC, oA, k.i))
			if o == nil {
				continue
			}
			rs, pv, _ := o.Lint(g)
			if pv != nil || rs == nil {
				continue
			}
			out.Recompared++
			if d := mon.Diff(k.snap, mon.SnapOf(rs), false, false); len(d) > 0 && len(out.Differs) < 10 {
				out.Differs = append(out.Differs, fmt.Sprintf("object #%d: %s", k.i, clipS(strings.Join(d, "; "), 400)))
			}
		}
	}
	write()
}

var volFrameRe = regexp.MustCompile(`github\.com/zmap/zlint/v3/[\w/.\-]+(?:\(\*?\w+\))?[\w.]*`)

// c10VolumePhase (driver side): runs the plain flavour in -aux volume mode and judges what it wrote.
func c10VolumePhase(c *mon.Ctx, r *mon.Report, ev *mon.Evidence) []string {
	bin := os.Getenv("VERIF_PLAIN_BIN")
	if bin == "" {
		return []string{"volume phase: no plain-flavour binary (VERIF_PLAIN_BIN)"}
	}
	outFile := filepath.Join(c.Work, "volume.json")
	cmd := exec.Command(bin, c.Prop, c.Tier, "-aux", "volume", "-work", c.Work)
	cmd.Env = append(os.Environ(), "VERIF_VOL_OUT="+outFile, "GOMAXPROCS=16")
	done := make(chan error, 1)
	var outb bytes.Buffer
	cmd.Stdout, cmd.Stderr = &outb, &outb
	if err := cmd.Start(); err != nil {
		return []string{"volume phase: " + err.Error()}
	}
	go func() { done <- cmd.Wait() }()
	select {
	case err := <-done:
		if err != nil {
			return []string{"volume phase: child failed: " + err.Error() + ": " + clipS(outb.String(), 400)}
		}
	case <-time.After(45 * time.Minute):
		_ = cmd.Process.Kill()
		return []string{"volume phase: child exceeded the outer watchdog (inconclusive)"}
	}
	b, err := os.ReadFile(outFile)
	if err != nil {
		return []string{"volume phase: no outcome written: " + clipS(outb.String(), 400)}
	}
	var o volOutcome
	if err := json.Unmarshal(b, &o); err != nil {
		return []string{"volume phase: " + err.Error()}
	}
	ev.Coverage["volume_distinct_objects_streamed"] = o.Done
	ev.Coverage["volume_recompared_alone"] = o.Recompared
	ev.Coverage["volume_wall_s"] = o.WallS
	var gates []string
	for _, p := range o.Panics {
		r.Violate(mon.Violation{Property: c.Prop, Key: c.Prop + "|volume-panic", What: "panic while streaming distinct certificates through a shared registry: " + clipS(p, 300), Tier: c.Tier, Seed: c.Seed, Case: -1})
	}
	for _, d := range o.Differs {
		r.Violate(mon.Violation{Property: c.Prop, Key: c.Prop + "|concurrent-differs|volume", What: "a call made while many distinct certificates were being linted concurrently returned something else than the same call made alone: " + d, Tier: c.Tier, Seed: c.Seed, Case: -1})
	}
	if o.Stalled {
		// all linting goroutines parked in a sync primitive below a zlint frame?
		blocked, zl := 0, map[string]int{}
		for _, gr := range strings.Split(o.Dump, "\n\n") {
			if !strings.Contains(gr, "c10VolumeAux") {
				continue
			}
			if strings.Contains(gr, "sync.(*RWMutex)") || strings.Contains(gr, "sync.(*Mutex)") || strings.Contains(gr, "sync.runtime_Semacquire") || strings.Contains(gr, "sync.(*Cond)") || strings.Contains(gr, "[chan ") || strings.Contains(gr, "[select") || strings.Contains(gr, "[sync.") || strings.Contains(gr, "[semacquire") {
				if f := volFrameRe.FindString(gr); f != "" {
					blocked++
					zl[f]++
				}
			}
		}
		best, bn := "", 0
		for f, n := range zl {
			if n > bn {
				best, bn = f, n
			}
		}
		if blocked > 0 {
			r.Violate(mon.Violation{Property: c.Prop, Key: c.Prop + "|deadlock|" + best, What: fmt.Sprintf("after %d of %d distinct certificates no Lint call returned for 60 s; %d linting goroutines are blocked in a synchronisation primitive below %s", o.Done, o.N, blocked, best), Tier: c.Tier, Seed: c.Seed, Case: -1, Extra: map[string]any{"goroutine_dump": clipS(o.Dump, 20000)}})
		} else {
			gates = append(gates, fmt.Sprintf("volume phase stalled after %d objects but no linting goroutine is blocked below a zlint frame (inconclusive)", o.Done))
		}
		return gates
	}
	if o.Done < int64(o.N) || o.Recompared < o.N/997/2 {
		gates = append(gates, fmt.Sprintf("volume phase observed too little (%d of %d streamed, %d recompared, %d rejected by the parser)", o.Done, o.N, o.Recompared, o.Rejected))
	}
	if o.Rejected > int64(o.N)/100 {
		gates = append(gates, fmt.Sprintf("volume phase: the parser rejected %d generated certificates (harness problem)", o.Rejected))
	}
	return gates
}
