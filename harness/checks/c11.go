package checks

import (
	"errors"
	"fmt"
	"io"
	"math/big"
	"os"
	"path/filepath"
	"reflect"
	"sort"
	"strings"
	"testing/iotest"
	"time"

	toml "github.com/pelletier/go-toml"
	"github.com/zmap/zcrypto/x509"
	"github.com/zmap/zlint/v3/lint"
	"golang.org/x/crypto/ocsp"

	"verif/corpus"
	"verif/der"
	"verif/gen"
	"verif/mon"
)

// C11 - configuration changes only what it names, and errors stay local.

type cfgField struct {
	Name string
	Kind reflect.Kind
}

type cfgLint struct {
	info   mon.LintInfo
	fields []cfgField
}

var (
	c11Lints []cfgLint
	c11Objs  []*mon.Obj
	// c11Pristine: no-configuration results taken once per process, before any configuration was ever installed
	c11Pristine = map[string]mon.Snap{}
)

func c11TakePristine() {
	g := lint.GlobalRegistry()
	for _, o := range c11Objs {
		if _, ok := c11Pristine[o.Name]; ok {
			continue
		}
		if fo := o.Reparse(); fo != nil {
			if rs, pv, _ := fo.Lint(g); pv == nil && rs != nil {
				c11Pristine[o.Name] = mon.SnapOf(rs)
			}
		}
	}
}

func c11Discover() {
	c11Lints = nil
	for _, li := range Inv {
		if !li.Config {
			continue
		}
		var inst any
		switch li.Kind {
		case corpus.Cert:
			inst = li.CertL.Lint()
		case corpus.CRL:
			inst = li.CrlL.Lint()
		default:
			inst = li.OcspL.Lint()
		}
		t := reflect.Indirect(reflect.ValueOf(inst.(lint.Configurable).Configure()))
		cl := cfgLint{info: li}
		if t.Kind() == reflect.Struct {
			for i := 0; i < t.NumField(); i++ {
				f := t.Type().Field(i)
				if f.PkgPath == "" {
					cl.fields = append(cl.fields, cfgField{f.Name, f.Type.Kind()})
				}
			}
		}
		c11Lints = append(c11Lints, cl)
	}
}

// freshInstance returns a new lint instance and its configuration target.
func freshInstance(li mon.LintInfo) (inst any, target any) {
	switch li.Kind {
	case corpus.Cert:
		inst = li.CertL.Lint()
	case corpus.CRL:
		inst = li.CrlL.Lint()
	default:
		inst = li.OcspL.Lint()
	}
	if c, ok := inst.(lint.Configurable); ok {
		target = c.Configure()
	}
	return
}

// outOfScope: the source-scope gate for certificate lints (decided with the scope reference of C04).
func outOfScope(li mon.LintInfo, o *mon.Obj) bool {
	if li.Kind != corpus.Cert {
		return false
	}
	return !factsFromParsed(o.Cert).inScope(li.Meta.Source)
}

// runInstance is the reference life-cycle on an instance the harness configured itself.
func runInstance(li mon.LintInfo, o *mon.Obj, inst any) mon.SD {
	if outOfScope(li, o) {
		return mon.SD{Status: int(lint.NA)}
	}
	var applies bool
	switch li.Kind {
	case corpus.Cert:
		applies = inst.(lint.CertificateLintInterface).CheckApplies(o.Cert)
	case corpus.CRL:
		applies = inst.(lint.RevocationListLintInterface).CheckApplies(o.CRL)
	default:
		applies = inst.(lint.OcspResponseLintInterface).CheckApplies(o.OCSP)
	}
	if !applies {
		return mon.SD{Status: int(lint.NA)}
	}
	if !mon.InWindow(li.Meta, o.Date()) {
		return mon.SD{Status: int(lint.NE)}
	}
	var r *lint.LintResult
	switch li.Kind {
	case corpus.Cert:
		r = inst.(lint.CertificateLintInterface).Execute(o.Cert)
	case corpus.CRL:
		r = inst.(lint.RevocationListLintInterface).Execute(o.CRL)
	default:
		r = inst.(lint.OcspResponseLintInterface).Execute(o.OCSP)
	}
	return mon.SD{Status: int(r.Status), Details: r.Details}
}

// section is one lint's part of a generated document.
// c11Words: what a string- or list-valued option of a certificate lint might plausibly take
var c11Words = []string{"Organization", "CommonName", "Country", "OrganizationalUnit", "Locality", "Province", "StreetAddress", "PostalCode", "SerialNumber", "GivenName", "Surname", "EmailAddress",
	"DomainComponent", "JurisdictionLocality", "JurisdictionProvince", "JurisdictionCountry", "O", "CN", "C", "OU", "L", "ST", "2.5.4.10", "2.5.4.3", "subject", "issuer", "dNSName", "*", "", "all", "none",
	"e_ca_is_ca", "example.com", "US",
	// values that occur in the objects built below: an option that names attribute VALUES (an allow-list, an exemption)
	// only acts when the document holds a value the object has
	"PKI", "Operations", "Ben &amp; Jerry", c11LongOU, "Verif Test CA Org", "Example Org", "www.example.com", "Verif Issuing CA R1",
	// country codes that are NOT assigned (user-assigned / exceptionally reserved code elements, an unassigned one):
	// an option that widens or narrows what counts as a country only acts on an object that carries such a code
	"XK", "ZZ", "AA", "QM", "EU", "UK", "YQ",
	// dates and durations, in the spellings configuration authors use
	"2020-01-01", "2022-01-01", "2023-07-15", "2024-01-01T00:00:00Z", "20230101", "2023-07", "24h", "90d", "365"}

const c11LongOU = "Department of Redundancy Department, Division of Overly Long Organisational Unit Names"

type section struct {
	lint string
	text string
	desc string
}

// c11Sections generates well-typed, ill-typed and structural variants for one lint.
func c11Sections(cl cfgLint) []section {
	n := cl.info.Name
	var out []section
	add := func(desc, text string) { out = append(out, section{n, text, desc}) }
	for _, f := range cl.fields {
		switch f.Kind {
		case reflect.Bool:
			add(f.Name+"=true", fmt.Sprintf("[%s]\n%s = true\n", n, f.Name))
			add(f.Name+"=false", fmt.Sprintf("[%s]\n%s = false\n", n, f.Name))
			for _, v := range []string{`"yes"`, `7`, `[true]`, `1.5`, `{a = 1}`, `"true"`, `0`} {
				add(f.Name+"="+v+" (ill-typed?)", fmt.Sprintf("[%s]\n%s = %s\n", n, f.Name, v))
			}
		case reflect.Int, reflect.Int64, reflect.Int32, reflect.Uint, reflect.Uint64:
			for _, v := range []string{"0", "1", "2", "3", "50", "100", "101", "400", "1000", "-1"} {
				add(f.Name+"="+v, fmt.Sprintf("[%s]\n%s = %s\n", n, f.Name, v))
			}
			for _, v := range []string{`"many"`, `true`, `1.5`, `[1]`, `{a = 1}`, `"100"`, `99999999999999999999`} {
				add(f.Name+"="+v+" (ill-typed?)", fmt.Sprintf("[%s]\n%s = %s\n", n, f.Name, v))
			}
		case reflect.String:
			add(f.Name+`="x"`, fmt.Sprintf("[%s]\n%s = \"x\"\n", n, f.Name))
			for _, w := range c11Words {
				add(f.Name+"="+w, fmt.Sprintf("[%s]\n%s = %q\n", n, f.Name, w))
			}
			add(f.Name+"=7 (ill-typed?)", fmt.Sprintf("[%s]\n%s = 7\n", n, f.Name))
		case reflect.Slice, reflect.Array:
			// list-valued options (none shipped today): lists of plausible words - certificate field names, attribute
			// short names, OIDs, lint names, wildcards - singly and in pairs, so that an option of this shape meets
			// values it can act on; plus ill-typed forms
			for i, w := range c11Words {
				add(f.Name+"=["+w+"]", fmt.Sprintf("[%s]\n%s = [%q]\n", n, f.Name, w))
				if i%3 == 0 {
					add(f.Name+"=["+w+", ...]", fmt.Sprintf("[%s]\n%s = [%q, %q]\n", n, f.Name, w, c11Words[(i+5)%len(c11Words)]))
				}
			}
			add(f.Name+"=[]", fmt.Sprintf("[%s]\n%s = []\n", n, f.Name))
			add(f.Name+"=[1, 2]", fmt.Sprintf("[%s]\n%s = [1, 2]\n", n, f.Name))
			for _, v := range []string{`"x"`, `7`, `true`, `{a = 1}`, `[["x"]]`, `[1, "x"]`} {
				add(f.Name+"="+v+" (ill-typed?)", fmt.Sprintf("[%s]\n%s = %s\n", n, f.Name, v))
			}
		case reflect.Map:
			add(f.Name+"={}", fmt.Sprintf("[%s]\n%s = {}\n", n, f.Name))
			add(f.Name+"={Organization = true}", fmt.Sprintf("[%s]\n%s = {Organization = true, CommonName = \"x\"}\n", n, f.Name))
			add(f.Name+"=7 (ill-typed?)", fmt.Sprintf("[%s]\n%s = 7\n", n, f.Name))
		case reflect.Float32, reflect.Float64:
			for _, v := range []string{"0.0", "0.5", "1.0", "-1.5", "1e9"} {
				add(f.Name+"="+v, fmt.Sprintf("[%s]\n%s = %s\n", n, f.Name, v))
			}
			add(f.Name+`="x" (ill-typed?)`, fmt.Sprintf("[%s]\n%s = \"x\"\n", n, f.Name))
		}
		add("lower-case key", fmt.Sprintf("[%s]\n%s = true\n", n, strings.ToLower(f.Name)))
		// a TABLE where the option's value is expected: sub-table header, inline table, dotted key, array of tables
		add(f.Name+" as a sub-table", fmt.Sprintf("[%s.%s]\nvalue = false\n", n, f.Name))
		add(f.Name+" as an inline table", fmt.Sprintf("[%s]\n%s = { value = false }\n", n, f.Name))
		add(f.Name+" as an empty inline table", fmt.Sprintf("[%s]\n%s = {}\n", n, f.Name))
		add(f.Name+" through a dotted key", fmt.Sprintf("%s.%s.value = false\n", n, f.Name))
		add(f.Name+" as an array of tables", fmt.Sprintf("[[%s.%s]]\nvalue = 1\n", n, f.Name))
		add(f.Name+" as a nested sub-table", fmt.Sprintf("[%s.%s.deeper]\nvalue = 1\n", n, f.Name))
	}
	add("empty table", fmt.Sprintf("[%s]\n", n))
	add("unknown key only", fmt.Sprintf("[%s]\nNoSuchOption = 1\n", n))
	add("scalar int instead of table", fmt.Sprintf("%s = 7\n", n))
	add("scalar string instead of table", fmt.Sprintf("%s = \"x\"\n", n))
	add("array instead of table", fmt.Sprintf("%s = [1, 2]\n", n))
	add("array of tables", fmt.Sprintf("[[%s]]\nx = 1\n", n))
	add("inline table", fmt.Sprintf("%s = {NoSuchOption = 1}\n", n))
	add("sub-table", fmt.Sprintf("[%s.sub]\nx = 1\n", n))
	return out
}

// docOf assembles a TOML document: scalars first (TOML requires top-level keys before tables).
func docOf(secs []section, unrelated bool) string {
	var top, tables []string
	if unrelated {
		top = append(top, "some_unrelated_key = 5")
		tables = append(tables, "[some_unknown_section]\nx = 1\n", "[CABFBaselineRequirementsConfig]\n", "[e_no_such_lint]\nRounds = 3\n")
	}
	for _, s := range secs {
		if strings.HasPrefix(s.text, "[") {
			tables = append(tables, s.text)
		} else {
			top = append(top, strings.TrimSpace(s.text))
		}
	}
	return strings.Join(top, "\n") + "\n" + strings.Join(tables, "")
}

// expectation for one lint under one document, decided independently with go-toml itself.
type expect struct {
	cfgError bool
	sd       mon.SD
}

func c11Expect(cl cfgLint, o *mon.Obj, tree *toml.Tree, base mon.Snap) expect {
	n := cl.info.Name
	v := tree.Get(n)
	if v == nil {
		return expect{sd: base[n]}
	}
	// a certificate outside the source document's scope is NA before the lint is even constructed or configured
	// (property C04), so an inapplicable section cannot show there
	if outOfScope(cl.info, o) {
		return expect{sd: mon.SD{Status: int(lint.NA)}}
	}
	sub, ok := v.(*toml.Tree)
	if !ok {
		return expect{cfgError: true}
	}
	inst, target := freshInstance(cl.info)
	if err := sub.Unmarshal(target); err != nil {
		return expect{cfgError: true}
	}
	return expect{sd: runInstance(cl.info, o, inst)}
}

// c11Judge lints o under reg (already configured with doc) and compares every lint.
func c11Judge(c *mon.Ctx, o *mon.Obj, reg lint.Registry, doc string, base mon.Snap, how string) {
	tree, err := toml.Load(doc)
	if err != nil {
		c.R.Inconcl("generated document does not parse: " + err.Error())
		return
	}
	before := mon.DigestExported(o.Parsed())
	rs, pv, stack := o.Lint(reg)
	c.R.Count("evaluations", 1)
	in := inputs(o)
	in["config.toml"] = []byte(doc)
	if mon.DigestExported(o.Parsed()) != before {
		// an option that makes a lint rewrite the linted object reaches every later lint and every later run
		c.V("object-changed-under-configuration|"+o.Kind.String(), fmt.Sprintf("linting under a configuration changed exported fields of the linted %s (%s)", o.Kind, how), "", in, nil)
		if fo := o.Reparse(); fo != nil {
			*o = *fo
		}
	}
	if pv != nil {
		c.V("panic-under-configuration|"+o.Kind.String(), fmt.Sprintf("linting a %s panicked at the caller under a configuration (%s): %v at %s", o.Kind, how, pv, mon.PanicSite(stack)), "", in, map[string]any{"stack": stack})
		return
	}
	got := mon.SnapOf(rs)
	cfgd := map[string]cfgLint{}
	for _, cl := range c11Lints {
		cfgd[cl.info.Name] = cl
	}
	day := today()
	for name, g := range got {
		cl, isCfg := cfgd[name]
		if !isCfg {
			if b, ok := base[name]; ok && b != g && !(c05ClockLints[name] && today() != day) {
				c.V("other-lint-changed|"+name, fmt.Sprintf("lint %s is not configurable but its result changed under a configuration: %s %q -> %s %q (%s)", name, lint.LintStatus(b.Status), clipS(b.Details, 60), lint.LintStatus(g.Status), clipS(g.Details, 60), how), name, in, nil)
			}
			continue
		}
		ex := c11Expect(cl, o, tree, base)
		c.R.Count("configurable_judgements", 1)
		if ex.cfgError {
			c.R.Distinct("outcomes", name+":config-error")
			switch {
			case g.Status != int(lint.Fatal):
				c.V("config-error-not-fatal|"+name, fmt.Sprintf("%s has a section that cannot be applied but reports %s %q instead of a fatal configuration error (%s)", name, lint.LintStatus(g.Status), clipS(g.Details, 80), how), name, in, nil)
			case mon.IsRecoveredPanic(g):
				c.V("config-error-as-panic|"+name, fmt.Sprintf("%s reports a recovered panic instead of a configuration error: %q (%s)", name, clipS(g.Details, 120), how), name, in, nil)
			case !strings.Contains(g.Details, name):
				c.V("config-error-message|"+name, fmt.Sprintf("%s is fatal but the message does not name the lint's configuration: %q (%s)", name, clipS(g.Details, 120), how), name, in, nil)
			}
			continue
		}
		if tree.Get(name) == nil {
			c.R.Distinct("outcomes", name+":no-section")
		} else if ex.sd != base[name] {
			c.R.Distinct("outcomes", name+":option-changes-verdict")
		} else {
			c.R.Distinct("outcomes", name+":option-same-verdict")
		}
		if g != ex.sd {
			c.V("configured-result|"+name, fmt.Sprintf("%s under configuration gives %s %q, a fresh instance configured independently gives %s %q (%s)", name, lint.LintStatus(g.Status), clipS(g.Details, 60), lint.LintStatus(ex.sd.Status), clipS(ex.sd.Details, 60), how), name, in, nil)
		}
	}
}

func c11BuildObjs(c *mon.Ctx) {
	c11Objs = nil
	addDER := func(kind corpus.Kind, name string, b []byte) {
		if o, _ := mon.ParseObj(kind, name, b); o != nil {
			c11Objs = append(c11Objs, o)
		}
	}
	// close primes: Fermat index a few hundred, so Rounds decides
	for k := 0; k < 6; k++ {
		p, q := fermatPair(int64(1100+k), k*5+2) // 512-bit primes
		if p.Cmp(q) == 0 {
			continue
		}
		s := gen.TLSLeaf(gen.D(2024, 3, 1), "www.example.com")
		s.SPKI = gen.RSASPKI(new(big.Int).Mul(p, q), big.NewInt(65537))
		addDER(corpus.Cert, fmt.Sprintf("gen/cfg/fermat%d", k), s.DER())
	}
	h := gen.TLSLeaf(gen.D(2024, 3, 1), "www.example.com")
	h.Subject = gen.Name(gen.A(gen.OIDC, "US"), gen.A(gen.OIDO, "Ben &amp; Jerry"), gen.A(gen.OIDCN, "www.example.com"))
	addDER(corpus.Cert, "gen/cfg/html", h.DER())
	ca := gen.SubCA(gen.D(2024, 3, 1))
	ca.Subject = gen.Name(gen.A(gen.OIDC, "US"), gen.A(gen.OIDO, "Verif Test CA Org"), gen.A(gen.OIDOU, "PKI"), gen.A(gen.OIDCN, "Verif Issuing CA R1"))
	addDER(corpus.Cert, "gen/cfg/ca-ou", ca.DER())
	// subjects whose country is a user-assigned / exceptionally reserved / unassigned code element (subscriber, CA, S/MIME)
	for k, cc := range []string{"XK", "ZZ", "AA", "QM", "EU", "UK", "YQ", "xk"} {
		for t := 0; t < 3; t++ {
			var sp *gen.Spec
			switch t {
			case 0:
				sp = gen.TLSLeaf(gen.D(2024, 3, 1), "www.example.com")
				sp.Subject = gen.Name(gen.A(gen.OIDC, cc), gen.A(gen.OIDO, "Example Org"), gen.A(gen.OIDCN, "www.example.com"))
			case 1:
				sp = gen.SubCA(gen.D(2024, 3, 1))
				sp.Subject = gen.Name(gen.A(gen.OIDC, cc), gen.A(gen.OIDO, "Verif Test CA Org"), gen.A(gen.OIDCN, "Verif Issuing CA R1"))
			default:
				sp = gen.SMIMELeaf(gen.D(2024, 3, 1), "alice@example.com")
				sp.Subject = gen.Name(gen.A(gen.OIDC, cc), gen.A(gen.OIDCN, "alice@example.com"), gen.A(gen.OIDEmail, "alice@example.com"))
			}
			addDER(corpus.Cert, fmt.Sprintf("gen/cfg/country%d-%d", k, t), sp.DER())
		}
	}
	// several organisational units, one of them a value other lints object to (an HTML entity, more than 64 characters)
	// in front of / behind a plain one, on a CA and on a subscriber certificate
	for k, ous := range [][]string{{"Ben &amp; Jerry", "Operations"}, {"Operations", "Ben &amp; Jerry"}, {c11LongOU, "PKI"}, {"PKI", c11LongOU}, {"PKI", "Operations", "Ben &amp; Jerry"}} {
		for t := 0; t < 2; t++ {
			attrs := []gen.ATV{gen.A(gen.OIDC, "US"), gen.A(gen.OIDO, "Verif Test CA Org")}
			for _, ou := range ous {
				attrs = append(attrs, gen.A(gen.OIDOU, ou))
			}
			var sp *gen.Spec
			if t == 0 {
				sp = gen.SubCA(gen.D(2024, 3, 1))
				attrs = append(attrs, gen.A(gen.OIDCN, "Verif Issuing CA R1"))
			} else {
				sp = gen.TLSLeaf(gen.D(2021, 3, 1), "www.example.com")
				attrs = append(attrs, gen.A(gen.OIDCN, "www.example.com"))
			}
			sp.Subject = gen.Name(attrs...)
			addDER(corpus.Cert, fmt.Sprintf("gen/cfg/ous%d-%d", k, t), sp.DER())
		}
	}
	for _, days := range []int{5, 30, 200, 500} {
		crl := gen.BasicCRL(gen.D(2024, 3, 1))
		crl.NextUpdate = crl.ThisUpdate.Add(time.Duration(days) * 24 * time.Hour)
		addDER(corpus.CRL, fmt.Sprintf("gen/cfg/crl%dd", days), crl.DER())
	}
	// CRLs whose entries were revoked over several years, with allowed and disallowed reason codes among them: an option
	// that exempts, limits or orders entries by date only acts on a list that spans the date
	for k, tu := range []time.Time{gen.D(2024, 3, 1), gen.D(2023, 8, 1)} {
		crl := gen.BasicCRL(tu)
		crl.Revoked = []*der.Node{
			gen.Revoked(1001, gen.D(2019, 1, 1), gen.ExtReason(7)),
			gen.Revoked(1002, gen.D(2021, 6, 1), gen.ExtReason(1)),
			gen.Revoked(1003, gen.D(2023, 7, 20), gen.ExtReason(4)),
			gen.Revoked(1004, tu.Add(-24*time.Hour), gen.ExtReason(2)),
			gen.Revoked(1005, tu.Add(-time.Hour)),
		}
		addDER(corpus.CRL, fmt.Sprintf("gen/cfg/crl-years-%d", k), crl.DER())
	}
	// corpus sample incl. every CRL and OCSP seed
	for i, o := range W.Objs {
		if o.Kind != corpus.Cert || i%c.Pick(37, 5) == 0 {
			c11Objs = append(c11Objs, o)
		}
	}
}

func c11All() lint.Registry {
	r, _ := lint.GlobalRegistry().Filter(lint.FilterOptions{NameFilter: regexpAll})
	return r
}

func c11Once(c *mon.Ctx) {
	g := lint.GlobalRegistry()
	// (b) the generated example configuration
	def, err := g.DefaultConfiguration()
	if err != nil {
		c.V("default-config-error", "DefaultConfiguration failed: "+err.Error(), "", nil, nil)
		return
	}
	tree, err := toml.Load(string(def))
	if err != nil {
		c.V("default-config-not-toml", "the generated example configuration is not valid TOML: "+err.Error(), "", map[string][]byte{"example.toml": def}, nil)
		return
	}
	for _, cl := range c11Lints {
		c.R.Count("evaluations", 1)
		if _, ok := tree.Get(cl.info.Name).(*toml.Tree); !ok {
			c.V("default-config-missing-section|"+cl.info.Name, "the example configuration has no table for configurable lint "+cl.info.Name, cl.info.Name, map[string][]byte{"example.toml": def}, nil)
		}
		c.R.Distinct("configurable_lints", cl.info.Name+fmt.Sprint(cl.fields))
	}
	// a filtered registry's example has exactly its own configurable lints
	for _, cl := range c11Lints {
		r, err := g.Filter(lint.FilterOptions{IncludeNames: []string{cl.info.Name}})
		if err != nil {
			continue
		}
		b, err := r.DefaultConfiguration()
		t2, err2 := toml.Load(string(b))
		if err != nil || err2 != nil {
			c.V("default-config-filtered", fmt.Sprintf("example configuration of a single-lint registry (%s) is unusable: %v %v", cl.info.Name, err, err2), cl.info.Name, nil, nil)
			continue
		}
		if _, ok := t2.Get(cl.info.Name).(*toml.Tree); !ok {
			c.V("default-config-filtered-missing|"+cl.info.Name, "single-lint registry's example configuration lacks the lint's table", cl.info.Name, nil, nil)
		}
	}
	// the three loaders (string, reader, file) give the same configuration; an empty path is the empty configuration
	for k, d := range c11Docs {
		if k%7 != 0 {
			continue
		}
		cs, errS := lint.NewConfigFromString(d.doc)
		cr, errR := lint.NewConfig(strings.NewReader(d.doc))
		path := filepath.Join(c.Work, fmt.Sprintf("cfg%d.toml", k))
		_ = os.WriteFile(path, []byte(d.doc), 0o644)
		cf, errF := lint.NewConfigFromFile(path)
		_ = os.Remove(path)
		c.R.Count("evaluations", 3)
		c.R.Count("loader_comparisons", 1)
		// readers that deliver the same bytes differently (one byte per Read, half of what is asked, data together with
		// io.EOF) are the same document; a reader that FAILS half-way is not a document at all
		for rk, mk := range []func(io.Reader) io.Reader{iotest.OneByteReader, iotest.HalfReader, iotest.DataErrReader} {
			cx, errX := lint.NewConfig(mk(strings.NewReader(d.doc)))
			c.R.Count("evaluations", 1)
			if (errX == nil) != (errS == nil) {
				c.V("loaders-disagree-on-error", fmt.Sprintf("the reader loader answers differently when the same bytes arrive through reader kind %d: %v vs %v (%s)", rk, errX, errS, d.desc), "", map[string][]byte{"config.toml": []byte(d.doc)}, nil)
			} else if errS == nil && k%21 == 0 {
				o := c11Objs[(k+rk)%13]
				ra, rb := c11All(), c11All()
				ra.SetConfiguration(cs)
				rb.SetConfiguration(cx)
				if fa, fb := o.Reparse(), o.Reparse(); fa != nil && fb != nil {
					sa, pa, _ := fa.Lint(ra)
					sb, pb, _ := fb.Lint(rb)
					if pa == nil && pb == nil && sa != nil && sb != nil && len(mon.Diff(mon.SnapOf(sa), mon.SnapOf(sb), false, false)) > 0 {
						c.V("loaders-disagree", fmt.Sprintf("the same document read through reader kind %d gives different results (%s)", rk, d.desc), "", map[string][]byte{"config.toml": []byte(d.doc)}, nil)
					}
				}
			}
		}
		if len(d.doc) > 8 {
			if _, errT := lint.NewConfig(io.MultiReader(strings.NewReader(d.doc[:len(d.doc)/2]), iotest.ErrReader(errors.New("verif: injected read fault")))); errT == nil {
				c.V("read-fault-swallowed", "NewConfig returns no error although its reader failed half-way through the document ("+d.desc+")", "", map[string][]byte{"config.toml": []byte(d.doc)}, nil)
			}
			c.R.Count("read_faults_injected", 1)
		}
		if (errS == nil) != (errR == nil) || (errS == nil) != (errF == nil) {
			c.V("loaders-disagree-on-error", fmt.Sprintf("the string / reader / file loaders disagree on whether a document is acceptable: %v / %v / %v (%s)", errS, errR, errF, d.desc), "", map[string][]byte{"config.toml": []byte(d.doc)}, nil)
			continue
		}
		if errS != nil {
			continue
		}
		o := c11Objs[k%13]
		var snaps []mon.Snap
		for _, cfg := range []lint.Configuration{cs, cr, cf} {
			r := c11All()
			r.SetConfiguration(cfg)
			if rs, pv, _ := o.Lint(r); pv == nil && rs != nil {
				snaps = append(snaps, mon.SnapOf(rs))
			}
		}
		if len(snaps) == 3 && (len(mon.Diff(snaps[0], snaps[1], false, false)) > 0 || len(mon.Diff(snaps[0], snaps[2], false, false)) > 0) {
			c.V("loaders-disagree", "the same document loaded from a string, a reader and a file gives different results ("+d.desc+")", "", map[string][]byte{"config.toml": []byte(d.doc)}, nil)
		}
	}
	if cfg, err := lint.NewConfigFromFile(""); err != nil {
		c.V("empty-path-not-empty-config", "NewConfigFromFile(\"\") fails: "+err.Error(), "", nil, nil)
	} else {
		r := c11All()
		r.SetConfiguration(cfg)
		o := c11Objs[0]
		if bs, _, _ := o.Lint(g); bs != nil {
			c11Judge(c, o, r, "", mon.SnapOf(bs), "NewConfigFromFile(\"\")")
		}
	}
	if _, err := lint.NewConfigFromFile(filepath.Join(c.Work, "does-not-exist.toml")); err == nil {
		c.V("missing-file-accepted", "NewConfigFromFile on a missing file returns no error", "", nil, nil)
	}
	// (a)+(b): equivalent-to-nothing documents, on every object
	neutral := []cfgDoc{{"empty", ""}, {"default", string(def)}, {"unrelated", docOf(nil, true)}, {"comment-only", "# nothing\n"}}
	for _, o := range c11Objs {
		bs, pv, _ := o.Lint(g)
		if pv != nil || bs == nil {
			continue
		}
		base := mon.SnapOf(bs)
		for _, nd := range neutral {
			r := c11All()
			r.SetConfiguration(mustConfig(nd.Text))
			c11Judge(c, o, r, nd.Text, base, "neutral document '"+nd.Label+"' on "+o.Name)
			c.R.Count("neutral_runs", 1)
			// "changes no verdict" is a statement about the UNCONFIGURED behaviour: every lint - the configurable ones
			// too, whose section the example spells out - must give exactly the no-configuration result. (c11Judge
			// alone compares a configurable lint with a fresh instance configured from the same section, which agrees
			// with itself when the example prints a value that is not the effective default.)
			r2 := c11All()
			r2.SetConfiguration(mustConfig(nd.Text))
			if fo := o.Reparse(); fo != nil {
				if rs, pv, _ := fo.Lint(r2); pv == nil && rs != nil {
					day := today()
					for _, df := range dropClock(day, mon.Diff(base, mon.SnapOf(rs), false, false)) {
						name := strings.SplitN(df, ":", 2)[0]
						in := inputs(o)
						in["config.toml"] = []byte(nd.Text)
						c.V("neutral-document-changes-verdict|"+nd.Label+"|"+name, fmt.Sprintf("loading the %s document changes a verdict: %s (on %s)", nd.Label, clipS(df, 200), o.Name), name, in, nil)
					}
					c.R.Count("neutral_full_comparisons", 1)
				}
			}
		}
		r := c11All()
		r.SetConfiguration(lint.NewEmptyConfig())
		c11Judge(c, o, r, "", base, "NewEmptyConfig on "+o.Name)
		// never configured at all: a fresh filtered copy inherits the global (empty) configuration
		c11Judge(c, o, c11All(), "", base, "registry never given a configuration, "+o.Name)
		c.Tick()
	}
}

var c11Docs []struct {
	doc  string
	desc string
}

func c11BuildDocs(c *mon.Ctx) {
	c11Docs = nil
	var all [][]section
	for _, cl := range c11Lints {
		all = append(all, c11Sections(cl))
	}
	// one section at a time
	for _, secs := range all {
		for _, s := range secs {
			c11Docs = append(c11Docs, struct{ doc, desc string }{docOf([]section{s}, false), s.lint + ": " + s.desc})
			c11Docs = append(c11Docs, struct{ doc, desc string }{docOf([]section{s}, true), s.lint + ": " + s.desc + " + unrelated"})
		}
	}
	// seeded combinations across lints
	rng := c.Rng(-11, 0)
	for k := 0; k < c.Pick(150, 4000); k++ {
		var pick []section
		var d []string
		for _, secs := range all {
			if rng.Intn(3) != 0 {
				s := secs[rng.Intn(len(secs))]
				pick = append(pick, s)
				d = append(d, s.lint+": "+s.desc)
			}
		}
		c11Docs = append(c11Docs, struct{ doc, desc string }{docOf(pick, rng.Intn(2) == 0), strings.Join(d, " | ")})
	}
}

func init() {
	mon.Register(&mon.Check{
		ID:               "C11",
		CrashIsViolation: true,
		Rule:             "evaluations = Lint*Ex calls under generated TOML documents. Configurable lints and their option fields are discovered from the live registry by reflection; for each, well-typed values, ill-typed values, scalars / arrays / arrays-of-tables in place of the table, unknown keys, lower-case keys, sub-tables, alone and in seeded combinations with unrelated sections. Per call: every non-configurable lint must equal the no-configuration baseline; a configurable lint must equal a fresh instance the harness configured itself with go-toml (or be a fatal configuration error naming the lint when go-toml cannot apply the section); no panic at the caller (CRL path included). Each case replays a seeded sequence of SetConfiguration/lint steps on one registry (history), plus registry-isolation scenarios. distinct_nontrivial = distinct (document, object) pairs judged.",
		Assumptions:      []string{"what 'cannot be applied' means is decided by go-toml's own Unmarshal of the section into the lint's configuration type, so a value go-toml coerces counts as applicable"},
		Setup: func(c *mon.Ctx) error {
			if err := setupCommon(c); err != nil {
				return err
			}
			c11Discover()
			c11BuildObjs(c)
			c11TakePristine() // before this process installs any configuration (c11Discover only builds instances)
			c11BuildDocs(c)
			if len(c11Lints) == 0 {
				return fmt.Errorf("no configurable lint discovered")
			}
			return nil
		},
		Once:  c11Once,
		Solo:  c11Solo,
		Cases: func(c *mon.Ctx) int { return len(c11Docs) * c.Pick(10, 40) },
		RunCase: func(c *mon.Ctx, i int) {
			rng := c.Rng(i, 0)
			g := lint.GlobalRegistry()
			o := c11Objs[rng.Intn(len(c11Objs))]
			if i%3 != 0 { // favour the objects built for the configurable lints
				o = c11Objs[rng.Intn(13)]
			}
			bs, pv, _ := o.Lint(g)
			if pv != nil || bs == nil {
				return
			}
			// the baseline is the one taken when this process had never seen a configuration; what the unconfigured
			// global registry gives NOW must still be that (a configuration of an earlier run must not outlive it)
			base, ok := c11Pristine[o.Name]
			if !ok {
				base = mon.SnapOf(bs)
			} else {
				for _, df := range dropClock(today(), mon.Diff(base, mon.SnapOf(bs), false, false)) {
					name := strings.SplitN(df, ":", 2)[0]
					c.V("configuration-outlives-run|"+name, fmt.Sprintf("lint %s on %s, linted with the never-configured global registry, no longer gives what it gave before this process had used any configuration: %s", name, o.Name, clipS(df, 240)), name, inputs(o), nil)
				}
			}
			reg := c11All()
			steps := 3 + rng.Intn(3)
			var hist []string
			for s := 0; s < steps; s++ {
				d := c11Docs[(i+s*7919)%len(c11Docs)]
				if s == steps-1 && rng.Intn(2) == 0 {
					d = struct{ doc, desc string }{"", "option removed again (empty document)"}
				}
				cfg, err := lint.NewConfigFromString(d.doc)
				if err != nil {
					c.R.Count("documents_rejected_by_loader", 1)
					continue
				}
				reg.SetConfiguration(cfg)
				hist = append(hist, d.desc)
				c11Judge(c, o, reg, d.doc, base, fmt.Sprintf("step %d of history %v on %s", s+1, hist, o.Name))
				if c.NewInput(append([]byte(d.doc+"\x00"), o.DER...)) {
					c.R.Count("distinct_nontrivial", 1)
				}
				// the global registry is untouched
				if s == 0 && i%5 == 0 {
					if gs, _, _ := o.Lint(g); gs != nil {
						if df := mon.Diff(base, mon.SnapOf(gs), false, false); len(dropClock(today(), df)) > 0 {
							c.V("leak-into-global", "setting a configuration on a filtered registry changed results through the global registry: "+clipS(df[0], 200), "", inputs(o), nil)
						}
					}
				}
			}
			if i%401 == 0 {
				c.R.Sample(8, map[string]any{"object": o.Name, "history": hist})
			}
		},
		Finish: func(c *mon.Ctx, r *mon.Report, ev *mon.Evidence) []string {
			var gates []string
			ev.Coverage["configurable_lints"] = r.SetKeys("configurable_lints")
			ev.Coverage["outcomes"] = r.Sets["outcomes"]
			ev.Coverage["documents"] = len(c11Docs)
			for _, cl := range c11Lints {
				for _, k := range []string{"config-error", "option-changes-verdict", "no-section"} {
					if r.Sets["outcomes"][cl.info.Name+":"+k] == 0 {
						gates = append(gates, "never observed: "+cl.info.Name+":"+k)
					}
				}
			}
			ev.Coverage["higher_scoped_judgements"] = r.Counters["higher_scoped_judgements"]
			if r.Counters["higher_scoped_judgements"] < 40 {
				gates = append(gates, "the higher-scoped configuration scenario (own process) did not complete")
			}
			if r.Counters["isolation_scenarios"] == 0 {
				gates = append(gates, "registry-isolation scenarios did not run")
			}
			return gates
		},
	})
}

// c11Solo: scenarios that set a configuration on the GLOBAL registry (own process).
// ---- lints that refer to higher-scoped configuration (own process) ----
//
// A lint's configuration struct may hold fields of the library's higher-scoped types (Global, the per-source
// configurations), by value, by pointer, nested: they are filled from OTHER top-level tables. No shipped lint does
// so, which is why this path is only reachable through probe lints registered via the public API. The same clauses
// apply: the lint's own options are applied, unrelated tables change nothing, a top-level entry that should be a
// table but is a scalar makes exactly the lints that refer to it fatal (configuration error, never a panic),
// everything else keeps its verdict.

type c11HSConfig struct {
	hidden0 int // unexported fields sit between the exported ones: they are skipped, what follows is still filled
	Opt     int
	hidden1 string
	Flag    bool
	G       *lint.Global
	BR      lint.CABFBaselineRequirementsConfig
	Nested  struct {
		E *lint.EtsiEsiConfig
		N int
	}
	hidden int
}

type c11HSCert struct{ c11HSConfig }

func (l *c11HSCert) Configure() interface{}              { return &l.c11HSConfig }
func (l *c11HSCert) CheckApplies(*x509.Certificate) bool { return true }
func (l *c11HSCert) Execute(*x509.Certificate) *lint.LintResult {
	return &lint.LintResult{Status: lint.Notice, Details: fmt.Sprintf("Opt=%d Flag=%v N=%d", l.Opt, l.Flag, l.Nested.N)}
}

type c11HSCRL struct{ c11HSConfig }

func (l *c11HSCRL) Configure() interface{}                 { return &l.c11HSConfig }
func (l *c11HSCRL) CheckApplies(*x509.RevocationList) bool { return true }
func (l *c11HSCRL) Execute(*x509.RevocationList) *lint.LintResult {
	return &lint.LintResult{Status: lint.Notice, Details: fmt.Sprintf("Opt=%d Flag=%v N=%d", l.Opt, l.Flag, l.Nested.N)}
}

func c11HigherScoped(c *mon.Ctx) {
	g := lint.GlobalRegistry()
	lint.RegisterCertificateLint(&lint.CertificateLint{LintMetadata: lint.LintMetadata{Name: "n_verif_c11_hs_cert", Description: "verif probe", Citation: "verif", Source: lint.Community},
		Lint: func() lint.CertificateLintInterface { return &c11HSCert{c11HSConfig{Opt: 7}} }})
	lint.RegisterRevocationListLint(&lint.RevocationListLint{LintMetadata: lint.LintMetadata{Name: "n_verif_c11_hs_crl", Description: "verif probe", Citation: "verif", Source: lint.Community},
		Lint: func() lint.RevocationListLintInterface { return &c11HSCRL{c11HSConfig{Opt: 7}} }})
	var cert, crl *mon.Obj
	for _, o := range c11Objs {
		if o.Kind == corpus.Cert && cert == nil {
			cert = o
		}
		if o.Kind == corpus.CRL && crl == nil {
			crl = o
		}
	}
	type doc struct {
		label, text string
		want        string // expected details of the probes; "" = fatal configuration error
	}
	docs := []doc{
		{"no configuration", "", "Opt=7 Flag=false N=0"},
		{"own options", "[n_verif_c11_hs_cert]\nOpt = 3\nFlag = true\n[n_verif_c11_hs_crl]\nOpt = 3\nFlag = true\n", "Opt=3 Flag=true N=0"},
		{"own options incl. nested", "[n_verif_c11_hs_cert]\nOpt = 4\n[n_verif_c11_hs_cert.Nested]\nN = 9\n[n_verif_c11_hs_crl]\nOpt = 4\n[n_verif_c11_hs_crl.Nested]\nN = 9\n", "Opt=4 Flag=false N=9"},
		{"higher-scoped tables present", "[Global]\nx = 1\n[CABFBaselineRequirementsConfig]\ny = true\n[EtsiEsiConfig]\n[n_verif_c11_hs_cert]\nOpt = 5\n[n_verif_c11_hs_crl]\nOpt = 5\n", "Opt=5 Flag=false N=0"},
		{"higher-scoped tables only", "[Global]\n[CommunityConfig]\nz = 2\n", "Opt=7 Flag=false N=0"},
		{"Global is a scalar", "Global = 5\n", ""},
		{"per-source configuration is a string", "CABFBaselineRequirementsConfig = \"x\"\n", ""},
		{"nested higher-scoped entry is an array", "EtsiEsiConfig = [1, 2]\n", ""},
		{"own section ill-typed", "[n_verif_c11_hs_cert]\nOpt = \"three\"\n[n_verif_c11_hs_crl]\nOpt = \"three\"\n", ""},
		{"own section sets a higher-scoped field to a scalar", "[n_verif_c11_hs_cert]\nG = 5\n[n_verif_c11_hs_crl]\nG = 5\n", ""},
		{"unrelated higher-scoped entry is a scalar", "RFC5280Config = 1\nMozillaRootStorePolicyConfig = true\n", "Opt=7 Flag=false N=0"},
	}
	// the generated example configuration, now that lints referring to higher-scoped configuration are registered:
	// valid TOML, a table for both probes, and loading it changes nothing (judged below as one more document)
	if def, err := g.DefaultConfiguration(); err != nil {
		c.V("default-config-error", "DefaultConfiguration() fails once a lint refers to higher-scoped configuration: "+err.Error(), "", nil, nil)
	} else if tree, err := toml.Load(string(def)); err != nil {
		c.V("default-config-not-toml", "the generated example configuration is not valid TOML once a lint refers to higher-scoped configuration: "+err.Error(), "", map[string][]byte{"example.toml": def}, nil)
	} else {
		for _, n := range []string{"n_verif_c11_hs_cert", "n_verif_c11_hs_crl"} {
			if _, ok := tree.Get(n).(*toml.Tree); !ok {
				c.V("default-config-missing-section|"+n, "the generated example configuration has no table for the configurable lint "+n, n, map[string][]byte{"example.toml": def}, nil)
			}
		}
		docs = append(docs, doc{"the generated example configuration", string(def), "Opt=7 Flag=false N=0"})
	}
	for _, o := range []*mon.Obj{cert, crl} {
		if o == nil {
			continue
		}
		probe := "n_verif_c11_hs_cert"
		if o.Kind == corpus.CRL {
			probe = "n_verif_c11_hs_crl"
		}
		g.SetConfiguration(lint.NewEmptyConfig())
		brs, pv, _ := o.Lint(g)
		if pv != nil || brs == nil {
			continue
		}
		base := mon.SnapOf(brs)
		for round := 0; round < 2; round++ { // every document twice, in two orders: nothing may stick
			order := docs
			if round == 1 {
				order = append([]doc{}, docs...)
				for i, j := 0, len(order)-1; i < j; i, j = i+1, j-1 {
					order[i], order[j] = order[j], order[i]
				}
			}
			for _, d := range order {
				cfg, err := lint.NewConfigFromString(d.text)
				if err != nil {
					c.R.Inconcl("higher-scoped document does not parse: " + err.Error())
					continue
				}
				g.SetConfiguration(cfg)
				rs, pv, stack := o.Lint(g)
				c.R.Count("evaluations", 1)
				c.R.Count("higher_scoped_judgements", 1)
				in := inputs(o)
				in["config.toml"] = []byte(d.text)
				if pv != nil || rs == nil {
					c.V("panic-under-configuration|"+o.Kind.String(), fmt.Sprintf("linting a %s panicked at the caller under document %q (lint referring to higher-scoped configuration): %v at %s", o.Kind, d.label, pv, mon.PanicSite(stack)), "", in, nil)
					continue
				}
				got := mon.SnapOf(rs)
				p := got[probe]
				switch {
				case d.want == "" && (p.Status != int(lint.Fatal) || mon.IsRecoveredPanic(p)):
					c.V("config-error-not-fatal|"+probe, fmt.Sprintf("%s refers to configuration that cannot be applied (%s) but reports %s %q", probe, d.label, lint.LintStatus(p.Status), clipS(p.Details, 120)), probe, in, nil)
				case d.want != "" && (p.Status != int(lint.Notice) || p.Details != d.want):
					c.V("configured-result|"+probe, fmt.Sprintf("%s under document %q reports %s %q, want info %q", probe, d.label, lint.LintStatus(p.Status), clipS(p.Details, 120), d.want), probe, in, nil)
				}
				for n, b := range base {
					if n == probe || c05ClockLints[n] {
						continue
					}
					if got[n] != b {
						c.V("other-lint-changed|"+n, fmt.Sprintf("lint %s changed under document %q, which only concerns the probe lints and higher-scoped tables: %s %q -> %s %q", n, d.label, lint.LintStatus(b.Status), clipS(b.Details, 60), lint.LintStatus(got[n].Status), clipS(got[n].Details, 60)), n, in, nil)
					}
				}
			}
		}
	}
	g.SetConfiguration(lint.NewEmptyConfig())
}

func c11Solo(c *mon.Ctx) {
	c11Scenarios(c)
	c11HigherScoped(c)
	c11LateConfigurable(c)
}

// ---- configurable lints registered AFTER the example configuration was first asked for ----
//
// "has a section for every configurable lint" is a statement about the registry as it is when the example is
// generated. The example was generated several times above; now configurable lints of every kind are registered one at
// a time - under sources their kind already has lints for, under sources new to the kind, with names sorting first and
// last - and after each registration the example must be valid TOML, have a table for every configurable lint known so
// far (shipped ones, the higher-scoped probes, every late one), load without changing a verdict, and the new lint's
// option must take effect when set.

type c11LateCfg struct{ Limit int }

type c11LateCert struct{ c11LateCfg }

func (l *c11LateCert) Configure() interface{}              { return &l.c11LateCfg }
func (l *c11LateCert) CheckApplies(*x509.Certificate) bool { return true }
func (l *c11LateCert) Execute(*x509.Certificate) *lint.LintResult {
	return &lint.LintResult{Status: lint.Notice, Details: fmt.Sprintf("Limit=%d", l.Limit)}
}

type c11LateCRL struct{ c11LateCfg }

func (l *c11LateCRL) Configure() interface{}                 { return &l.c11LateCfg }
func (l *c11LateCRL) CheckApplies(*x509.RevocationList) bool { return true }
func (l *c11LateCRL) Execute(*x509.RevocationList) *lint.LintResult {
	return &lint.LintResult{Status: lint.Notice, Details: fmt.Sprintf("Limit=%d", l.Limit)}
}

type c11LateOCSP struct{ c11LateCfg }

func (l *c11LateOCSP) Configure() interface{}           { return &l.c11LateCfg }
func (l *c11LateOCSP) CheckApplies(*ocsp.Response) bool { return true }
func (l *c11LateOCSP) Execute(*ocsp.Response) *lint.LintResult {
	return &lint.LintResult{Status: lint.Notice, Details: fmt.Sprintf("Limit=%d", l.Limit)}
}

func c11LateConfigurable(c *mon.Ctx) {
	g := lint.GlobalRegistry()
	g.SetConfiguration(lint.NewEmptyConfig())
	_, _ = g.DefaultConfiguration()
	// a source the kind already has lints for, and whose lints are not subject to a scope gate (the CA/B Forum
	// documents): the probe has to RUN on the object it is shown
	srcOf := func(k corpus.Kind) lint.LintSource {
		for _, li := range Inv {
			if li.Kind == k && (li.Meta.Source == lint.RFC5280 || li.Meta.Source == lint.RFC6960) {
				return li.Meta.Source
			}
		}
		return lint.Community
	}
	objOf := map[corpus.Kind]*mon.Obj{}
	for _, k := range []corpus.Kind{corpus.Cert, corpus.CRL, corpus.OCSP} {
		if idx := W.ByKind[k]; len(idx) > 0 {
			objOf[k] = W.Objs[idx[0]]
		}
	}
	type step struct {
		name string
		kind corpus.Kind
		src  lint.LintSource
	}
	steps := []step{
		{"n_verif_c11_late_ocsp_a", corpus.OCSP, srcOf(corpus.OCSP)},
		{"n_verif_c11_late_crl_a", corpus.CRL, srcOf(corpus.CRL)},
		{"n_verif_c11_late_cert_a", corpus.Cert, srcOf(corpus.Cert)},
		{"n_verif_c11_late_ocsp_b", corpus.OCSP, srcOf(corpus.OCSP)},
		{"n_verif_c11_late_ocsp_c", corpus.OCSP, lint.Community},
		{"e_000_verif_c11_late_cert_first", corpus.Cert, lint.RFC8813},
		{"w_zzz_verif_c11_late_crl_last", corpus.CRL, lint.RFC8813},
		{"n_verif_c11_late_ocsp_d", corpus.OCSP, lint.Community},
	}
	known := []string{"n_verif_c11_hs_cert", "n_verif_c11_hs_crl"}
	for _, cl := range c11Lints {
		known = append(known, cl.info.Name)
	}
	for si, st := range steps {
		m := lint.LintMetadata{Name: st.name, Description: "verif late configurable lint", Citation: "verif", Source: st.src}
		switch st.kind {
		case corpus.Cert:
			lint.RegisterCertificateLint(&lint.CertificateLint{LintMetadata: m, Lint: func() lint.CertificateLintInterface { return &c11LateCert{c11LateCfg{Limit: 10}} }})
		case corpus.CRL:
			lint.RegisterRevocationListLint(&lint.RevocationListLint{LintMetadata: m, Lint: func() lint.RevocationListLintInterface { return &c11LateCRL{c11LateCfg{Limit: 10}} }})
		default:
			lint.RegisterOcspResponseLint(&lint.OcspResponseLint{LintMetadata: m, Lint: func() lint.OcspResponseLintInterface { return &c11LateOCSP{c11LateCfg{Limit: 10}} }})
		}
		known = append(known, st.name)
		when := fmt.Sprintf("after %d late registrations (last: %s lint %s, source %s)", si+1, st.kind, st.name, st.src)
		c.R.Count("late_configurable_steps", 1)
		def, err := g.DefaultConfiguration()
		if err != nil {
			c.V("default-config-error", "DefaultConfiguration failed "+when+": "+err.Error(), "", nil, nil)
			continue
		}
		tree, err := toml.Load(string(def))
		if err != nil {
			c.V("default-config-not-toml", "the example configuration is not valid TOML "+when+": "+err.Error(), "", map[string][]byte{"example.toml": def}, nil)
			continue
		}
		for _, n := range known {
			c.R.Count("evaluations", 1)
			if _, ok := tree.Get(n).(*toml.Tree); !ok {
				c.V("default-config-missing-section|late|"+st.kind.String(), fmt.Sprintf("%s the example configuration has no table for the configurable lint %s", when, n), n, map[string][]byte{"example.toml": def}, nil)
			}
		}
		// a registry filtered to the new lint
		if r, err := g.Filter(lint.FilterOptions{IncludeNames: []string{st.name}}); err == nil {
			b, err := r.DefaultConfiguration()
			t2, err2 := toml.Load(string(b))
			if err != nil || err2 != nil {
				c.V("default-config-filtered", fmt.Sprintf("example configuration of the registry filtered to %s is unusable: %v %v", st.name, err, err2), st.name, nil, nil)
			} else if _, ok := t2.Get(st.name).(*toml.Tree); !ok {
				c.V("default-config-filtered-missing|late|"+st.kind.String(), "the registry filtered to the late lint "+st.name+" gives an example configuration without its table", st.name, nil, nil)
			}
		}
		// loading the example changes nothing; setting the option changes this lint
		o := objOf[st.kind]
		if o == nil {
			continue
		}
		for _, d := range []struct{ doc, want string }{{"", "Limit=10"}, {string(def), "Limit=10"}, {"[" + st.name + "]\nLimit = 3\n", "Limit=3"}, {"", "Limit=10"}} {
			cfg, err := lint.NewConfigFromString(d.doc)
			if err != nil {
				c.V("default-config-not-loadable", when+": the library cannot load a document: "+err.Error(), "", nil, nil)
				continue
			}
			g.SetConfiguration(cfg)
			rs, pv, _ := o.Lint(g)
			c.R.Count("evaluations", 1)
			if pv != nil || rs == nil || rs.Results[st.name] == nil {
				c.V("late-lint-not-run|"+st.kind.String(), when+": the late lint produced no result", st.name, nil, nil)
				continue
			}
			if r := rs.Results[st.name]; r.Status != lint.Notice || r.Details != d.want {
				c.V("configured-result|late|"+st.kind.String(), fmt.Sprintf("%s: %s reports %s %q, want info %q", when, st.name, r.Status, r.Details, d.want), st.name, nil, nil)
			}
		}
		g.SetConfiguration(lint.NewEmptyConfig())
	}
}

func c11Scenarios(c *mon.Ctx) {
	g := lint.GlobalRegistry()
	type obs struct {
		o    *mon.Obj
		base mon.Snap
	}
	var objs []obs
	for _, o := range c11Objs[:13] {
		if rs, pv, _ := o.Lint(g); pv == nil && rs != nil {
			objs = append(objs, obs{o, mon.SnapOf(rs)})
		}
	}
	docA := "[e_rsa_fermat_factorization]\nRounds = 1000\n[e_subj_contains_html_entities]\nSkip = true\n[e_subj_orgunit_in_ca_cert]\nCrossCert = true\n[e_crl_next_update_invalid]\nSubscriberCRL = false\n"
	docB := "[e_rsa_fermat_factorization]\nRounds = 0\n"
	docBad := "e_rsa_fermat_factorization = 7\ne_crl_next_update_invalid = \"x\"\n"
	cfgA, cfgB, cfgBad := mustConfig(docA), mustConfig(docB), mustConfig(docBad)
	early := c11All() // filtered BEFORE any global configuration: inherits "nothing"
	check := func(reg lint.Registry, doc, how string) {
		for _, ob := range objs {
			c11Judge(c, ob.o, reg, doc, ob.base, how+" on "+ob.o.Name)
		}
		c.R.Count("isolation_scenarios", 1)
	}
	check(early, "", "registry filtered before any configuration")
	g.SetConfiguration(cfgA)
	check(g, docA, "global registry after SetConfiguration(A)")
	check(early, "", "registry filtered earlier, after the GLOBAL registry was given A")
	late := c11All()
	check(late, docA, "registry filtered after the global registry was given A (inherits A)")
	g.SetConfiguration(cfgB)
	check(g, docB, "global registry after SetConfiguration(B)")
	check(late, docA, "registry that inherited A, after the global registry moved on to B")
	late.SetConfiguration(cfgBad)
	check(late, docBad, "filtered registry given an inapplicable document")
	check(g, docB, "global registry while a filtered registry holds an inapplicable document")
	sub, err := late.Filter(lint.FilterOptions{ExcludeNames: []string{someCertLint()}})
	if err == nil {
		check(sub, docBad, "registry filtered from one that holds an inapplicable document (inherits it)")
	}
	g.SetConfiguration(lint.NewEmptyConfig())
	check(g, "", "global registry after the option was removed again")
	check(late, docBad, "filtered registry keeps its own document after the global one was reset")
	// zero Configuration{} is not exercised (not a TOML document)
	keys := []string{}
	for _, cl := range c11Lints {
		keys = append(keys, cl.info.Name)
	}
	sort.Strings(keys)
	c.R.Note("configurable_lint_names", keys)
}

var _ = x509.RSA
