package checks

import (
	"bytes"
	"fmt"
	"go/ast"
	"go/parser"
	"go/token"
	"os"
	"path/filepath"
	"reflect"
	"sort"
	"strconv"
	"strings"
	"sync"
	"time"

	"github.com/zmap/zlint/v3/formattedoutput"
	"github.com/zmap/zlint/v3/lint"

	"verif/corpus"
	"verif/mon"
)

// C12 - every lint in the tree is registered once, reachable and well-formed.

type regSite struct {
	File string
	Func string // RegisterLint, RegisterCertificateLint, ...
	Name string // "" when not a string literal
}

// census parses every non-test Go file under <repo>/v3/lints and lists the
// registration call sites with their Name literal.
func census(repo string) ([]regSite, []string, error) {
	root := filepath.Join(repo, "v3", "lints")
	var sites []regSite
	var dirs []string
	fset := token.NewFileSet()
	err := filepath.Walk(root, func(p string, info os.FileInfo, err error) error {
		if err != nil {
			return err
		}
		if info.IsDir() {
			if p != root {
				dirs = append(dirs, filepath.Base(p))
			}
			return nil
		}
		if !strings.HasSuffix(p, ".go") || strings.HasSuffix(p, "_test.go") {
			return nil
		}
		f, err := parser.ParseFile(fset, p, nil, 0)
		if err != nil {
			return err
		}
		ast.Inspect(f, func(n ast.Node) bool {
			call, ok := n.(*ast.CallExpr)
			if !ok {
				return true
			}
			sel, ok := call.Fun.(*ast.SelectorExpr)
			if !ok {
				return true
			}
			if x, ok := sel.X.(*ast.Ident); !ok || x.Name != "lint" {
				return true
			}
			switch sel.Sel.Name {
			case "RegisterLint", "RegisterCertificateLint", "RegisterRevocationListLint", "RegisterOcspResponseLint":
			default:
				return true
			}
			s := regSite{File: strings.TrimPrefix(p, repo+"/"), Func: sel.Sel.Name}
			for _, a := range call.Args {
				ast.Inspect(a, func(m ast.Node) bool {
					kv, ok := m.(*ast.KeyValueExpr)
					if !ok {
						return true
					}
					if k, ok := kv.Key.(*ast.Ident); ok && k.Name == "Name" && s.Name == "" {
						if bl, ok := kv.Value.(*ast.BasicLit); ok && bl.Kind == token.STRING {
							s.Name, _ = strconv.Unquote(bl.Value)
						}
					}
					return true
				})
			}
			sites = append(sites, s)
			return true
		})
		return nil
	})
	sort.Strings(dirs)
	return sites, dirs, err
}

// knownSources: the lint sources the library DECLARES - every constant of type LintSource in <repo>/v3/lint (read from
// the sources at check time, so a source added together with its parser cases is simply one more declared source), the
// reserved "Unknown" excepted. The list below is only the fallback when the sources cannot be read.
var knownSources = map[lint.LintSource]bool{
	lint.RFC3279: true, lint.RFC5280: true, lint.RFC5480: true, lint.RFC5891: true, lint.RFC6960: true, lint.RFC6962: true, lint.RFC8813: true,
	lint.CABFBaselineRequirements: true, lint.CABFCSBaselineRequirements: true, lint.CABFSMIMEBaselineRequirements: true, lint.CABFEVGuidelines: true,
	lint.MozillaRootStorePolicy: true, lint.AppleRootStorePolicy: true, lint.Community: true, lint.EtsiEsi: true,
}

// declaredSources parses the non-test files of <repo>/v3/lint for constants of type LintSource.
func declaredSources(repo string) (map[lint.LintSource]bool, error) {
	out := map[lint.LintSource]bool{}
	files, err := filepath.Glob(filepath.Join(repo, "v3", "lint", "*.go"))
	if err != nil {
		return nil, err
	}
	fset := token.NewFileSet()
	for _, p := range files {
		if strings.HasSuffix(p, "_test.go") {
			continue
		}
		f, err := parser.ParseFile(fset, p, nil, 0)
		if err != nil {
			return nil, err
		}
		for _, d := range f.Decls {
			gd, ok := d.(*ast.GenDecl)
			if !ok || gd.Tok != token.CONST {
				continue
			}
			for _, sp := range gd.Specs {
				vs, ok := sp.(*ast.ValueSpec)
				if !ok {
					continue
				}
				if id, ok := vs.Type.(*ast.Ident); !ok || id.Name != "LintSource" {
					continue
				}
				for _, v := range vs.Values {
					if bl, ok := v.(*ast.BasicLit); ok && bl.Kind == token.STRING {
						if sv, err := strconv.Unquote(bl.Value); err == nil && lint.LintSource(sv) != lint.UnknownLintSource {
							out[lint.LintSource(sv)] = true
						}
					}
				}
			}
		}
	}
	if len(out) == 0 {
		return nil, fmt.Errorf("no LintSource constants found under %s/v3/lint", repo)
	}
	return out, nil
}

// c12OddNames: deliberately ill-formed names the harness itself registered (own-process scenario): their FORM is not judged
var c12OddNames = map[string]bool{}

var declaredOnce sync.Once

func loadDeclaredSources(c *mon.Ctx) {
	declaredOnce.Do(func() {
		if ds, err := declaredSources(c.Repo); err == nil {
			knownSources = ds
			c.R.Note("declared_sources", len(ds))
		} else {
			c.R.Inconcl("declared lint sources not readable from the tree, using the built-in list: " + err.Error())
		}
	})
}

func c12Once(c *mon.Ctx) {
	g := lint.GlobalRegistry()
	loadDeclaredSources(c)
	sites, dirs, err := census(c.Repo)
	if err != nil {
		c.R.Inconcl("census failed: " + err.Error())
		return
	}
	c.R.Note("census_sites", len(sites))
	c.R.Note("census_dirs", dirs)
	c.R.Count("evaluations", int64(len(sites)))
	names := g.Names()
	c.R.Note("registry_size", len(names))
	// (1) |registry| == number of registration call sites; name sets equal
	censusNames := map[string]int{}
	for _, s := range sites {
		if s.Name == "" {
			c.R.Inconcl("registration without a literal name in " + s.File)
			continue
		}
		censusNames[s.Name]++
		if censusNames[s.Name] > 1 {
			c.V("registered-twice|"+s.Name, "lint name "+s.Name+" appears at more than one registration call site (second: "+s.File+")", s.Name, nil, nil)
		}
	}
	inReg := map[string]bool{}
	for _, n := range names {
		inReg[n] = true
	}
	for _, s := range sites {
		if s.Name != "" && !inReg[s.Name] {
			c.V("not-registered|"+s.Name, fmt.Sprintf("lint %s is defined in %s but absent from the registry of a default build (not linked in, or its registration is lost)", s.Name, s.File), s.Name, nil, nil)
		}
	}
	for _, n := range names {
		if censusNames[n] == 0 {
			c.V("registered-but-not-in-tree|"+n, "registry lists "+n+" but no registration call site in v3/lints names it", n, nil, nil)
		}
	}
	if len(names) != len(sites) {
		c.V("count-mismatch", fmt.Sprintf("registry has %d lints, the lint tree has %d registration call sites", len(names), len(sites)), "", nil, nil)
	}
	c12Invariants(c, g, names, inReg, "default build")
	c12Implementations(c, g)
	c12UnderUse(c, g, names, inReg)
	c.R.Sample(4, map[string]any{"census_sites": len(sites), "registry": len(names), "dirs": dirs, "first_sites": sites[:3]})
}

// c12Invariants: the lookup tables of a registry agree with each other and every lint is well-formed.
func c12Invariants(c *mon.Ctx, g lint.Registry, names []string, inReg map[string]bool, when string) {
	loadDeclaredSources(c)
	// (2) names unique across kinds, sorted
	if !sort.StringsAreSorted(names) {
		c.V("names-not-sorted", when+": "+"Names() is not sorted", "", nil, nil)
	}
	seen := map[string]bool{}
	for _, n := range names {
		if seen[n] {
			c.V("duplicate-name|"+n, when+": "+"Names() lists "+n+" twice", n, nil, nil)
		}
		seen[n] = true
	}
	// (3) exactly one kind answers for each name; listing, by-source and sources agree
	type lk struct {
		kind corpus.Kind
		meta lint.LintMetadata
		impl bool
	}
	byKindList := map[corpus.Kind]map[string]bool{corpus.Cert: {}, corpus.CRL: {}, corpus.OCSP: {}}
	for _, l := range g.CertificateLints().Lints() {
		byKindList[corpus.Cert][l.Name] = true
	}
	for _, l := range g.RevocationListLints().Lints() {
		byKindList[corpus.CRL][l.Name] = true
	}
	for _, l := range g.OcspResponseLints().Lints() {
		byKindList[corpus.OCSP][l.Name] = true
	}
	total := 0
	for k, m := range byKindList {
		total += len(m)
		for n := range m {
			if !inReg[n] {
				c.V("listing-not-in-names|"+n, when+": "+fmt.Sprintf("%s Lints() contains %s which Names() does not list", k, n), n, nil, nil)
			}
		}
	}
	if total != len(names) {
		c.V("listing-size", when+": "+fmt.Sprintf("the three Lints() listings hold %d lints, Names() %d", total, len(names)), "", nil, nil)
	}
	srcUnion := map[string]bool{}
	for _, n := range names {
		var found []lk
		if l := g.CertificateLints().ByName(n); l != nil {
			found = append(found, lk{corpus.Cert, l.LintMetadata, l.Lint != nil && l.Lint() != nil})
		}
		if l := g.RevocationListLints().ByName(n); l != nil {
			found = append(found, lk{corpus.CRL, l.LintMetadata, l.Lint != nil && l.Lint() != nil})
		}
		if l := g.OcspResponseLints().ByName(n); l != nil {
			found = append(found, lk{corpus.OCSP, l.LintMetadata, l.Lint != nil && l.Lint() != nil})
		}
		c.R.Count("evaluations", 1)
		if len(found) != 1 {
			c.V("kinds-answering|"+n, when+": "+fmt.Sprintf("%d lint kinds answer ByName(%s), want exactly 1", len(found), n), n, nil, nil)
			continue
		}
		f := found[0]
		c.R.Distinct("lints_checked", n)
		if !byKindList[f.kind][n] {
			c.V("byname-vs-listing|"+n, when+": "+n+" is found by name but missing from its kind's Lints()", n, nil, nil)
		}
		m := f.meta
		if m.Name != n {
			c.V("name-mismatch|"+n, when+": "+fmt.Sprintf("ByName(%s) returns a lint named %q", n, m.Name), n, nil, nil)
		}
		pre := strings.HasPrefix(n, "e_") || strings.HasPrefix(n, "w_") || strings.HasPrefix(n, "n_")
		if (!pre || len(n) <= 2 || n != strings.ToLower(n) || strings.ContainsAny(n, " \t\r\n")) && !c12OddNames[n] {
			c.V("bad-name|"+n, when+": "+fmt.Sprintf("lint name %q is not a lower-case e_/w_/n_-prefixed name without blanks", n), n, nil, nil)
		}
		if strings.TrimSpace(m.Description) == "" {
			c.V("no-description|"+n, when+": "+n+" has an empty description", n, nil, nil)
		}
		if !knownSources[m.Source] {
			c.V("bad-source|"+n, when+": "+fmt.Sprintf("%s has source %q which is not a declared lint source", n, m.Source), n, nil, nil)
		}
		// ... and known to the library's own parsers, not only to this harness's list of constants
		var viaString lint.LintSource
		viaString.FromString(string(m.Source))
		var viaJSON lint.LintSource
		errJSON := viaJSON.UnmarshalJSON([]byte(strconv.Quote(string(m.Source))))
		if viaString != m.Source || errJSON != nil || viaJSON != m.Source {
			c.V("source-unknown-to-library|"+string(m.Source), when+": "+fmt.Sprintf("%s has source %q, which the library's own LintSource parsers do not know (FromString -> %q, UnmarshalJSON -> %q, %v)", n, m.Source, viaString, viaJSON, errJSON), n, nil, nil)
		}
		if !f.impl {
			c.V("nil-implementation|"+n, when+": "+n+" has a nil constructor or instance", n, nil, nil)
		}
		if !m.EffectiveDate.IsZero() && !m.IneffectiveDate.IsZero() && !m.EffectiveDate.Before(m.IneffectiveDate) {
			c.V("dates|"+n, when+": "+fmt.Sprintf("%s: effective date %s does not precede ineffective date %s", n, fmtDate(m.EffectiveDate), fmtDate(m.IneffectiveDate)), n, nil, nil)
		}
		srcUnion[string(m.Source)] = true
		// lookup by source must contain it
		ok := false
		switch f.kind {
		case corpus.Cert:
			for _, l := range g.CertificateLints().BySource(m.Source) {
				ok = ok || l.Name == n
			}
		case corpus.CRL:
			for _, l := range g.RevocationListLints().BySource(m.Source) {
				ok = ok || l.Name == n
			}
		default:
			for _, l := range g.OcspResponseLints().BySource(m.Source) {
				ok = ok || l.Name == n
			}
		}
		if !ok {
			c.V("bysource|"+n, when+": "+fmt.Sprintf("%s is not returned by BySource(%s) of its kind", n, m.Source), n, nil, nil)
		}
	}
	// union of BySource over Sources() == Lints(), per kind
	gotSrc := map[string]bool{}
	nBySrc := map[corpus.Kind]int{}
	for _, s := range g.Sources() {
		gotSrc[string(s)] = true
		nBySrc[corpus.Cert] += len(g.CertificateLints().BySource(s))
		nBySrc[corpus.CRL] += len(g.RevocationListLints().BySource(s))
		nBySrc[corpus.OCSP] += len(g.OcspResponseLints().BySource(s))
	}
	for k, m := range byKindList {
		if nBySrc[k] != len(m) {
			c.V("bysource-union|"+k.String(), when+": "+fmt.Sprintf("sum of BySource over Sources() = %d %s lints, Lints() = %d", nBySrc[k], k, len(m)), "", nil, nil)
		}
	}
	if !reflect.DeepEqual(gotSrc, srcUnion) {
		c.V("sources", when+": "+fmt.Sprintf("Sources() = %v but the lints' sources are %v", keysOf(gotSrc), keysOf(srcUnion)), "", nil, nil)
	}
	// per-kind lookups must agree with the kind-less one
	for _, k := range []corpus.Kind{corpus.Cert, corpus.CRL, corpus.OCSP} {
		var l []string
		switch k {
		case corpus.Cert:
			l = g.CertificateLints().Names()
		case corpus.CRL:
			l = g.RevocationListLints().Names()
		default:
			l = g.OcspResponseLints().Names()
		}
		if len(l) != len(byKindList[k]) || !sort.StringsAreSorted(l) {
			c.V("kind-names|"+k.String(), when+": "+fmt.Sprintf("%s lookup Names() has %d entries (sorted=%v), Lints() %d", k, len(l), sort.StringsAreSorted(l), len(byKindList[k])), "", nil, nil)
		}
	}
	// the deprecated kind-less lookups (Registry.ByName / BySource, answering for certificate lints with *lint.Lint
	// values) must tell the same story as the certificate lookup
	for _, cl := range g.CertificateLints().Lints() {
		d := g.ByName(cl.Name)
		if d == nil {
			c.V("deprecated-byname|"+cl.Name, when+": Registry.ByName("+cl.Name+") is nil for a registered certificate lint", cl.Name, nil, nil)
			continue
		}
		if d.Name != cl.Name || d.Source != cl.Source || d.Description != cl.Description || d.Citation != cl.Citation || !d.EffectiveDate.Equal(cl.EffectiveDate) || !d.IneffectiveDate.Equal(cl.IneffectiveDate) {
			c.V("deprecated-byname-metadata|"+cl.Name, when+": "+fmt.Sprintf("Registry.ByName(%s) reports name %q source %q window [%s, %s), the certificate lookup %q %q [%s, %s)", cl.Name, d.Name, d.Source, fmtDate(d.EffectiveDate), fmtDate(d.IneffectiveDate), cl.Name, cl.Source, fmtDate(cl.EffectiveDate), fmtDate(cl.IneffectiveDate)), cl.Name, nil, nil)
		}
	}
	for _, s := range g.Sources() {
		want := map[string]bool{}
		for _, cl := range g.CertificateLints().BySource(s) {
			want[cl.Name] = true
		}
		got := map[string]bool{}
		for _, d := range g.BySource(s) {
			got[d.Name] = true
			if d.Source != s {
				c.V("deprecated-bysource|"+string(s), when+": "+fmt.Sprintf("Registry.BySource(%s) returns %s whose source is %q", s, d.Name, d.Source), d.Name, nil, nil)
			}
		}
		if !reflect.DeepEqual(got, want) {
			c.V("deprecated-bysource|"+string(s), when+": "+fmt.Sprintf("Registry.BySource(%s) names %d certificate lints, CertificateLints().BySource %d", s, len(got), len(want)), "", nil, nil)
		}
	}
	c.R.Count("invariant_passes", 1)
}

// c12Solo (own process): "after any addition". Lints of every kind are added through the public API (also the
// deprecated RegisterLint); after each addition the lookup tables must still agree and duplicates must be refused.
func c12Solo(c *mon.Ctx) {
	g := lint.GlobalRegistry()
	pass := func(when string) {
		names := g.Names()
		in := map[string]bool{}
		for _, n := range names {
			in[n] = true
		}
		c12Invariants(c, g, names, in, when)
	}
	pass("before any addition") // also warms whatever the registry caches on first use
	before := len(g.Names())
	adds := []func(){
		func() {
			lint.RegisterOcspResponseLint(&lint.OcspResponseLint{LintMetadata: lint.LintMetadata{Name: "e_verif_c12_ocsp", Description: "verif addition", Citation: "verif", Source: lint.RFC8813}, Lint: func() lint.OcspResponseLintInterface { return probeOCSP{} }})
		},
		func() {
			lint.RegisterRevocationListLint(&lint.RevocationListLint{LintMetadata: lint.LintMetadata{Name: "w_verif_c12_crl", Description: "verif addition", Citation: "verif", Source: lint.AppleRootStorePolicy}, Lint: func() lint.RevocationListLintInterface { return probeCRL{} }})
		},
		func() {
			lint.RegisterCertificateLint(&lint.CertificateLint{LintMetadata: lint.LintMetadata{Name: "n_verif_c12_cert", Description: "verif addition", Citation: "verif", Source: lint.RFC6960}, Lint: func() lint.CertificateLintInterface { return probeCert{} }})
		},
		func() {
			lint.RegisterLint(&lint.Lint{Name: "e_verif_c12_legacy", Description: "verif addition", Citation: "verif", Source: lint.RFC3279, Lint: func() lint.LintInterface { return probeCert{} }})
		},
		func() { // sorts before every existing name
			lint.RegisterCertificateLint(&lint.CertificateLint{LintMetadata: lint.LintMetadata{Name: "e_000_verif_c12_first", Description: "verif addition", Citation: "verif", Source: lint.Community}, Lint: func() lint.CertificateLintInterface { return probeCert{} }})
		},
		// second wave: every kind again, now that every listing has been read at least once
		func() {
			lint.RegisterOcspResponseLint(&lint.OcspResponseLint{LintMetadata: lint.LintMetadata{Name: "w_verif_c12_ocsp2", Description: "verif addition", Citation: "verif", Source: lint.MozillaRootStorePolicy}, Lint: func() lint.OcspResponseLintInterface { return probeOCSP{} }})
		},
		func() {
			lint.RegisterRevocationListLint(&lint.RevocationListLint{LintMetadata: lint.LintMetadata{Name: "n_verif_c12_crl2", Description: "verif addition", Citation: "verif", Source: lint.RFC6962}, Lint: func() lint.RevocationListLintInterface { return probeCRL{} }})
		},
		func() {
			lint.RegisterCertificateLint(&lint.CertificateLint{LintMetadata: lint.LintMetadata{Name: "e_verif_c12_cert2", Description: "verif addition", Citation: "verif", Source: lint.CABFEVGuidelines}, Lint: func() lint.CertificateLintInterface { return probeCert{} }})
		},
	}
	// registries obtained BEFORE the additions (by an empty selection - the registry itself or a view of it - and by
	// selections that keep everything): whatever they list later, their own lookups must keep agreeing with each other
	type view struct {
		reg   lint.Registry
		label string
	}
	var views []view
	for label, o := range map[string]lint.FilterOptions{
		"an empty selection":         {},
		"a match-all pattern":        {NameFilter: regexpAll},
		"excluding an unused source": {ExcludeSources: lint.SourceList{lint.LintSource("NoSuchSource")}},
	} {
		if r, err := g.Filter(o); err == nil && r != nil {
			_ = r.Names()
			views = append(views, view{r, label})
		}
	}
	for k, a := range adds {
		a()
		pass(fmt.Sprintf("after addition %d", k+1))
		for _, v := range views {
			vn := v.reg.Names()
			in := map[string]bool{}
			for _, n := range vn {
				in[n] = true
			}
			c12Invariants(c, v.reg, vn, in, fmt.Sprintf("registry obtained by %s before the additions, after addition %d", v.label, k+1))
			c.R.Count("earlier_view_passes", 1)
		}
		for _, l := range []int{len(g.CertificateLints().Lints()) + len(g.RevocationListLints().Lints()) + len(g.OcspResponseLints().Lints())} {
			if l != before+k+1 {
				c.V("addition-not-in-listing", fmt.Sprintf("after %d additions the three Lints() listings hold %d lints, want %d", k+1, l, before+k+1), "", nil, nil)
			}
		}
		if len(g.Names()) != before+k+1 {
			c.V("addition-not-listed", fmt.Sprintf("after %d additions Names() has %d entries, want %d", k+1, len(g.Names()), before+k+1), "", nil, nil)
		}
	}
	// names that differ from a listed name of ANOTHER kind only by surrounding white space (a trailing blank, the
	// newline of a raw string literal). Such a lint is ill-named by this property's own rule - that part is not judged,
	// the harness registered it - but whatever the registry does with it (refuse it, or list it under its own name), the
	// names it lists must stay unique across kinds and its lookups must keep agreeing with each other.
	firstOf := func(k corpus.Kind) string {
		for _, li := range Inv {
			if li.Kind == k {
				return li.Name
			}
		}
		return ""
	}
	odd := []struct {
		name string
		reg  func(n string)
	}{
		{firstOf(corpus.Cert) + " ", func(n string) {
			lint.RegisterRevocationListLint(&lint.RevocationListLint{LintMetadata: lint.LintMetadata{Name: n, Description: "verif addition", Citation: "verif", Source: lint.Community}, Lint: func() lint.RevocationListLintInterface { return probeCRL{} }})
		}},
		{" " + firstOf(corpus.CRL), func(n string) {
			lint.RegisterOcspResponseLint(&lint.OcspResponseLint{LintMetadata: lint.LintMetadata{Name: n, Description: "verif addition", Citation: "verif", Source: lint.Community}, Lint: func() lint.OcspResponseLintInterface { return probeOCSP{} }})
		}},
		{firstOf(corpus.OCSP) + "\n", func(n string) {
			lint.RegisterCertificateLint(&lint.CertificateLint{LintMetadata: lint.LintMetadata{Name: n, Description: "verif addition", Citation: "verif", Source: lint.Community}, Lint: func() lint.CertificateLintInterface { return probeCert{} }})
		}},
		{"\t" + firstOf(corpus.Cert) + " ", func(n string) {
			lint.RegisterOcspResponseLint(&lint.OcspResponseLint{LintMetadata: lint.LintMetadata{Name: n, Description: "verif addition", Citation: "verif", Source: lint.Community}, Lint: func() lint.OcspResponseLintInterface { return probeOCSP{} }})
		}},
		{"e_verif_c12_cert2 ", func(n string) {
			lint.RegisterRevocationListLint(&lint.RevocationListLint{LintMetadata: lint.LintMetadata{Name: n, Description: "verif addition", Citation: "verif", Source: lint.Community}, Lint: func() lint.RevocationListLintInterface { return probeCRL{} }})
		}},
	}
	for k, od := range odd {
		if strings.TrimSpace(od.name) == "" {
			continue
		}
		c12OddNames[od.name] = true
		nBefore := len(g.Names())
		refused := false
		func() {
			defer func() {
				if recover() != nil {
					refused = true
				}
			}()
			od.reg(od.name)
		}()
		c.R.Count("padded_name_registrations", 1)
		if refused {
			c.R.Count("padded_name_registrations_refused", 1)
		}
		pass(fmt.Sprintf("after registering a lint named %q for another kind (padded name %d, refused=%v)", od.name, k+1, refused))
		if n := len(g.Names()); refused && n != nBefore || !refused && n != nBefore+1 {
			c.V("padded-name-count", fmt.Sprintf("registering a lint named %q (refused=%v) took Names() from %d to %d entries", od.name, refused, nBefore, n), "", nil, nil)
		}
	}
	// the deprecated API used the way old code uses it: ONE lint.Lint value re-used as a template for a family of
	// registrations (name, source and dates changed between the calls), and a value handed out by ByName edited by
	// its holder. Each registered lint keeps what it was registered with; an edit of a handed-out value is the
	// holder's own business.
	{
		tmpl := &lint.Lint{Description: "verif template", Citation: "verif", Lint: func() lint.LintInterface { return probeCert{} }}
		for k, v := range []struct {
			n string
			s lint.LintSource
			e time.Time
		}{{"e_verif_c12_family_a", lint.RFC5280, time.Date(2015, 1, 1, 0, 0, 0, 0, time.UTC)}, {"w_verif_c12_family_b", lint.Community, time.Date(2019, 6, 1, 0, 0, 0, 0, time.UTC)}, {"n_verif_c12_family_c", lint.EtsiEsi, time.Time{}}} {
			tmpl.Name, tmpl.Source, tmpl.EffectiveDate = v.n, v.s, v.e
			lint.RegisterLint(tmpl)
			pass(fmt.Sprintf("after registering family member %d through one re-used deprecated Lint value", k+1))
		}
		tmpl.Name, tmpl.Source = "e_verif_c12_template_edited_afterwards", lint.AppleRootStorePolicy
		pass("after the template value was edited once more (not registered)")
		for _, n := range []string{"e_verif_c12_family_a", g.Names()[9]} {
			if d := g.ByName(n); d != nil {
				d.Name, d.Source, d.EffectiveDate = "e_verif_c12_edited_by_holder", lint.RFC8813, time.Date(2031, 1, 1, 0, 0, 0, 0, time.UTC)
			}
			pass("after a value handed out by ByName(" + n + ") was edited by its holder")
		}
	}
	// registrations the registry must REFUSE (the documented refusal is a panic) and that must leave it untouched:
	// nil lint, a constructor that returns nil, an empty name, a name already taken - through each of the four public
	// registration functions. "Every lint has a name, ... a non-nil implementation" holds for whatever IS registered
	// only because these never get in.
	{
		listing := func() string {
			var l []string
			for _, x := range g.CertificateLints().Lints() {
				l = append(l, "c:"+x.Name)
			}
			for _, x := range g.RevocationListLints().Lints() {
				l = append(l, "r:"+x.Name)
			}
			for _, x := range g.OcspResponseLints().Lints() {
				l = append(l, "o:"+x.Name)
			}
			return strings.Join(g.Names(), ",") + "|" + strings.Join(l, ",")
		}
		taken := g.Names()[5]
		md := func(n string) lint.LintMetadata {
			return lint.LintMetadata{Name: n, Description: "verif refused", Citation: "verif", Source: lint.Community}
		}
		attempts := map[string]func(){
			"nil certificate lint": func() { lint.RegisterCertificateLint(nil) },
			"nil CRL lint":         func() { lint.RegisterRevocationListLint(nil) },
			"nil OCSP lint":        func() { lint.RegisterOcspResponseLint(nil) },
			"nil deprecated lint":  func() { lint.RegisterLint(nil) },
			"certificate lint whose constructor returns nil": func() {
				lint.RegisterCertificateLint(&lint.CertificateLint{LintMetadata: md("e_verif_c12_nilimpl_cert"), Lint: func() lint.CertificateLintInterface { return nil }})
			},
			"CRL lint whose constructor returns nil": func() {
				lint.RegisterRevocationListLint(&lint.RevocationListLint{LintMetadata: md("e_verif_c12_nilimpl_crl"), Lint: func() lint.RevocationListLintInterface { return nil }})
			},
			"OCSP lint whose constructor returns nil": func() {
				lint.RegisterOcspResponseLint(&lint.OcspResponseLint{LintMetadata: md("e_verif_c12_nilimpl_ocsp"), Lint: func() lint.OcspResponseLintInterface { return nil }})
			},
			"deprecated lint whose constructor returns nil": func() {
				lint.RegisterLint(&lint.Lint{Name: "e_verif_c12_nilimpl_legacy", Description: "x", Source: lint.Community, Lint: func() lint.LintInterface { return nil }})
			},
			"certificate lint without constructor": func() {
				lint.RegisterCertificateLint(&lint.CertificateLint{LintMetadata: md("e_verif_c12_noctor_cert")})
			},
			"CRL lint without constructor": func() {
				lint.RegisterRevocationListLint(&lint.RevocationListLint{LintMetadata: md("e_verif_c12_noctor_crl")})
			},
			"OCSP lint without constructor": func() {
				lint.RegisterOcspResponseLint(&lint.OcspResponseLint{LintMetadata: md("e_verif_c12_noctor_ocsp")})
			},
			"certificate lint with an empty name": func() {
				lint.RegisterCertificateLint(&lint.CertificateLint{LintMetadata: md(""), Lint: func() lint.CertificateLintInterface { return probeCert{} }})
			},
			"CRL lint with an empty name": func() {
				lint.RegisterRevocationListLint(&lint.RevocationListLint{LintMetadata: md(""), Lint: func() lint.RevocationListLintInterface { return probeCRL{} }})
			},
			"OCSP lint with an empty name": func() {
				lint.RegisterOcspResponseLint(&lint.OcspResponseLint{LintMetadata: md(""), Lint: func() lint.OcspResponseLintInterface { return probeOCSP{} }})
			},
			"deprecated lint with an empty name": func() {
				lint.RegisterLint(&lint.Lint{Name: "", Description: "x", Source: lint.Community, Lint: func() lint.LintInterface { return probeCert{} }})
			},
			"certificate lint under a taken name": func() {
				lint.RegisterCertificateLint(&lint.CertificateLint{LintMetadata: md(taken), Lint: func() lint.CertificateLintInterface { return probeCert{} }})
			},
			"CRL lint under a taken name": func() {
				lint.RegisterRevocationListLint(&lint.RevocationListLint{LintMetadata: md(taken), Lint: func() lint.RevocationListLintInterface { return probeCRL{} }})
			},
			"OCSP lint under a taken name": func() {
				lint.RegisterOcspResponseLint(&lint.OcspResponseLint{LintMetadata: md(taken), Lint: func() lint.OcspResponseLintInterface { return probeOCSP{} }})
			},
			"deprecated lint under a taken name": func() {
				lint.RegisterLint(&lint.Lint{Name: taken, Description: "x", Source: lint.Community, Lint: func() lint.LintInterface { return probeCert{} }})
			},
		}
		var labels []string
		for l := range attempts {
			labels = append(labels, l)
		}
		sort.Strings(labels)
		for _, l := range labels {
			beforeL := listing()
			refused := false
			func() {
				defer func() {
					if r := recover(); r != nil {
						refused = true
					}
				}()
				attempts[l]()
			}()
			c.R.Count("evaluations", 1)
			c.R.Count("refused_registrations_tried", 1)
			if listing() != beforeL {
				c.V("bad-registration-changed-registry|"+l, "registering a "+l+" changed the registry's names / listings", "", nil, nil)
			} else if !refused {
				c.V("bad-registration-not-refused|"+l, "registering a "+l+" was not refused (no panic, as documented for Register*Lint)", "", nil, nil)
			}
		}
		pass("after the refused registrations")
	}
	// a name registered once must be refused a second time, whatever the kind
	for _, dup := range []func(){
		func() {
			lint.RegisterCertificateLint(&lint.CertificateLint{LintMetadata: lint.LintMetadata{Name: "e_verif_c12_ocsp", Description: "dup", Source: lint.Community}, Lint: func() lint.CertificateLintInterface { return probeCert{} }})
		},
		func() {
			lint.RegisterOcspResponseLint(&lint.OcspResponseLint{LintMetadata: lint.LintMetadata{Name: "e_verif_c12_ocsp", Description: "dup", Source: lint.Community}, Lint: func() lint.OcspResponseLintInterface { return probeOCSP{} }})
		},
	} {
		func() {
			defer func() { _ = recover() }() // Register* panics on a duplicate: that is the documented refusal
			dup()
		}()
	}
	n := 0
	for _, x := range g.Names() {
		if x == "e_verif_c12_ocsp" {
			n++
		}
	}
	found := 0
	if g.CertificateLints().ByName("e_verif_c12_ocsp") != nil {
		found++
	}
	if g.OcspResponseLints().ByName("e_verif_c12_ocsp") != nil {
		found++
	}
	if n != 1 || found != 1 {
		c.V("duplicate-registration-accepted", fmt.Sprintf("registering the name e_verif_c12_ocsp again left it listed %d times and answered by %d kinds", n, found), "", nil, nil)
	}
	pass("after refused duplicates")
}

func init() {
	mon.Register(&mon.Check{
		ID:          "C12",
		Solo:        c12Solo,
		Procs:       func(c *mon.Ctx) int { return 1 },
		Rule:        "exhaustive over the live registry of a default build (the harness imports only the zlint root package, lint and util): every registered lint is checked for naming, description, source, implementation, dates, and for agreement of lookup by name / by source / listing / source list; the expected set is a syntactic census (go/parser) of lint.Register* call sites under v3/lints of the tree under test. In an own process lints of every kind are then added through the public API (incl. the deprecated RegisterLint, a name sorting first, refused duplicates) and the same invariants re-checked after each addition. evaluations = census sites + lints checked; distinct_nontrivial = lints checked.",
		Assumptions: []string{"the census recognises registrations written as lint.Register*Lint(...) with a literal Name, the form every lint file uses"},
		Setup:       setupCommon,
		Once:        c12Once,
		Cases:       func(c *mon.Ctx) int { return 0 },
		RunCase:     func(c *mon.Ctx, i int) {},
		Finish: func(c *mon.Ctx, r *mon.Report, ev *mon.Evidence) []string {
			ev.Coverage["distinct_nontrivial"] = r.SetSize("lints_checked")
			ev.Coverage["exhaustive"] = true
			var gates []string
			if r.SetSize("lints_checked") < 100 {
				gates = append(gates, "fewer than 100 lints checked")
			}
			if r.Counters["invariant_passes"] < 11 {
				gates = append(gates, "the additions scenario (own process) did not complete")
			}
			if n, _ := r.Notes["census_sites"].(float64); n < 100 {
				gates = append(gates, "census found fewer than 100 registration sites")
			}
			return gates
		},
	})
}

// c12UnderUse: the registry of the default build must still be what it was after it has been USED - every seed of
// every kind linted, objects re-dated to every distinct effective / ineffective date of the registry (-1 s, 0, +1 s;
// so that any subset of lints is "not effective" at some point), listings written, configurations generated,
// selections filtered. Compared: the name list, each kind's Lints() (same lint objects in the same order) and the
// source list; then the full invariants again.
func c12UnderUse(c *mon.Ctx, g lint.Registry, names []string, inReg map[string]bool) {
	type snap struct {
		names, sources string
		lints          map[corpus.Kind][]any
	}
	take := func() snap {
		var src []string // Sources() promises a set, not an order (it is built from a map)
		for _, x := range g.Sources() {
			src = append(src, string(x))
		}
		sort.Strings(src)
		s := snap{names: strings.Join(g.Names(), ","), sources: strings.Join(src, ","), lints: map[corpus.Kind][]any{}}
		for _, l := range g.CertificateLints().Lints() {
			s.lints[corpus.Cert] = append(s.lints[corpus.Cert], l)
		}
		for _, l := range g.RevocationListLints().Lints() {
			s.lints[corpus.CRL] = append(s.lints[corpus.CRL], l)
		}
		for _, l := range g.OcspResponseLints().Lints() {
			s.lints[corpus.OCSP] = append(s.lints[corpus.OCSP], l)
		}
		return s
	}
	before := take()
	instants := map[int64]time.Time{}
	for _, li := range Inv {
		for _, t := range []time.Time{li.Meta.EffectiveDate, li.Meta.IneffectiveDate} {
			if !t.IsZero() && t.Year() > 1950 && t.Year() < 2049 {
				for _, d := range []time.Duration{-time.Second, 0, time.Second} {
					instants[t.Add(d).Unix()] = t.Add(d)
				}
			}
		}
	}
	var when []time.Time
	for _, t := range instants {
		when = append(when, t)
	}
	sort.Slice(when, func(i, j int) bool { return when[i].Before(when[j]) })
	uses := 0
	compare := func(after string) bool {
		now := take()
		ok := true
		if now.names != before.names {
			c.V("registry-changed-by-use|names", "Names() of the global registry changed "+after, "", nil, nil)
			ok = false
		}
		if now.sources != before.sources {
			c.V("registry-changed-by-use|sources", "Sources() of the global registry changed "+after, "", nil, nil)
			ok = false
		}
		for _, k := range []corpus.Kind{corpus.Cert, corpus.CRL, corpus.OCSP} {
			a, b := before.lints[k], now.lints[k]
			same := len(a) == len(b)
			for i := 0; same && i < len(a); i++ {
				same = a[i] == b[i]
			}
			if !same {
				c.V("registry-changed-by-use|listing|"+k.String(), fmt.Sprintf("the %s Lints() listing of the global registry (%d lints) is no longer the same lint objects in the same order %s (now %d)", k, len(a), after, len(b)), "", nil, nil)
				ok = false
			}
		}
		return ok
	}
	lintOne := func(o *mon.Obj, how string) bool {
		if o == nil {
			return true
		}
		rs, pv, _ := o.Lint(g)
		uses++
		if pv == nil && rs != nil && uses%97 == 0 {
			old := os.Stdout
			if null, err := os.OpenFile(os.DevNull, os.O_WRONLY, 0); err == nil {
				os.Stdout = null
				formattedoutput.OutputSummary(rs, uses%2 == 0)
				os.Stdout = old
				null.Close()
			}
		}
		if o.Kind != corpus.Cert || uses%50 == 0 {
			return compare("after linting " + o.Kind.String() + " " + o.Name + " (" + how + ")")
		}
		return true
	}
	ok := true
	for _, k := range []corpus.Kind{corpus.OCSP, corpus.CRL, corpus.Cert} {
		for n, idx := range W.ByKind[k] {
			if !ok {
				break
			}
			base := W.Objs[idx]
			ok = lintOne(base.Reparse(), "seed")
			if k == corpus.Cert && n >= 40 {
				continue
			}
			for _, t := range when {
				if !ok {
					break
				}
				ok = lintOne(redate(base, t, 0), "re-dated to "+fmtDate(t))
			}
		}
	}
	var buf bytes.Buffer
	g.WriteJSON(&buf)
	_, _ = g.DefaultConfiguration()
	rng := c.Rng(-12, 0)
	for k := 0; k < 200; k++ {
		_, _ = g.Filter(randFilter(rng, k%3 == 0))
	}
	compare("after listing, default configuration and 200 Filter calls")
	// profiles are another reader of the registry: register a few (every kind of lint in them, a repeated name, a name
	// that is not a lint), look them up, list them - the registry must be what it was
	names = g.Names()
	if len(names) > 12 {
		var mixed []string
		for _, k := range []corpus.Kind{corpus.OCSP, corpus.CRL, corpus.Cert} {
			for _, li := range Inv {
				if li.Kind == k {
					mixed = append(mixed, li.Name)
					break
				}
			}
		}
		lint.RegisterProfile(lint.Profile{Name: "verif_c12_mixed", Description: "verif", Source: lint.Community, LintNames: mixed})
		lint.RegisterProfile(lint.Profile{Name: "verif_c12_tail", Description: "verif", Source: lint.Community, LintNames: append([]string{}, names[len(names)-6:]...)})
		lint.RegisterProfile(lint.Profile{Name: "verif_c12_repeats", Description: "verif", Source: lint.Community, LintNames: []string{names[3], names[3], " " + names[5], "e_verif_no_such_lint"}})
		lint.RegisterProfile(lint.Profile{Name: "verif_c12_empty", Description: "verif", Source: lint.Community})
		for k := 0; k < 3; k++ {
			for _, pn := range []string{"verif_c12_mixed", "verif_c12_tail", "verif_c12_repeats", "verif_c12_empty", "verif_c12_unknown"} {
				_, _ = lint.GetProfile(pn)
			}
			_ = lint.AllProfiles()
		}
		compare("after registering four profiles and looking them up (GetProfile, AllProfiles)")
		c.R.Count("profile_lookups", 1)
	}
	c12Invariants(c, g, g.Names(), inReg, "default build after use")
	c.R.Count("registry_uses", int64(uses))
	c.R.Note("registry_use_instants", len(when))
}

// c12Implementations: "every lint defined in the source tree is present in the registry" also means its RULE BODY.
// A second census lists, per lint package, the types that have both a CheckApplies and an Execute method in a
// lint_*.go file - the lint implementations defined in the tree. Each of them must be the dynamic type of what some
// registered constructor returns; a type that no registered lint instantiates is a lint that is defined but
// unreachable (its name may well be registered - with another lint's body behind it).
func c12Implementations(c *mon.Ctx, g lint.Registry) {
	root := filepath.Join(c.Repo, "v3", "lints")
	fset := token.NewFileSet()
	type methods struct{ applies, execute bool }
	defined := map[string]*methods{} // "<package dir>.<Type>"
	where := map[string]string{}
	_ = filepath.Walk(root, func(p string, info os.FileInfo, err error) error {
		if err != nil || info.IsDir() || !strings.HasSuffix(p, ".go") || strings.HasSuffix(p, "_test.go") || !strings.HasPrefix(filepath.Base(p), "lint_") {
			return nil
		}
		f, err := parser.ParseFile(fset, p, nil, 0)
		if err != nil {
			return nil
		}
		for _, d := range f.Decls {
			fd, ok := d.(*ast.FuncDecl)
			if !ok || fd.Recv == nil || len(fd.Recv.List) != 1 || (fd.Name.Name != "Execute" && fd.Name.Name != "CheckApplies") {
				continue
			}
			t := fd.Recv.List[0].Type
			if st, ok := t.(*ast.StarExpr); ok {
				t = st.X
			}
			id, ok := t.(*ast.Ident)
			if !ok {
				continue
			}
			key := filepath.Base(filepath.Dir(p)) + "." + id.Name
			if defined[key] == nil {
				defined[key] = &methods{}
				where[key] = strings.TrimPrefix(p, c.Repo+"/")
			}
			if fd.Name.Name == "Execute" {
				defined[key].execute = true
			} else {
				defined[key].applies = true
			}
		}
		return nil
	})
	live := map[string][]string{}
	note := func(name string, inst any) {
		t := reflect.TypeOf(inst)
		for t != nil && t.Kind() == reflect.Ptr {
			t = t.Elem()
		}
		if t == nil {
			return
		}
		key := filepath.Base(t.PkgPath()) + "." + t.Name()
		live[key] = append(live[key], name)
	}
	for _, l := range g.CertificateLints().Lints() {
		note(l.Name, l.Lint())
	}
	for _, l := range g.RevocationListLints().Lints() {
		note(l.Name, l.Lint())
	}
	for _, l := range g.OcspResponseLints().Lints() {
		note(l.Name, l.Lint())
	}
	n := 0
	for key, m := range defined {
		if !m.execute || !m.applies {
			continue
		}
		n++
		c.R.Count("evaluations", 1)
		if len(live[key]) == 0 {
			c.V("implementation-not-reachable|"+key, fmt.Sprintf("the lint implementation %s (CheckApplies + Execute, defined in %s) is not what any registered lint's constructor returns: it is defined in the tree but unreachable through the registry", key, where[key]), "", nil, nil)
		}
	}
	shared := 0
	for _, names := range live {
		if len(names) > 1 {
			shared++
		}
	}
	c.R.Note("lint_implementation_types_defined", n)
	c.R.Note("lint_implementation_types_shared_by_several_names", shared)
}
