package checks

import (
	"encoding/json"
	"fmt"
	"os"
	"path/filepath"
	"sort"
	"strings"
	"verif/corpus"

	"github.com/zmap/zlint/v3/lint"

	"verif/mon"
)

// C13 - whatever the tool lists can be used to select.

func cliListNames(args ...string) (map[string]bool, string, int) {
	out, se, code := runCLI(nil, "", append(args, "-list-lints-json")...)
	names := map[string]bool{}
	for _, l := range strings.Split(out, "\n") {
		if strings.TrimSpace(l) == "" {
			continue
		}
		var m struct {
			Name string `json:"name"`
		}
		if json.Unmarshal([]byte(l), &m) == nil && m.Name != "" {
			names[m.Name] = true
		}
	}
	return names, se, code
}

func c13Once(c *mon.Ctx) {
	g := lint.GlobalRegistry()
	// names: accepted alone as include and as exclude name (library)
	for _, n := range g.Names() {
		r, err := g.Filter(lint.FilterOptions{IncludeNames: []string{n}})
		c.R.Count("evaluations", 2)
		if err != nil || r == nil || len(r.Names()) != 1 || r.Names()[0] != n {
			c.V("name-not-includable|"+n, fmt.Sprintf("listed lint name %s is not accepted as an include name: %v", n, err), n, nil, nil)
		}
		r, err = g.Filter(lint.FilterOptions{ExcludeNames: []string{n}})
		if err != nil || r == nil || len(r.Names()) != len(g.Names())-1 {
			c.V("name-not-excludable|"+n, fmt.Sprintf("listed lint name %s is not accepted as an exclude name: %v", n, err), n, nil, nil)
		}
		c.R.Distinct("names_checked", n)
	}
	// sources
	srcs := g.Sources()
	sort.Sort(srcs)
	perSource := map[string]map[string]bool{}
	for _, li := range Inv {
		s := string(li.Meta.Source)
		if perSource[s] == nil {
			perSource[s] = map[string]bool{}
		}
		perSource[s][li.Name] = true
	}
	listedCLI, _, code := runCLI(nil, "", "-list-lints-source")
	if code != 0 {
		c.R.Inconcl("zlint -list-lints-source failed")
	}
	cliSources := strings.Fields(listedCLI)
	c.R.Note("cli_listed_sources", cliSources)
	all := map[string]bool{}
	for _, s := range srcs {
		all[string(s)] = true
	}
	for _, s := range cliSources {
		all[s] = true
	}
	var allSorted []string
	for s := range all {
		allSorted = append(allSorted, s)
	}
	sort.Strings(allSorted)
	for _, s := range allSorted {
		c.R.Distinct("sources_checked", s)
		c.R.Count("evaluations", 6)
		var sl lint.SourceList
		if err := sl.FromString(s); err != nil || len(sl) != 1 || string(sl[0]) != s {
			c.V("source-list-parser|"+s, fmt.Sprintf("listed source %s is rejected by SourceList.FromString: %v", s, err), "", nil, nil)
		}
		if err := sl.FromString(" " + s + " , " + s); err != nil || len(sl) != 2 {
			c.V("source-list-parser-ws|"+s, fmt.Sprintf("listed source %s is rejected in a two-element list with blanks: %v", s, err), "", nil, nil)
		}
		var ls lint.LintSource
		ls.FromString(s)
		if string(ls) != s {
			c.V("source-fromstring|"+s, fmt.Sprintf("LintSource.FromString(%q) = %q", s, ls), "", nil, nil)
		}
		b, _ := json.Marshal(lint.LintSource(s))
		var back lint.LintSource
		if err := json.Unmarshal(b, &back); err != nil || string(back) != s {
			c.V("source-json|"+s, fmt.Sprintf("listed source %s does not survive a JSON round trip: %v -> %q", s, err, back), "", nil, nil)
		}
		// library filter by source
		r, err := g.Filter(lint.FilterOptions{IncludeSources: lint.SourceList{lint.LintSource(s)}})
		if err != nil || len(r.Names()) != len(perSource[s]) {
			c.V("source-filter|"+s, fmt.Sprintf("filtering by listed source %s selects %d lints, want %d (%v)", s, len(r.Names()), len(perSource[s]), err), "", nil, nil)
		}
		// CLI
		got, se, code := cliListNames("-includeSources", s)
		c.R.Count("cli_invocations", 2)
		if code != 0 {
			c.V("cli-include-source|"+s, fmt.Sprintf("zlint -includeSources %s exits %d: %s", s, code, clipS(se, 200)), "", nil, nil)
		} else if !sameSet(got, perSource[s]) {
			c.V("cli-include-source-set|"+s, fmt.Sprintf("zlint -includeSources %s lists %d lints, the registry has %d of that source", s, len(got), len(perSource[s])), "", nil, nil)
		}
		got, se, code = cliListNames("-excludeSources", s)
		wantEx := map[string]bool{}
		for _, li := range Inv {
			if string(li.Meta.Source) != s {
				wantEx[li.Name] = true
			}
		}
		if code != 0 {
			c.V("cli-exclude-source|"+s, fmt.Sprintf("zlint -excludeSources %s exits %d: %s", s, code, clipS(se, 200)), "", nil, nil)
		} else if !sameSet(got, wantEx) {
			c.V("cli-exclude-source-set|"+s, fmt.Sprintf("zlint -excludeSources %s lists %d lints, want %d", s, len(got), len(wantEx)), "", nil, nil)
		}
	}
	// every source the registry lists is listed by the CLI and vice versa
	for _, s := range srcs {
		found := false
		for _, x := range cliSources {
			found = found || x == string(s)
		}
		if !found {
			c.V("cli-list-missing-source|"+string(s), "registry source "+string(s)+" is not printed by -list-lints-source", "", nil, nil)
		}
	}
	// CLI accepts names it lists (sample: every 5th, include and exclude)
	cliAll, _, code := cliListNames()
	if code != 0 || !sameSet(cliAll, func() map[string]bool {
		m := map[string]bool{}
		for _, li := range Inv {
			m[li.Name] = true
		}
		return m
	}()) {
		c.V("cli-list-all", fmt.Sprintf("zlint -list-lints-json lists %d lints, the registry has %d (exit %d)", len(cliAll), len(Inv), code), "", nil, nil)
	}
	step := c.Pick(7, 1)
	for i := 0; i < len(Inv); i += step {
		n := Inv[i].Name
		got, se, code := cliListNames("-includeNames", n)
		c.R.Count("cli_invocations", 2)
		if code != 0 || len(got) != 1 || !got[n] {
			c.V("cli-include-name|"+n, fmt.Sprintf("zlint -includeNames %s: exit %d, lists %d lints: %s", n, code, len(got), clipS(se, 160)), n, nil, nil)
		}
		got, se, code = cliListNames("-excludeNames", " "+n+" ")
		if code != 0 || len(got) != len(Inv)-1 || got[n] {
			c.V("cli-exclude-name|"+n, fmt.Sprintf("zlint -excludeNames %s: exit %d, lists %d lints: %s", n, code, len(got), clipS(se, 160)), n, nil, nil)
		}
	}
	// profiles: every lint a profile names exists; the profile is usable
	pout, _, code := runCLI(nil, "", "-list-profiles")
	nprof := 0
	for _, l := range strings.Split(pout, "\n") {
		if strings.TrimSpace(l) == "" {
			continue
		}
		var p struct {
			Name      string   `json:"name"`
			LintNames []string `json:"lints"`
		}
		if err := json.Unmarshal([]byte(l), &p); err != nil {
			c.R.Inconcl("cannot decode a -list-profiles line: " + clipS(l, 100))
			continue
		}
		nprof++
		c.R.Distinct("profiles_checked", p.Name)
		for _, n := range p.LintNames {
			c.R.Count("evaluations", 1)
			if _, ok := InvBy[n]; !ok {
				c.V("profile-names-unknown-lint|"+p.Name+"|"+n, fmt.Sprintf("profile %s names lint %s which is not registered", p.Name, n), n, nil, nil)
			}
		}
		got, se, code := cliListNames("-profile", p.Name)
		want := map[string]bool{}
		for _, n := range p.LintNames {
			want[strings.TrimSpace(n)] = true
		}
		if code != 0 || !sameSet(got, want) {
			c.V("profile-unusable|"+p.Name, fmt.Sprintf("zlint -profile %s: exit %d, %d lints listed, profile names %d: %s", p.Name, code, len(got), len(want), clipS(se, 160)), "", nil, nil)
		}
	}
	c.R.Note("profiles", nprof)
	if code != 0 {
		c.R.Inconcl("zlint -list-profiles failed")
	}
	// unknown strings are rejected, by library and CLI
	rng := c.Rng(-13, 0)
	unknown := []string{"NoSuchSource", "rfc5280", "CABF_BR ", "CABF BR", "CABF_BR,NoSuch", "RFC52800", "Unknown", "unknown", "cabf_br", "Mozilla Root", "RFC", "*"}
	for i := 0; i < c.Pick(20, 200); i++ {
		s := allSorted[rng.Intn(len(allSorted))]
		switch rng.Intn(5) {
		case 0:
			s = strings.ToLower(s)
			if all[s] {
				continue
			}
		case 1:
			s = s + "X"
		case 2:
			s = s[:len(s)-1]
		case 3:
			s = strings.Replace(s, "_", "-", 1) + "_"
		case 4:
			s = "x" + s
		}
		if !all[s] {
			unknown = append(unknown, s)
		}
	}
	// source lists with empty elements (skipped, as the CLI's comma-separated options allow) around known and unknown
	// sources: every known source is kept, an unknown one is rejected wherever it stands, earlier content is replaced
	if len(allSorted) >= 2 {
		a, b := allSorted[0], allSorted[len(allSorted)-1]
		for _, tc := range []struct {
			raw  string
			want []string // nil = must be rejected
		}{
			{a + ",," + b, []string{a, b}}, {"," + a, []string{a}}, {a + ",", []string{a}}, {a + ", ," + b, []string{a, b}}, {" , " + a + " ,, " + b + " , ", []string{a, b}},
			{a + "," + strings.ToLower(a) + "x", nil}, {a + "," + c13OtherCase(a), nil}, {b + ", " + a + " ," + c13OtherCase(b), nil}, {a + "," + a, []string{a, a}},
			{a + ",,NoSuchSource", nil}, {",,NoSuchSource", nil}, {a + ", ,NoSuchSource," + b, nil}, {"NoSuchSource,," + a, nil}, {a + ",," + b + ",,bogus", nil},
		} {
			sl := lint.SourceList{lint.LintSource(b), lint.LintSource(b), lint.LintSource(b)} // earlier content must be replaced
			err := sl.FromString(tc.raw)
			c.R.Count("evaluations", 1)
			c.R.Distinct("unknown_strings", "list:"+tc.raw)
			var got []string
			for _, x := range sl {
				got = append(got, string(x))
			}
			switch {
			case tc.want == nil && err == nil:
				c.V("unknown-source-accepted|list", fmt.Sprintf("SourceList.FromString(%q) accepts a list with an unknown source (gives %v)", tc.raw, got), "", nil, nil)
			case tc.want != nil && (err != nil || strings.Join(got, ",") != strings.Join(tc.want, ",")):
				c.V("source-list-parser|empty-elements", fmt.Sprintf("SourceList.FromString(%q) = %v, %v; want %v", tc.raw, got, err, tc.want), "", nil, nil)
			}
		}
	}
	// JSON values that are not strings are not sources
	for _, v := range []string{`5`, `0`, `true`, `false`, `[]`, `["RFC5280"]`, `{}`, `{"source":"RFC5280"}`, `3.5`, `[1]`} {
		for _, prior := range []lint.LintSource{"", lint.RFC5280} {
			back := prior
			c.R.Count("evaluations", 1)
			if err := json.Unmarshal([]byte(v), &back); err == nil {
				c.V("unknown-source-accepted|json-non-string", fmt.Sprintf("decoding the JSON value %s into a LintSource holding %q succeeds (gives %q)", v, prior, back), "", nil, nil)
			}
		}
		var m lint.LintMetadata
		if err := json.Unmarshal([]byte(`{"name":"e_x","source":`+v+`}`), &m); err == nil {
			c.V("unknown-source-accepted|json-non-string", fmt.Sprintf("decoding lint metadata whose source is the JSON value %s succeeds (source %q)", v, m.Source), "", nil, nil)
		}
		c.R.Distinct("unknown_strings", "json:"+v)
	}
	for k, u := range unknown {
		var sl lint.SourceList
		c.R.Count("evaluations", 1)
		c.R.Distinct("unknown_strings", u)
		errLib := sl.FromString(u)
		trim := strings.TrimSpace(u)
		isKnownAfterTrim := all[trim]
		if errLib == nil && !isKnownAfterTrim && trim != "" {
			c.V("unknown-source-accepted|lib", fmt.Sprintf("SourceList.FromString(%q) accepted an unknown source (got %v)", u, sl), "", nil, nil)
		}
		if !isKnownAfterTrim {
			// the single-source parser and the JSON decoder: an unknown string must not be taken for a source, also
			// when the target already HOLDS a known source (a stale value is a silent acceptance)
			for _, prior := range []lint.LintSource{"", lint.RFC5280, lint.CABFBaselineRequirements} {
				ls := prior
				ls.FromString(u)
				if all[string(ls)] && ls != lint.UnknownLintSource {
					c.V("unknown-source-accepted|fromstring", fmt.Sprintf("LintSource.FromString(%q) on a variable holding %q leaves / yields the known source %q", u, prior, ls), "", nil, nil)
				}
				back := prior
				q, _ := json.Marshal(u)
				if err := json.Unmarshal(q, &back); err == nil && trim != "" {
					c.V("unknown-source-accepted|json", fmt.Sprintf("decoding the JSON string %s into a LintSource holding %q succeeds (gives %q)", q, prior, back), "", nil, nil)
				}
			}
		}
		if k%3 == 0 || c.Thorough() {
			_, _, code := cliListNames("-includeSources", u)
			c.R.Count("cli_invocations", 1)
			if code == 0 && !isKnownAfterTrim && trim != "" {
				c.V("unknown-source-accepted|cli", fmt.Sprintf("zlint -includeSources %q exits 0", u), "", nil, nil)
			}
		}
	}
	unknownNames := []string{"e_no_such_lint", "E_CA_IS_CA", "e_ca_is_ca_", "ca_is_ca", "", "e_ca_is_ca,,w_ct_sct_policy_count_unsatisfied", "e ca is ca"}
	for _, u := range unknownNames {
		c.R.Count("evaluations", 2)
		if _, err := g.Filter(lint.FilterOptions{IncludeNames: strings.Split(u, ",")}); err == nil {
			c.V("unknown-name-accepted|lib-include", fmt.Sprintf("Filter accepted unknown include name list %q", u), "", nil, nil)
		}
		if _, err := g.Filter(lint.FilterOptions{ExcludeNames: strings.Split(u, ",")}); err == nil {
			c.V("unknown-name-accepted|lib-exclude", fmt.Sprintf("Filter accepted unknown exclude name list %q", u), "", nil, nil)
		}
		if u != "" {
			if _, _, code := cliListNames("-includeNames", u); code == 0 {
				c.V("unknown-name-accepted|cli-include", fmt.Sprintf("zlint -includeNames %q exits 0", u), "", nil, nil)
			}
			if _, _, code := cliListNames("-excludeNames", u); code == 0 {
				c.V("unknown-name-accepted|cli-exclude", fmt.Sprintf("zlint -excludeNames %q exits 0", u), "", nil, nil)
			}
			c.R.Count("cli_invocations", 2)
		}
	}
	// values that LOOK like a reference to something else - a file of names, a directory, a URL, standard input, a shell
	// expansion, a glob: none of them is a listed name or source, so each must be refused (by the library as an
	// unknown name, by the tool with a non-zero exit), whatever exists at the place they point to
	emptyFile := filepath.Join(c.Work, "empty-list.txt")
	_ = os.WriteFile(emptyFile, nil, 0o644)
	listFile := filepath.Join(c.Work, "names.txt")
	_ = os.WriteFile(listFile, []byte(g.Names()[0]+"\n"), 0o644)
	for _, u := range []string{"@" + c.Work, "@" + emptyFile, "@" + listFile, "@/", "@.", "@", "@@", "@/dev/null", "@/proc/self/environ", c.Work, emptyFile, "file://" + listFile, "-", "--", "*", "e_*", "$(echo " + g.Names()[0] + ")", "~", "<" + listFile, "%s", "e_ca_is_ca;w_x"} {
		c.R.Count("evaluations", 2)
		c.R.Count("resource_like_selectors", 1)
		if _, err := g.Filter(lint.FilterOptions{IncludeNames: []string{u}}); err == nil {
			c.V("unknown-name-accepted|lib-include", fmt.Sprintf("Filter accepted the include name %q, which is not a registered lint", u), "", nil, nil)
		}
		if _, err := g.Filter(lint.FilterOptions{ExcludeNames: []string{g.Names()[0], u}}); err == nil {
			c.V("unknown-name-accepted|lib-exclude", fmt.Sprintf("Filter accepted the exclude name %q, which is not a registered lint", u), "", nil, nil)
		}
		var sl lint.SourceList
		if err := sl.FromString(u); err == nil {
			c.V("unknown-source-accepted|list", fmt.Sprintf("SourceList.FromString accepted %q", u), "", nil, nil)
		}
		for _, fl := range []string{"-includeNames", "-excludeNames", "-includeSources", "-excludeSources"} {
			if _, _, code := cliListNames(fl, u); code == 0 {
				c.V("unknown-selector-accepted|cli|"+fl, fmt.Sprintf("zlint %s %q exits 0 although that value is neither a listed name nor a listed source", fl, u), "", nil, nil)
			}
			c.R.Count("cli_invocations", 1)
		}
	}
	// neighbours in the ORDER of names: the registry keeps its names sorted, so a look-up may search, merge or bisect.
	// For every listed name its closest non-names (a character appended, the last character dropped) and the strings
	// beyond both ends of the list must be rejected - alone, behind a listed name and in front of one
	listed := map[string]bool{}
	sortedNames := append([]string{}, g.Names()...)
	sort.Strings(sortedNames)
	for _, n := range sortedNames {
		listed[n] = true
	}
	var neigh []string
	for _, n := range sortedNames {
		neigh = append(neigh, n+"_", n+"0", n[:len(n)-1])
	}
	// ... the same rule under the other two severity prefixes (a name the lint might have carried once, or might be
	// confused with), and the listed name wrapped in characters that LOOK like nothing but are not blanks: a byte order
	// mark, zero-width space / joiner, soft hyphen, NUL, a combining mark, a full-width first letter. Only what
	// strings.TrimSpace removes counts as a surrounding blank; everything else makes an unknown name.
	decor := []func(string) string{
		func(n string) string { return "\ufeff" + n }, func(n string) string { return n + "\ufeff" }, func(n string) string { return "\u200b" + n },
		func(n string) string { return n + "\u200d" }, func(n string) string { return n + "\x00" }, func(n string) string { return "\x00" + n },
		func(n string) string { return n[:2] + "\u00ad" + n[2:] }, func(n string) string { return n + "\u0301" }, func(n string) string { return "\uff45" + n[1:] },
		func(n string) string { return " \ufeff" + n + " " }, func(n string) string { return strings.Replace(n, "_", "-", 1) }, func(n string) string { return n + "\u2060" },
	}
	for ni, n := range sortedNames {
		for _, p := range []string{"e_", "w_", "n_"} {
			if !strings.HasPrefix(n, p) && len(n) > 2 {
				neigh = append(neigh, p+n[2:])
			}
		}
		for d := 0; d < c.Pick(2, len(decor)); d++ {
			neigh = append(neigh, decor[(ni+d*5)%len(decor)](n))
		}
	}
	extrasStart := len(neigh)
	if len(sortedNames) > 0 {
		first, last := sortedNames[0], sortedNames[len(sortedNames)-1]
		neigh = append(neigh, "zzzz", "~", "\u00ff", "x_no_such_lint", "z", last+"a", last+"z", "0", "a", "A", "_", "!", first[:1], first[:len(first)/2], "e", "e_", "w_", "n_", "w_zzzz", "n_zzzz", "e_zzzz", "e_0")
	}
	nNeigh := 0
	for k, u := range neigh {
		if listed[strings.TrimSpace(u)] || strings.TrimSpace(u) == "" {
			continue
		}
		nNeigh++
		valid := sortedNames[(k*7)%len(sortedNames)]
		for vi, list := range [][]string{{u}, {valid, u}, {u, valid}} {
			c.R.Count("evaluations", 2)
			if _, err := g.Filter(lint.FilterOptions{IncludeNames: list}); err == nil {
				c.V("unknown-name-accepted|lib-include", fmt.Sprintf("Filter accepted the include name list %q although %q is not a registered lint (a neighbour of listed names, list shape %d)", list, u, vi), "", nil, nil)
			}
			if _, err := g.Filter(lint.FilterOptions{ExcludeNames: list}); err == nil {
				c.V("unknown-name-accepted|lib-exclude", fmt.Sprintf("Filter accepted the exclude name list %q although %q is not a registered lint (a neighbour of listed names, list shape %d)", list, u, vi), "", nil, nil)
			}
		}
		if k >= extrasStart || k%c.Pick(97, 11) == 0 { // the strings beyond the ends always, the per-name neighbours sampled
			if _, _, code := cliListNames("-includeNames", valid+","+u); code == 0 {
				c.V("unknown-name-accepted|cli-include", fmt.Sprintf("zlint -includeNames %q exits 0", valid+","+u), "", nil, nil)
			}
			if _, _, code := cliListNames("-excludeNames", u); code == 0 {
				c.V("unknown-name-accepted|cli-exclude", fmt.Sprintf("zlint -excludeNames %q exits 0", u), "", nil, nil)
			}
			c.R.Count("cli_invocations", 2)
		}
	}
	c.R.Count("unknown_name_neighbours", int64(nNeigh))
	if _, _, code := cliListNames("-profile", "no_such_profile"); code == 0 {
		c.V("unknown-profile-accepted", "zlint -profile no_such_profile exits 0", "", nil, nil)
	}
	c.R.Sample(4, map[string]any{"sources": allSorted, "profiles": nprof, "unknown_strings_tried": unknown[:8]})
}

// c13LibPass checks, on the live registry as it is NOW, that every listed name is usable as include and
// exclude name and every listed source is accepted by the parsers and selects exactly its lints.
func c13LibPass(c *mon.Ctx, when string, added ...string) {
	g := lint.GlobalRegistry()
	inv := mon.Inventory(g)
	names := g.Names()
	have := map[string]bool{}
	for _, n := range names {
		have[n] = true
	}
	for _, a := range added { // what the harness itself registered must be listed and selectable
		if !have[a] {
			c.V("added-lint-not-listed|"+when, fmt.Sprintf("%s: lint %s was registered but Names() does not list it", when, a), a, nil, nil)
		}
		r, err := g.Filter(lint.FilterOptions{IncludeNames: []string{a}})
		if err != nil || r == nil || len(mon.Inventory(r)) != 1 {
			c.V("added-lint-not-selectable|"+when, fmt.Sprintf("%s: registered lint %s cannot be selected by name: %v", when, a, err), a, nil, nil)
		}
	}
	if len(inv) != len(names) {
		c.V("listing-vs-lookup|"+when, fmt.Sprintf("%s: Names() lists %d names but only %d are found by the per-kind lookups", when, len(names), len(inv)), "", nil, nil)
	}
	for _, n := range names {
		c.R.Count("evaluations", 2)
		r, err := g.Filter(lint.FilterOptions{IncludeNames: []string{n}})
		if err != nil || r == nil || len(r.Names()) != 1 || r.Names()[0] != n {
			c.V("name-not-includable|"+when, fmt.Sprintf("%s: listed lint name %s is not accepted as an include name: %v", when, n, err), n, nil, nil)
		}
		r, err = g.Filter(lint.FilterOptions{ExcludeNames: []string{" " + n}})
		if err != nil || r == nil || len(r.Names()) != len(names)-1 {
			c.V("name-not-excludable|"+when, fmt.Sprintf("%s: listed lint name %s is not accepted as an exclude name: %v", when, n, err), n, nil, nil)
		}
	}
	per := map[lint.LintSource]int{}
	for _, li := range inv {
		per[li.Meta.Source]++
	}
	listed := map[lint.LintSource]bool{}
	for _, s := range g.Sources() {
		listed[s] = true
		c.R.Count("evaluations", 2)
		var sl lint.SourceList
		if err := sl.FromString(string(s)); err != nil {
			c.V("source-list-parser|"+when, fmt.Sprintf("%s: listed source %s rejected by SourceList.FromString: %v", when, s, err), "", nil, nil)
		}
		r, err := g.Filter(lint.FilterOptions{IncludeSources: lint.SourceList{s}})
		if err != nil || len(r.Names()) != per[s] {
			c.V("source-filter|"+when, fmt.Sprintf("%s: filtering by listed source %s selects %d lints, the registry holds %d", when, s, len(r.Names()), per[s]), "", nil, nil)
		}
	}
	for s := range per {
		if !listed[s] {
			c.V("source-not-listed|"+when, fmt.Sprintf("%s: source %s of a registered lint is missing from Sources()", when, s), "", nil, nil)
		}
	}
	c.R.Count("lib_passes", 1)
}

// c13Solo (own process): additions. After selections have been made (so that any cache is warm), lints of
// each kind are registered through the public API; everything listed afterwards must still be selectable.
func c13Solo(c *mon.Ctx) {
	c13LibPass(c, "before any addition")
	// the profile mechanism (no profile ships with the tree today, so one is registered through the public API):
	// a registered profile is listed, retrievable, and selects exactly the lints it names - also when it is
	// added to options twice or next to other include names
	names := lint.GlobalRegistry().Names()
	pl := []string{names[3], names[len(names)/2], names[len(names)-2]}
	lint.RegisterProfile(lint.Profile{Name: "verif_profile", Description: "verif", Citation: "verif", Source: "verif", LintNames: pl})
	if p, ok := lint.GetProfile("verif_profile"); !ok || len(p.LintNames) != 3 {
		c.V("profile-not-retrievable", "a registered profile cannot be retrieved by name", "", nil, nil)
	} else {
		found := false
		for _, ap := range lint.AllProfiles() {
			found = found || ap.Name == "verif_profile"
		}
		if !found {
			c.V("profile-not-listed", "a registered profile is missing from AllProfiles()", "", nil, nil)
		}
		for k, pre := range [][]string{nil, {}, {names[7]}} {
			o := lint.FilterOptions{IncludeNames: pre}
			o.AddProfile(p)
			if k == 1 {
				o.AddProfile(p)
			}
			r, err := lint.GlobalRegistry().Filter(o)
			want := 3 + len(pre)
			if err != nil || len(r.Names()) != want {
				c.V("profile-selection", fmt.Sprintf("a profile naming 3 lints (added to %d other include names) selects %d lints: %v", len(pre), len(r.Names()), err), "", nil, nil)
			}
			c.R.Count("evaluations", 1)
		}
		c.R.Distinct("profiles_checked", "verif_profile (registered by the harness)")
	}
	if _, ok := lint.GetProfile("no_such_profile"); ok {
		c.V("unknown-profile-found", "GetProfile answers for a profile that was never registered", "", nil, nil)
	}
	c13ProfileHistories(c)
	mk := func(name string, src lint.LintSource) lint.LintMetadata {
		return lint.LintMetadata{Name: name, Description: "verif addition", Citation: "verif", Source: src}
	}
	steps := []struct {
		what string
		do   func()
	}{
		{"after adding an OCSP lint", func() {
			lint.RegisterOcspResponseLint(&lint.OcspResponseLint{LintMetadata: mk("e_verif_added_ocsp", lint.RFC8813), Lint: func() lint.OcspResponseLintInterface { return probeOCSP{} }})
		}},
		{"after adding a CRL lint", func() {
			lint.RegisterRevocationListLint(&lint.RevocationListLint{LintMetadata: mk("w_verif_added_crl", lint.RFC5891), Lint: func() lint.RevocationListLintInterface { return probeCRL{} }})
		}},
		{"after adding a certificate lint", func() {
			lint.RegisterCertificateLint(&lint.CertificateLint{LintMetadata: mk("n_verif_added_cert", lint.RFC6960), Lint: func() lint.CertificateLintInterface { return probeCert{} }})
		}},
		{"after adding a second OCSP lint", func() {
			lint.RegisterOcspResponseLint(&lint.OcspResponseLint{LintMetadata: mk("e_verif_added_ocsp2", lint.CABFCSBaselineRequirements), Lint: func() lint.OcspResponseLintInterface { return probeOCSP{} }})
		}},
		{"after adding a lint through the deprecated RegisterLint", func() {
			lint.RegisterLint(&lint.Lint{Name: "e_verif_added_legacy", Description: "verif addition", Citation: "verif", Source: lint.EtsiEsi, Lint: func() lint.LintInterface { return probeCert{} }})
		}},
	}
	steps = append(steps, struct {
		what string
		do   func()
	}{"after registering a renamed variant of a lint looked up through the deprecated ByName", func() {
		if v := lint.GlobalRegistry().ByName(someCertLint()); v != nil {
			v.Name = "e_verif_added_variant"
			lint.RegisterLint(v)
		}
	}}, struct {
		what string
		do   func()
	}{"after registering two lints from one re-used deprecated Lint value", func() {
		t := &lint.Lint{Name: "e_verif_added_tmpl_a", Description: "verif addition", Citation: "verif", Source: lint.RFC5280, Lint: func() lint.LintInterface { return probeCert{} }}
		lint.RegisterLint(t)
		t.Name, t.Source = "w_verif_added_tmpl_b", lint.Community
		lint.RegisterLint(t)
	}})
	addedNames := []string{"e_verif_added_ocsp", "w_verif_added_crl", "n_verif_added_cert", "e_verif_added_ocsp2", "e_verif_added_legacy", "e_verif_added_variant", "e_verif_added_tmpl_a"}
	for k, st := range steps {
		st.do()
		c13LibPass(c, st.what, addedNames[:k+1]...)
	}
}

func sameSet(a, b map[string]bool) bool {
	if len(a) != len(b) {
		return false
	}
	for k := range a {
		if !b[k] {
			return false
		}
	}
	return true
}

func init() {
	mon.Register(&mon.Check{
		ID:          "C13",
		Procs:       func(c *mon.Ctx) int { return 1 },
		Rule:        "exhaustive over what the live registry and the real CLI list: every name is used alone as include and exclude name (library; CLI for every 7th at quick, all at thorough); every source goes through SourceList.FromString, LintSource.FromString, a JSON round trip, the library filter and `zlint -includeSources/-excludeSources X -list-lints-json` (exact set compared); every profile printed by -list-profiles is resolved and used; seeded unknown sources / names / profiles must be rejected by library and CLI; in an own process, lints of every kind are then ADDED through the public Register* API after selections were made, and everything listed must still be selectable after each addition. distinct_nontrivial = names + sources + profiles + unknown strings checked.",
		Assumptions: []string{"profiles are read from the real CLI's -list-profiles output (the harness does not link the profiles package)"},
		Setup:       setupCommon,
		Once:        c13Once,
		Solo:        c13Solo,
		Cases:       func(c *mon.Ctx) int { return 0 },
		RunCase:     func(c *mon.Ctx, i int) {},
		StallSecs:   900,
		Finish: func(c *mon.Ctx, r *mon.Report, ev *mon.Evidence) []string {
			ev.Coverage["unknown_name_neighbours_rejected"] = r.Counters["unknown_name_neighbours"]
			ev.Coverage["distinct_nontrivial"] = r.SetSize("names_checked") + r.SetSize("sources_checked") + r.SetSize("profiles_checked") + r.SetSize("unknown_strings")
			ev.Coverage["exhaustive"] = true
			ev.Coverage["sources_checked"] = r.SetKeys("sources_checked")
			ev.Coverage["profiles_checked"] = r.SetKeys("profiles_checked")
			var gates []string
			if r.SetSize("names_checked") < 100 || r.SetSize("sources_checked") < 5 {
				gates = append(gates, "too few names/sources checked")
			}
			if r.Counters["lib_passes"] < 6 {
				gates = append(gates, "the additions scenario (own process) did not complete")
			}
			if r.Counters["cli_invocations"] < 50 {
				gates = append(gates, "CLI part did not run")
			}
			return gates
		},
	})
}

// c13ProfileHistories: profiles registered in every way the public API allows - all lint names at once (so the two
// hyphenated names and every kind are in), one profile per source, a name list with repeats, and the SAME profile
// name registered two and three times with different lists (whether a later registration replaces or extends the
// earlier one is not the property's business) - and after each step: every lint named by every registered profile
// exists, and the profile is usable as a selection that yields exactly the lints it names.
func c13ProfileHistories(c *mon.Ctx) {
	g := lint.GlobalRegistry()
	names := g.Names()
	exists := func(n string) bool {
		return g.CertificateLints().ByName(n) != nil || g.RevocationListLints().ByName(n) != nil || g.OcspResponseLints().ByName(n) != nil
	}
	check := func(after string) {
		for _, p := range lint.AllProfiles() {
			want := map[string]bool{}
			bad := false
			for _, n := range p.LintNames {
				want[n] = true
				if !exists(n) {
					bad = true
					c.V("profile-names-unknown-lint|"+p.Name, fmt.Sprintf("%s: profile %s names lint %q which is not registered", after, p.Name, n), n, nil, nil)
				}
			}
			c.R.Count("evaluations", 1)
			c.R.Count("profile_history_checks", 1)
			if bad || len(want) == 0 {
				continue
			}
			var o lint.FilterOptions
			o.AddProfile(p)
			r, err := g.Filter(o)
			if err != nil {
				c.V("profile-unusable|"+p.Name, fmt.Sprintf("%s: selecting by profile %s fails: %v", after, p.Name, err), "", nil, nil)
				continue
			}
			got := r.Names()
			ok := len(got) == len(want)
			for _, n := range got {
				ok = ok && want[n]
			}
			if !ok {
				c.V("profile-selection|"+p.Name, fmt.Sprintf("%s: profile %s names %d distinct lints, selecting by it yields %d", after, p.Name, len(want), len(got)), "", nil, nil)
			}
		}
	}
	reg := func(name string, l []string) {
		lint.RegisterProfile(lint.Profile{Name: name, Description: "verif", Citation: "verif", Source: "verif", LintNames: l})
	}
	reg("verif_all", append([]string{}, names...))
	check("after a profile with every lint name")
	var hyph, crl []string
	for _, li := range Inv {
		if strings.ContainsAny(li.Name, "-") {
			hyph = append(hyph, li.Name)
		}
		if li.Kind != corpus.Cert {
			crl = append(crl, li.Name)
		}
	}
	c.R.Note("hyphenated_lint_names", hyph)
	bySrc := map[lint.LintSource][]string{}
	for _, li := range Inv {
		bySrc[li.Meta.Source] = append(bySrc[li.Meta.Source], li.Name)
	}
	for _, src := range allSources() {
		reg("verif_src_"+strings.ToLower(string(src)), bySrc[src])
	}
	check("after one profile per source")
	reg("verif_repeats", []string{names[0], names[1], names[0], names[1], names[2]})
	check("after a profile with repeated names")
	// the same profile name registered again: first half, then second half (which holds the hyphenated names or not),
	// then the CRL / OCSP names, then everything
	half := len(names) / 2
	reg("verif_twice", append([]string{}, names[:half]...))
	check("after the first registration of a profile name")
	reg("verif_twice", append([]string{}, names[half:]...))
	check("after the SECOND registration of the same profile name")
	reg("verif_twice", append(append([]string{}, hyph...), crl...))
	check("after the THIRD registration of the same profile name")
	reg("verif_src_"+strings.ToLower(string(lint.MozillaRootStorePolicy)), append([]string{}, names...))
	check("after re-registering a per-source profile with every name")
	// options stacked from profiles: two separate FilterOptions values each take the same base profile first (its
	// name list built by append, so it has spare capacity) and then a different second profile; the first options
	// value, left untouched, must still select base + its own second profile after the other one was built, and the
	// registered profiles must still name what they were registered with
	base := make([]string, 0, 64)
	base = append(base, names[10], names[20], names[30])
	reg("verif_stack_base", base)
	reg("verif_stack_p2", []string{names[40], names[41]})
	reg("verif_stack_p3", []string{names[50], names[51], names[52]})
	pb, okb := lint.GetProfile("verif_stack_base")
	p2, ok2 := lint.GetProfile("verif_stack_p2")
	p3, ok3 := lint.GetProfile("verif_stack_p3")
	if okb && ok2 && ok3 {
		sel := func(o lint.FilterOptions) string {
			r, err := g.Filter(o)
			if err != nil {
				return "error: " + err.Error()
			}
			return strings.Join(r.Names(), ",")
		}
		var oA lint.FilterOptions
		oA.AddProfile(pb)
		oA.AddProfile(p2)
		first := sel(oA)
		wantA := []string{names[10], names[20], names[30], names[40], names[41]}
		sort.Strings(wantA)
		if first != strings.Join(wantA, ",") {
			c.V("profile-options|stacked", fmt.Sprintf("options built from profiles base + p2 select %q, want %q", clipS(first, 200), strings.Join(wantA, ",")), "", nil, nil)
		}
		var oB lint.FilterOptions
		oB.AddProfile(pb)
		oB.AddProfile(p3)
		_ = sel(oB)
		if again := sel(oA); again != first {
			c.V("profile-options|earlier-options-changed", fmt.Sprintf("an options value built from profiles base + p2 selects %q after ANOTHER options value was built from base + p3 (before: %q)", clipS(again, 200), clipS(first, 200)), "", nil, nil)
		}
		if pb2, _ := lint.GetProfile("verif_stack_base"); strings.Join(pb2.LintNames, ",") != strings.Join([]string{names[10], names[20], names[30]}, ",") {
			c.V("profile-options|profile-changed", fmt.Sprintf("the registered profile verif_stack_base now names %v", pb2.LintNames), "", nil, nil)
		}
		c.R.Count("evaluations", 3)
		c.R.Count("profile_history_checks", 3)
	}
	check("after options were stacked from profiles")
	c.R.Distinct("profiles_checked", "profile histories (registered by the harness)")
}

// c13OtherCase returns s with the letter case of every letter flipped (a string that is not s, and not a source,
// but equal to s under case folding).
func c13OtherCase(s string) string {
	b := []byte(s)
	for i, ch := range b {
		switch {
		case ch >= 'a' && ch <= 'z':
			b[i] = ch - 32
		case ch >= 'A' && ch <= 'Z':
			b[i] = ch + 32
		}
	}
	return string(b)
}
