package checks

import (
	"bytes"
	"encoding/json"
	"fmt"
	"math"
	"os"
	"strings"
	"time"
	"unicode/utf8"
	"verif/corpus"

	zlint "github.com/zmap/zlint/v3"
	"github.com/zmap/zlint/v3/formattedoutput"
	"github.com/zmap/zlint/v3/lint"

	"verif/mon"
)

// C14 - JSON output is faithful and reversible.

var c14Mut mon.MutStats

// refUTF8 is the byte-wise reference for what a JSON string can carry: every
// byte that is not part of a well-formed UTF-8 sequence (RFC 3629 table)
// becomes U+FFFD, everything else is kept.
func refUTF8(s string) string {
	var out []byte
	b := []byte(s)
	for i := 0; i < len(b); {
		n := wellFormedLen(b[i:])
		if n == 0 {
			out = append(out, 0xEF, 0xBF, 0xBD)
			i++
			continue
		}
		out = append(out, b[i:i+n]...)
		i += n
	}
	return string(out)
}

func wellFormedLen(b []byte) int {
	c := b[0]
	in := func(x byte, lo, hi byte) bool { return x >= lo && x <= hi }
	switch {
	case c < 0x80:
		return 1
	case in(c, 0xC2, 0xDF):
		if len(b) >= 2 && in(b[1], 0x80, 0xBF) {
			return 2
		}
	case c == 0xE0:
		if len(b) >= 3 && in(b[1], 0xA0, 0xBF) && in(b[2], 0x80, 0xBF) {
			return 3
		}
	case in(c, 0xE1, 0xEC) || in(c, 0xEE, 0xEF):
		if len(b) >= 3 && in(b[1], 0x80, 0xBF) && in(b[2], 0x80, 0xBF) {
			return 3
		}
	case c == 0xED:
		if len(b) >= 3 && in(b[1], 0x80, 0x9F) && in(b[2], 0x80, 0xBF) {
			return 3
		}
	case c == 0xF0:
		if len(b) >= 4 && in(b[1], 0x90, 0xBF) && in(b[2], 0x80, 0xBF) && in(b[3], 0x80, 0xBF) {
			return 4
		}
	case in(c, 0xF1, 0xF3):
		if len(b) >= 4 && in(b[1], 0x80, 0xBF) && in(b[2], 0x80, 0xBF) && in(b[3], 0x80, 0xBF) {
			return 4
		}
	case c == 0xF4:
		if len(b) >= 4 && in(b[1], 0x80, 0x8F) && in(b[2], 0x80, 0xBF) && in(b[3], 0x80, 0xBF) {
			return 4
		}
	}
	return 0
}

// c14RoundTrip judges one ResultSet.
func c14RoundTrip(c *mon.Ctx, rs *zlint.ResultSet, how string, in map[string][]byte) {
	c.R.Count("evaluations", 1)
	b, err := json.Marshal(rs)
	if err != nil {
		c.V("marshal-error", "json.Marshal(ResultSet) failed: "+err.Error()+" ("+how+")", "", in, nil)
		return
	}
	var back zlint.ResultSet
	if err := json.Unmarshal(b, &back); err != nil {
		c.V("unmarshal-error", "decoding the encoded ResultSet failed: "+err.Error()+" ("+how+")", "", in, nil)
		return
	}
	if back.Version != rs.Version || back.Timestamp != rs.Timestamp {
		c.V("version-timestamp", fmt.Sprintf("version/timestamp %d/%d decode as %d/%d (%s)", rs.Version, rs.Timestamp, back.Version, back.Timestamp, how), "", in, nil)
	}
	if back.NoticesPresent != rs.NoticesPresent || back.WarningsPresent != rs.WarningsPresent || back.ErrorsPresent != rs.ErrorsPresent || back.FatalsPresent != rs.FatalsPresent {
		c.V("flags", "presence flags change across the JSON round trip ("+how+")", "", in, nil)
	}
	if len(back.Results) != len(rs.Results) {
		c.V("result-count", fmt.Sprintf("%d results encode/decode as %d (%s)", len(rs.Results), len(back.Results), how), "", in, nil)
	}
	for n, r := range rs.Results {
		if r == nil {
			continue
		}
		g, ok := back.Results[n]
		if !ok || g == nil {
			c.V("result-lost|"+n, "result of "+n+" is lost across the JSON round trip ("+how+")", n, in, nil)
			continue
		}
		if g.Status != r.Status {
			c.V(fmt.Sprintf("status-changed|%s->%s", r.Status, g.Status), fmt.Sprintf("%s: status %s decodes as %s (%s)", n, r.Status, g.Status, how), n, in, nil)
		}
		want := refUTF8(r.Details)
		if g.Details != want {
			c.V("details-changed|"+n, fmt.Sprintf("%s: details %q decode as %q, want %q (%s)", n, clipS(r.Details, 80), clipS(g.Details, 80), clipS(want, 80), how), n, in, nil)
		}
		if r.Details != "" {
			c.R.Count("details_compared", 1)
			if !utf8.ValidString(r.Details) {
				c.R.Count("details_with_invalid_utf8", 1)
			} else if strings.IndexFunc(r.Details, func(x rune) bool { return x < 0x20 || x > 0x7e || x == '"' || x == '\\' || x == '<' || x == '&' }) >= 0 {
				c.R.Count("details_with_special_chars", 1)
			}
		}
	}
	// the Results map alone (what the CLI prints)
	b2, err := json.Marshal(rs.Results)
	if err == nil {
		var m map[string]*lint.LintResult
		if err := json.Unmarshal(b2, &m); err != nil || len(m) != len(rs.Results) {
			c.V("results-map", fmt.Sprintf("Results map does not decode back (%v, %d vs %d) (%s)", err, len(m), len(rs.Results), how), "", in, nil)
		}
	}
}

var c14Labels = map[lint.LintStatus]string{
	lint.Reserved: "reserved", lint.NA: "NA", lint.NE: "NE", lint.Pass: "pass", lint.Notice: "info", lint.Warn: "warn", lint.Error: "error", lint.Fatal: "fatal",
}

// c14Churn exercises the other public operations that read the status / label tables (the summary tables of
// formattedoutput in both forms, the registry listing, String()) - "stable" labels must survive them.
func c14Churn(rs *zlint.ResultSet) {
	old := os.Stdout
	if null, err := os.OpenFile(os.DevNull, os.O_WRONLY, 0); err == nil {
		os.Stdout = null
		formattedoutput.OutputSummary(rs, false)
		formattedoutput.OutputSummary(rs, true)
		os.Stdout = old
		null.Close()
	}
	var buf bytes.Buffer
	lint.GlobalRegistry().WriteJSON(&buf)
	for st := lint.Reserved; st <= lint.Fatal+1; st++ {
		_ = st.String()
	}
}

func c14Once(c *mon.Ctx) {
	seen := c14LabelTable(c, "at start")
	if o := W.Objs[0]; o != nil {
		if rs, pv, _ := o.Lint(lint.GlobalRegistry()); pv == nil && rs != nil {
			c14Churn(rs)
			c14Churn(&zlint.ResultSet{Results: map[string]*lint.LintResult{}})
			c14LabelTable(c, "after summary tables and listing were produced")
			c.R.Count("label_table_passes_after_churn", 1)
		}
	}
	if len(seen) < 8 { // the label table is already refuted; the probes below are built from it
		return
	}
	c14OnceRest(c, seen)
}

// (b) labels
func c14LabelTable(c *mon.Ctx, when string) map[string]lint.LintStatus {
	seen := map[string]lint.LintStatus{}
	// the eight statuses are the values 0..7 in the documented order (exported constants are part of what is "stable")
	for i, st := range []lint.LintStatus{lint.Reserved, lint.NA, lint.NE, lint.Pass, lint.Notice, lint.Warn, lint.Error, lint.Fatal} {
		if int(st) != i {
			c.V(fmt.Sprintf("status-value-changed|%d", i), fmt.Sprintf("the status constant documented as %q (value %d) now has the value %d (%s)", c14Labels[lint.LintStatus(i)], i, int(st), when), "", nil, nil)
			return seen
		}
	}
	for st := lint.Reserved; st <= lint.Fatal; st++ {
		b, err := json.Marshal(st)
		c.R.Count("evaluations", 1)
		if err != nil {
			c.V("label-marshal", fmt.Sprintf("status %d does not marshal: %v", int(st), err), "", nil, nil)
			continue
		}
		var lbl string
		_ = json.Unmarshal(b, &lbl)
		if lbl != c14Labels[st] {
			c.V(fmt.Sprintf("label-changed|%d", int(st)), fmt.Sprintf("status %d is encoded as %q, the documented label is %q", int(st), lbl, c14Labels[st]), "", nil, nil)
		}
		if prev, dup := seen[lbl]; dup {
			c.V("label-shared", fmt.Sprintf("statuses %d and %d share the label %q", int(prev), int(st), lbl), "", nil, nil)
		}
		seen[lbl] = st
		var back lint.LintStatus = 99
		if err := json.Unmarshal(b, &back); err != nil || back != st {
			c.V(fmt.Sprintf("label-decode|%d", int(st)), fmt.Sprintf("label %s decodes as %d (%v), want %d (%s)", b, int(back), err, int(st), when), "", nil, nil)
		}
	}
	return seen
}

func c14OnceRest(c *mon.Ctx, seen map[string]lint.LintStatus) {
	bad := []string{`"PASS"`, `"Pass"`, `"na"`, `"ne"`, `"Error"`, `"ERROR"`, `"warning"`, `"notice"`, `"Notice"`, `"fail"`, `"ok"`, `""`, `" pass"`, `"pass "`, `"pass\n"`, `3`, `0`, `7`, `-1`, `3.0`, `true`, `false`, `[]`, `{}`, `["pass"]`, `{"result":"pass"}`, `"reserved "`, `"n/a"`, `"N/A"`, `"inf"`, `"information"`, `"fatal!"`, `"passpass"`, `"p"`}
	rng := c.Rng(-14, 0)
	for i := 0; i < c.Pick(200, 5000); i++ {
		base := c14Labels[lint.LintStatus(rng.Intn(8))]
		var s string
		switch rng.Intn(6) {
		case 0:
			s = strings.ToUpper(base)
		case 1:
			s = base + string(rune('a'+rng.Intn(26)))
		case 2:
			s = base[1:]
		case 3:
			s = strings.Title(base) //nolint
		case 4:
			bb := make([]byte, 1+rng.Intn(6))
			for k := range bb {
				bb[k] = byte('a' + rng.Intn(26))
			}
			s = string(bb)
		case 5:
			s = base[:len(base)-1]
		}
		if _, isLabel := seen[s]; isLabel {
			continue
		}
		q, _ := json.Marshal(s)
		bad = append(bad, string(q))
	}
	for _, v := range bad {
		var st lint.LintStatus = 99
		err := json.Unmarshal([]byte(v), &st)
		c.R.Count("evaluations", 1)
		c.R.Distinct("bad_labels", v)
		if err == nil {
			c.V("unknown-label-accepted", fmt.Sprintf("decoding %s as a status succeeds (gives %d)", v, int(st)), "", nil, nil)
		}
		// inside a result object and a result set too
		var r lint.LintResult
		if err := json.Unmarshal([]byte(`{"result":`+v+`}`), &r); err == nil {
			c.V("unknown-label-accepted-in-result", fmt.Sprintf(`decoding {"result":%s} succeeds (status %d)`, v, int(r.Status)), "", nil, nil)
		}
	}
	// (c) WriteJSON: global and seeded filtered registries
	regs := []struct {
		r   lint.Registry
		lbl string
	}{{lint.GlobalRegistry(), "global"}}
	// registries that hold lints of one or two kinds only, and none at all
	kindNames := map[corpus.Kind][]string{}
	for _, li := range Inv {
		kindNames[li.Kind] = append(kindNames[li.Kind], li.Name)
	}
	for _, ks := range [][]corpus.Kind{{corpus.Cert}, {corpus.CRL}, {corpus.OCSP}, {corpus.Cert, corpus.CRL}, {corpus.Cert, corpus.OCSP}, {corpus.CRL, corpus.OCSP}, {}} {
		var inc []string
		lbl := "kinds"
		for _, k := range ks {
			if ns := kindNames[k]; len(ns) > 0 {
				inc = append(inc, ns[0], ns[len(ns)/2], ns[len(ns)-1])
			}
			lbl += " " + k.String()
		}
		o := lint.FilterOptions{IncludeNames: inc}
		if len(inc) == 0 {
			o = lint.FilterOptions{IncludeSources: lint.SourceList{lint.UnknownLintSource}}
		}
		if r, err := lint.GlobalRegistry().Filter(o); err == nil {
			regs = append(regs, struct {
				r   lint.Registry
				lbl string
			}{r, lbl + " only"})
		}
	}
	for len(regs) < c.Pick(20, 90) {
		o := randFilter(rng, false)
		if r, err := lint.GlobalRegistry().Filter(o); err == nil {
			regs = append(regs, struct {
				r   lint.Registry
				lbl string
			}{r, describeFilter(o)})
		}
	}
	for _, rg := range regs {
		var buf bytes.Buffer
		rg.r.WriteJSON(&buf)
		c.R.Count("evaluations", 1)
		inv := mon.Inventory(rg.r)
		want := map[string]lint.LintMetadata{}
		for _, li := range inv {
			want[li.Name] = li.Meta
		}
		lines := 0
		got := map[string]int{}
		// "exactly one line per registered lint": the text is the lines, each ended by a newline - a blank line is a
		// line that is no lint (only the empty listing of an empty registry has none at all)
		text := strings.TrimSuffix(buf.String(), "\n")
		var listing []string
		if text != "" || len(want) > 0 {
			listing = strings.Split(text, "\n")
		}
		for _, l := range listing {
			if strings.TrimSpace(l) == "" {
				lines++
				c.V("listing-blank-line", fmt.Sprintf("WriteJSON printed a blank line among %d lines for %d registered lints (%s)", len(listing), len(want), rg.lbl), "", nil, nil)
				continue
			}
			lines++
			var m lint.LintMetadata
			if err := json.Unmarshal([]byte(l), &m); err != nil {
				c.V("listing-line-undecodable", fmt.Sprintf("a WriteJSON line does not decode into lint metadata: %v: %s (%s)", err, clipS(l, 120), rg.lbl), "", nil, nil)
				continue
			}
			got[m.Name]++
			w, ok := want[m.Name]
			if !ok {
				c.V("listing-unknown-lint", "WriteJSON lists "+m.Name+" which the registry does not hold ("+rg.lbl+")", m.Name, nil, nil)
				continue
			}
			if m.Name != w.Name || m.Description != refUTF8(w.Description) || m.Citation != refUTF8(w.Citation) || m.Source != w.Source {
				c.V("listing-metadata|"+m.Name, fmt.Sprintf("WriteJSON line of %s decodes to different name/description/citation/source (%s)", m.Name, rg.lbl), m.Name, nil, nil)
			}
			c.R.Distinct("listing_lints", m.Name)
		}
		if lines != len(want) {
			c.V("listing-line-count", fmt.Sprintf("WriteJSON printed %d lines for %d registered lints (%s)", lines, len(want), rg.lbl), "", nil, nil)
		}
		for n := range want {
			if got[n] != 1 {
				c.V("listing-missing|"+InvBy[n].Kind.String(), fmt.Sprintf("lint %s appears %d times in WriteJSON output (%s)", n, got[n], rg.lbl), n, nil, nil)
			}
		}
	}
	// synthetic result sets: all eight statuses x adversarial details
	advers := append(append([]string{}, c14EscapeLookalikes...), "", "plain", "quote\" backslash\\ slash/", "<script>&amp;</script>", "line\nbreak\ttab\r", "\x00\x01\x1f\x7f", "  ", "\xc2", "abc\xe2\x82", "\xff\xfe", "\xed\xa0\x80", "\xf0\x9f\x98\x80 ok", "\xf4\x90\x80\x80", "café 你好", "\xc0\xaf", "a\x80b", strings.Repeat("\xe2\x82\xac", 100)+"\xe2")
	for k := 0; k < c.Pick(300, 20000); k++ {
		rs := &zlint.ResultSet{Version: int64(rng.Intn(5)), Timestamp: rng.Int63(), Results: map[string]*lint.LintResult{}}
		n := 1 + rng.Intn(12)
		for j := 0; j < n; j++ {
			d := advers[rng.Intn(len(advers))]
			if rng.Intn(3) == 0 {
				bb := make([]byte, rng.Intn(24))
				rng.Read(bb)
				d += string(bb)
			}
			st := lint.LintStatus(rng.Intn(8))
			name := Inv[rng.Intn(len(Inv))].Name
			if rng.Intn(10) == 0 {
				name = "e_synthetic_ü_" + fmt.Sprint(j)
			}
			rs.Results[name] = &lint.LintResult{Status: st, Details: d}
			switch st {
			case lint.Notice:
				rs.NoticesPresent = true
			case lint.Warn:
				rs.WarningsPresent = true
			case lint.Error:
				rs.ErrorsPresent = true
			case lint.Fatal:
				rs.FatalsPresent = true
			}
			c.R.Distinct("synthetic_statuses", st.String())
		}
		c14RoundTrip(c, rs, "synthetic result set", nil)
		c.R.Count("synthetic_sets", 1)
	}
}

// c14EscapeLookalikes: plain texts that contain what JSON escapes look like
var c14EscapeLookalikes = []string{`\u0026`, `a \u003c b \u003e c`, `\\u0026`, `\u2028 and \u2029`, `\"quoted\"`, `ends with a backslash \`, `\n is not a newline`, `\ud800 lone surrogate text`,
	`&lt;b&gt; &amp;amp; &#38;`, `{"name":"e_fake","source":"RFC5280"}`, "first\n{\"name\":\"e_second_line\"}", `\u00e9 vs é`, `\x41 \101 \0`, `%s %d %v %!s(MISSING)`, `\\\\`, `\/ slash`, `</script><!--`, "\u0026 real ampersand escape? &"}

func init() {
	var nSeeds int
	mon.Register(&mon.Check{
		ID:          "C14",
		Solo:        c14Solo,
		Rule:        "evaluations = result sets (real ones from linting corpus + hostile mutants + positional family members, and synthetic ones covering all eight statuses with adversarial details) sent through json.Marshal / json.Unmarshal and compared key by key (status, details against a byte-wise UTF-8 reference, flags, version), plus label-table checks (8 labels, seeded non-labels must be rejected) and WriteJSON listings of the global and seeded filtered registries decoded line by line. distinct_nontrivial = result sets whose details contained invalid UTF-8 or characters JSON must escape, plus distinct rejected non-labels.",
		Assumptions: []string{"JSON null for a status and \\u-escaped spellings of a label are not judged (the property speaks of labels)"},
		Setup: func(c *mon.Ctx) error {
			if err := setupCommon(c); err != nil {
				return err
			}
			nSeeds = len(W.Objs)
			return nil
		},
		Once:  c14Once,
		Cases: func(c *mon.Ctx) int { return nSeeds + c.Pick(20000, 600000) + directedCount(c)/4 },
		RunCase: func(c *mon.Ctx, i int) {
			nMut := nSeeds + c.Pick(20000, 600000)
			var o *mon.Obj
			var desc string
			if i >= nMut {
				o, desc = directedCase(c, directedPick(c, i-nMut))
			} else {
				o, desc, _ = unionCase(c, i, &c14Mut)
			}
			if o == nil {
				return
			}
			rs, pv, _ := o.Lint(lint.GlobalRegistry())
			if pv != nil || rs == nil {
				return
			}
			if i%64 == 0 { // the summary tables and the listing are produced from time to time, as a long-lived caller would
				c14Churn(rs)
				c.R.Count("api_churn_rounds", 1)
			}
			before := c.R.Counters["details_with_invalid_utf8"] + c.R.Counters["details_with_special_chars"]
			c14RoundTrip(c, rs, o.Name+"~"+desc, inputs(o))
			if c.R.Counters["details_with_invalid_utf8"]+c.R.Counters["details_with_special_chars"] > before {
				c.R.Count("sets_with_nonplain_details", 1)
			}
			if i%9001 == 0 {
				b, _ := json.Marshal(rs.Results)
				c.R.Sample(5, map[string]any{"input": o.Name, "edits": desc, "json_prefix": clipS(string(b), 160)})
			}
		},
		Finish: func(c *mon.Ctx, r *mon.Report, ev *mon.Evidence) []string {
			gates := mutGate(r, 1000)
			ev.Coverage["distinct_nontrivial"] = int(r.Counters["sets_with_nonplain_details"]) + r.SetSize("bad_labels")
			ev.Coverage["details_compared"] = r.Counters["details_compared"]
			ev.Coverage["details_with_invalid_utf8"] = r.Counters["details_with_invalid_utf8"]
			ev.Coverage["listing_lints_decoded"] = r.SetSize("listing_lints")
			ev.Coverage["unusual_metadata_lints_listed"] = r.Counters["unusual_metadata_lints_listed"]
			if r.Counters["listing_passes"] < 6 || r.Counters["unusual_metadata_lints_listed"] < 10 {
				gates = append(gates, "the additions scenario (own process) did not complete")
			}
			ev.Coverage["api_churn_rounds"] = r.Counters["api_churn_rounds"]
			if r.Counters["api_churn_rounds"] < 50 || r.Counters["label_table_passes_after_churn"] < 1 {
				gates = append(gates, "summary tables / listing were not interleaved with the round trips often enough")
			}
			if r.SetSize("synthetic_statuses") < 8 {
				gates = append(gates, "synthetic result sets did not cover all eight statuses")
			}
			if r.SetSize("listing_lints") < len(Inv) {
				gates = append(gates, "WriteJSON listing did not cover every registered lint")
			}
			if r.Counters["details_with_invalid_utf8"] == 0 {
				gates = append(gates, "no details text with invalid UTF-8 was observed")
			}
			return gates
		},
	})
}

// c14Solo (own process): the listing after additions. WriteJSON is called, a lint is registered through the
// public API, WriteJSON is called again: one decodable line per registered lint, every time.
func c14Solo(c *mon.Ctx) {
	g := lint.GlobalRegistry()
	added := map[string]lint.LintMetadata{}
	var check func(when string)
	check = func(when string) {
		var buf bytes.Buffer
		g.WriteJSON(&buf)
		names := map[string]int{}
		lines := 0
		// "exactly one line per registered lint": the text is the lines, each ended by a newline - a blank line is a
		// line that is no lint (only the empty listing of an empty registry has none at all)
		text := strings.TrimSuffix(buf.String(), "\n")
		var listing []string
		if text != "" || len(g.Names()) > 0 {
			listing = strings.Split(text, "\n")
		}
		for _, l := range listing {
			if strings.TrimSpace(l) == "" {
				lines++
				c.V("listing-blank-line|"+when, fmt.Sprintf("%s: WriteJSON printed a blank line among %d lines", when, len(listing)), "", nil, nil)
				continue
			}
			lines++
			var m lint.LintMetadata
			if err := json.Unmarshal([]byte(l), &m); err != nil {
				c.V("listing-line-undecodable|"+when, fmt.Sprintf("%s: a WriteJSON line does not decode: %v: %s", when, err, clipS(l, 120)), "", nil, nil)
				continue
			}
			names[m.Name]++
			if w, ok := added[m.Name]; ok {
				if m.Description != refUTF8(w.Description) || m.Citation != refUTF8(w.Citation) || m.Source != w.Source {
					c.V("listing-line-content|"+when, fmt.Sprintf("%s: the listing line of %s decodes to description %q citation %q source %q, registered with %q %q %q", when, m.Name, clipS(m.Description, 60), clipS(m.Citation, 60), m.Source, clipS(w.Description, 60), clipS(w.Citation, 60), w.Source), m.Name, nil, nil)
				}
			}
		}
		want := g.Names()
		c.R.Count("evaluations", 1)
		c.R.Count("listing_passes", 1)
		if lines != len(want) {
			c.V("listing-line-count|"+when, fmt.Sprintf("%s: WriteJSON printed %d lines for %d registered lints", when, lines, len(want)), "", nil, nil)
		}
		for _, n := range want {
			if names[n] != 1 {
				c.V("listing-missing|"+when, fmt.Sprintf("%s: lint %s appears %d times in the listing", when, n, names[n]), n, nil, nil)
			}
		}
	}
	// result sets produced BEFORE the additions are kept and encoded again AFTER each of them: a result set is a
	// value of its own, what it encodes to must not depend on what was registered later
	type kept struct {
		o  *mon.Obj
		rs *zlint.ResultSet
	}
	var keep []kept
	for _, k := range []corpus.Kind{corpus.Cert, corpus.CRL, corpus.OCSP} {
		for n, idx := range W.ByKind[k] {
			if n >= 3 {
				break
			}
			if rs, pv, _ := W.Objs[idx].Lint(g); pv == nil && rs != nil {
				keep = append(keep, kept{W.Objs[idx], rs})
			}
		}
	}
	inner := check
	check = func(when string) {
		inner(when)
		for _, kp := range keep {
			c14RoundTrip(c, kp.rs, "result set of "+kp.o.Name+" produced before the additions, encoded "+when, inputs(kp.o))
			c.R.Count("kept_result_sets_reencoded", 1)
		}
	}
	check("before any addition")
	md := func(n string, s lint.LintSource) lint.LintMetadata {
		return lint.LintMetadata{Name: n, Description: "verif addition \"quoted\" <&>", Citation: "verif  ", Source: s}
	}
	lint.RegisterRevocationListLint(&lint.RevocationListLint{LintMetadata: md("e_verif_c14_crl", lint.RFC5280), Lint: func() lint.RevocationListLintInterface { return probeCRL{} }})
	check("after adding a CRL lint")
	lint.RegisterOcspResponseLint(&lint.OcspResponseLint{LintMetadata: md("w_verif_c14_ocsp", lint.RFC6960), Lint: func() lint.OcspResponseLintInterface { return probeOCSP{} }})
	check("after adding an OCSP lint")
	lint.RegisterCertificateLint(&lint.CertificateLint{LintMetadata: md("n_verif_c14_cert", lint.EtsiEsi), Lint: func() lint.CertificateLintInterface { return probeCert{} }})
	check("after adding a certificate lint")
	lint.RegisterRevocationListLint(&lint.RevocationListLint{LintMetadata: md("e_verif_c14_crl2", lint.Community), Lint: func() lint.RevocationListLintInterface { return probeCRL{} }})
	check("after adding a second CRL lint")
	// lints whose metadata is legal but unusual: windows with instants far outside the calendar JSON knows (open-ended
	// sentinels such as the largest Unix time, year 10000, year 0, negative years), texts with quotes, control
	// characters, U+2028 and bytes that are not UTF-8. Each must still get its one line, decoding to its own name,
	// description, citation and source.
	far := []time.Time{time.Unix(math.MaxInt64/2, 0), time.Date(10000, 1, 1, 0, 0, 0, 0, time.UTC), time.Date(0, 1, 1, 0, 0, 0, 0, time.UTC), time.Date(-5, 6, 1, 0, 0, 0, 0, time.UTC), time.Unix(math.MinInt64/2, 0), time.Date(2024, 1, 1, 0, 0, 0, 0, time.FixedZone("odd", 17*3600+1800+7)), {}}
	texts := []string{"plain", "quote \" backslash \\ <tag> &amp;", "line\nbreak\ttab\x01", "sep\u2028arator\u2029", "bad \xff\xfe bytes \xc2", "", strings.Repeat("long ", 2000)}
	k := 0
	for ei, e := range far {
		for ii, in := range far {
			if (ei+ii)%3 != 0 && !(e.IsZero() || in.IsZero()) {
				continue
			}
			m := lint.LintMetadata{Name: fmt.Sprintf("e_verif_c14_far_%d_%d", ei, ii), Description: texts[k%len(texts)], Citation: texts[(k+3)%len(texts)], Source: []lint.LintSource{lint.RFC5280, lint.Community, lint.RFC6960}[k%3], EffectiveDate: e, IneffectiveDate: in}
			switch k % 3 {
			case 0:
				lint.RegisterCertificateLint(&lint.CertificateLint{LintMetadata: m, Lint: func() lint.CertificateLintInterface { return probeCert{} }})
			case 1:
				lint.RegisterRevocationListLint(&lint.RevocationListLint{LintMetadata: m, Lint: func() lint.RevocationListLintInterface { return probeCRL{} }})
			default:
				lint.RegisterOcspResponseLint(&lint.OcspResponseLint{LintMetadata: m, Lint: func() lint.OcspResponseLintInterface { return probeOCSP{} }})
			}
			k++
			added[m.Name] = m
		}
	}
	check(fmt.Sprintf("after adding %d lints with unusual windows and texts", k))
	c.R.Count("unusual_metadata_lints_listed", int64(k))
	// texts that LOOK like what a JSON encoder produces: the six-character escapes written out as plain text
	// (backslash, u, four hex digits), escaped quotes, a backslash at the very end, entity names, a line that looks
	// like a listing line of its own. An encoder that post-processes its output (un-escaping, replacing) cannot tell
	// them from its own escapes.
	for ti, t := range c14EscapeLookalikes {
		m := lint.LintMetadata{Name: fmt.Sprintf("e_verif_c14_text_%d", ti), Description: "description " + t, Citation: t, Source: []lint.LintSource{lint.RFC5280, lint.Community, lint.RFC6960}[ti%3]}
		switch ti % 3 {
		case 0:
			lint.RegisterRevocationListLint(&lint.RevocationListLint{LintMetadata: m, Lint: func() lint.RevocationListLintInterface { return probeCRL{} }})
		case 1:
			lint.RegisterOcspResponseLint(&lint.OcspResponseLint{LintMetadata: m, Lint: func() lint.OcspResponseLintInterface { return probeOCSP{} }})
		default:
			lint.RegisterCertificateLint(&lint.CertificateLint{LintMetadata: m, Lint: func() lint.CertificateLintInterface { return probeCert{} }})
		}
		added[m.Name] = m
	}
	check(fmt.Sprintf("after adding %d lints whose texts look like JSON escapes", len(c14EscapeLookalikes)))
	c.R.Count("escape_lookalike_lints_listed", int64(len(c14EscapeLookalikes)))
}
