package checks

import (
	"bytes"
	"encoding/base64"
	"encoding/json"
	"encoding/pem"
	"fmt"
	"math/rand"
	"os"
	"path/filepath"
	"regexp"
	"strconv"
	"strings"
	"sync"

	"github.com/zmap/zlint/v3/lint"

	"verif/corpus"
	"verif/gen"
	"verif/mon"
)

// C15 - the CLI reports what the library computes and fails closed.

type cliResult struct {
	Result  string `json:"result"`
	Details string `json:"details"`
}

var (
	c15Mut      mon.MutStats
	c15Profiles map[string][]string
)

func c15Setup(c *mon.Ctx) error {
	if err := setupCommon(c); err != nil {
		return err
	}
	if os.Getenv("VERIF_ZLINT_BIN") == "" {
		return fmt.Errorf("VERIF_ZLINT_BIN not set")
	}
	c15Profiles = map[string][]string{}
	out, _, code := runCLI(nil, "", "-list-profiles")
	if code == 0 {
		for _, l := range strings.Split(out, "\n") {
			var p struct {
				Name      string   `json:"name"`
				LintNames []string `json:"lints"`
			}
			if json.Unmarshal([]byte(l), &p) == nil && p.Name != "" {
				c15Profiles[p.Name] = p.LintNames
			}
		}
	}
	return nil
}

// selection is one set of CLI selection flags and the library options the
// documentation says they mean.
type selection struct {
	args    []string
	opts    lint.FilterOptions
	cfgText string
	hasCfg  bool
	invalid string // non-empty: the CLI must refuse
}

func splitTrim(s string) []string {
	var out []string
	for _, x := range strings.Split(s, ",") {
		out = append(out, strings.TrimSpace(x))
	}
	return out
}

func c15Selection(rng *rand.Rand, dir string, hostile bool) selection {
	var s selection
	names := func(n int) string {
		var l []string
		for i := 0; i < n; i++ {
			nm := Inv[rng.Intn(len(Inv))].Name
			if rng.Intn(5) == 0 {
				nm = " " + nm
			}
			l = append(l, nm)
		}
		return strings.Join(l, ",")
	}
	srcs := allSources()
	sources := func(n int) string {
		var l []string
		for i := 0; i < n; i++ {
			l = append(l, string(srcs[rng.Intn(len(srcs))]))
		}
		return strings.Join(l, ", ")
	}
	switch rng.Intn(9) {
	case 0: // nothing
	case 1:
		v := names(1 + rng.Intn(30))
		s.args = append(s.args, "-includeNames", v)
		s.opts.IncludeNames = splitTrim(v)
	case 2:
		v := names(1 + rng.Intn(30))
		s.args = append(s.args, "-excludeNames", v)
		s.opts.ExcludeNames = splitTrim(v)
	case 3:
		v := sources(1 + rng.Intn(3))
		s.args = append(s.args, "-includeSources", v)
		_ = s.opts.IncludeSources.FromString(v)
	case 4:
		v := sources(1 + rng.Intn(3))
		s.args = append(s.args, "-excludeSources", v)
		_ = s.opts.ExcludeSources.FromString(v)
	case 5:
		re := randPattern(rng)
		s.args = append(s.args, "-nameFilter", re.String())
		s.opts.NameFilter = re
	case 6:
		v1, v2 := sources(1+rng.Intn(2)), names(1+rng.Intn(20))
		s.args = append(s.args, "-includeSources", v1, "-excludeNames", v2)
		_ = s.opts.IncludeSources.FromString(v1)
		s.opts.ExcludeNames = splitTrim(v2)
	case 7:
		if len(c15Profiles) > 0 {
			var pn []string
			for k := range c15Profiles {
				pn = append(pn, k)
			}
			sortStrings(pn)
			p := pn[rng.Intn(len(pn))]
			s.args = append(s.args, "-profile", p)
			s.opts.IncludeNames = append([]string{}, c15Profiles[p]...)
		}
	case 8:
		v1, v2 := sources(1), sources(1)
		s.args = append(s.args, "-includeSources", v1, "-excludeSources", v2)
		_ = s.opts.IncludeSources.FromString(v1)
		_ = s.opts.ExcludeSources.FromString(v2)
	}
	if rng.Intn(3) == 0 {
		docs := []string{"", "[e_rsa_fermat_factorization]\nRounds = 3\n", "[e_subj_contains_html_entities]\nSkip = true\n[e_crl_next_update_invalid]\nSubscriberCRL = false\n", "[e_rsa_fermat_factorization]\nRounds = \"many\"\n", "e_subj_orgunit_in_ca_cert = 7\n", "[unrelated]\nx = 1\n"}
		s.cfgText = docs[rng.Intn(len(docs))]
		if rng.Intn(4) == 0 {
			// the same document behind a long preamble of comments and unrelated tables (64 KiB - 3 MiB): a reader with
			// a bounded buffer sees only the beginning; the library side reads the whole text
			var sb strings.Builder
			size := []int{70 << 10, 1<<20 + 10, 3 << 20}[rng.Intn(3)]
			for k := 0; sb.Len() < size; k++ {
				fmt.Fprintf(&sb, "# preamble line %06d: this configuration is generated; the lint sections follow at the end\n", k)
				if k%2000 == 1999 {
					fmt.Fprintf(&sb, "[unrelated_%d]\nx = %d\n", k, k)
				}
			}
			s.cfgText = sb.String() + s.cfgText
		}
		s.hasCfg = true
		p := filepath.Join(dir, "config.toml")
		_ = os.WriteFile(p, []byte(s.cfgText), 0o644)
		s.args = append(s.args, "-config", p)
	}
	if hostile {
		switch rng.Intn(9) {
		case 7:
			s.args = append(s.args, "-excludeSources", []string{"NoSuchSource", "CABF_BR,NoSuchSource", "rfc5280"}[rng.Intn(3)])
			s.invalid = "unknown exclude source"
		case 8: // an invalid exclude list next to a perfectly valid include list (and the other way round)
			if rng.Intn(2) == 0 {
				s.args = []string{"-includeSources", "RFC5280", "-excludeSources", "NoSuchSource"}
			} else {
				s.args = []string{"-excludeSources", "RFC5280", "-includeSources", "NoSuchSource, CABF_BR"}
			}
			s.invalid = "unknown source next to a valid source list"
		case 0:
			s.args = append(s.args, "-includeNames", "e_no_such_lint")
			s.invalid = "unknown include name"
		case 1:
			s.args = append(s.args, "-excludeNames", Inv[0].Name+",e_no_such_lint")
			s.invalid = "unknown exclude name"
		case 2:
			// the library's own name for "no such source" is not a source either
			sv := []string{"NoSuchSource", "Unknown", " Unknown ", "RFC5280,Unknown", "Unknown,RFC5280", "unknown", "rfc5280", "RFC5280;RFC5480"}[rng.Intn(8)]
			flagName := []string{"-includeSources", "-excludeSources"}[rng.Intn(2)]
			s.args = append(s.args, flagName, sv)
			s.invalid = "unknown source " + strconv.Quote(sv) + " in " + flagName
		case 3:
			// no profile ships with the tree, so every value names an unknown profile - also values made of list
			// separators and blanks only, which a list-minded parser might reduce to "nothing selected"
			pv := []string{"no_such_profile", ",", ",,", " , ", "no_such_profile,", ",no_such_profile", ";", "*", ".", "a,b", " "}[rng.Intn(11)]
			s.args = append(s.args, "-profile", pv)
			s.invalid = "unknown profile " + strconv.Quote(pv)
		case 4:
			s.args = append(s.args, "-nameFilter", "e_(unclosed")
			s.invalid = "bad regular expression"
		case 5:
			s.args = []string{"-nameFilter", "^e_", "-includeNames", Inv[0].Name}
			s.invalid = "nameFilter with name list"
		case 6:
			if rng.Intn(2) == 0 {
				s.args = append(s.args, "-config", filepath.Join(dir, "does-not-exist.toml"))
				s.invalid = "unreadable configuration"
			} else {
				// not TOML - right at the start, or only behind 1.2 MiB of perfectly good comments
				bad := "[e_rsa_fermat_factorization\nRounds = = 3\n"
				if rng.Intn(2) == 0 {
					bad = strings.Repeat("# a long and perfectly good preamble line of a generated configuration file ......\n", 15000) + bad
				}
				p := filepath.Join(dir, "malformed.toml")
				_ = os.WriteFile(p, []byte(bad), 0o644)
				s.args = append(s.args, "-config", p)
				s.invalid = fmt.Sprintf("malformed configuration (%d octets)", len(bad))
			}
		}
	}
	return s
}

func sortStrings(l []string) {
	for i := 1; i < len(l); i++ {
		for j := i; j > 0 && l[j] < l[j-1]; j-- {
			l[j], l[j-1] = l[j-1], l[j]
		}
	}
}

// libResults is the in-process library with the same selection.
func (s selection) libResults(o *mon.Obj) (map[string]cliResult, error) {
	g := lint.GlobalRegistry()
	opts := s.opts
	var reg lint.Registry
	var err error
	if opts.Empty() {
		reg, err = g.Filter(lint.FilterOptions{NameFilter: regexpAll})
	} else {
		reg, err = g.Filter(opts)
	}
	if err != nil {
		return nil, err
	}
	if s.hasCfg {
		cfg, err := lint.NewConfigFromString(s.cfgText)
		if err != nil {
			return nil, err
		}
		reg.SetConfiguration(cfg)
	}
	rs, pv, _ := o.Lint(reg)
	if pv != nil || rs == nil {
		return nil, fmt.Errorf("library panicked: %v", pv)
	}
	b, err := json.Marshal(rs.Results)
	if err != nil {
		return nil, err
	}
	var m map[string]cliResult
	if err := json.Unmarshal(b, &m); err != nil {
		return nil, err
	}
	return m, nil
}

type cliInput struct {
	o      *mon.Obj
	format string // pem, der, base64
	path   string // "" = stdin
	data   []byte
}

func encodeInput(o *mon.Obj, format string) []byte {
	switch format {
	case "pem":
		t := "CERTIFICATE"
		if o.Kind == corpus.CRL {
			t = "X509 CRL"
		}
		return pem.EncodeToMemory(&pem.Block{Type: t, Bytes: o.DER})
	case "der":
		return o.DER
	default:
		return []byte(base64.StdEncoding.EncodeToString(o.DER))
	}
}

var reRow = regexp.MustCompile(`^\|\s*(info|warn|error|fatal)\s*\|\s*(\d+)\s*\|`)

func parseSummaries(out string) []map[string]int {
	var tables []map[string]int
	var cur map[string]int
	for _, l := range strings.Split(out, "\n") {
		if strings.HasPrefix(l, "| LEVEL") {
			cur = map[string]int{}
			tables = append(tables, cur)
			continue
		}
		if m := reRow.FindStringSubmatch(l); m != nil && cur != nil {
			n, _ := strconv.Atoi(m[2])
			cur[m[1]] = n
		}
	}
	return tables
}

func countsOf(m map[string]cliResult) map[string]int {
	out := map[string]int{"info": 0, "warn": 0, "error": 0, "fatal": 0}
	for _, r := range m {
		if _, ok := out[r.Result]; ok {
			out[r.Result]++
		}
	}
	return out
}

func decodeObjects(out string) ([]map[string]cliResult, error) {
	dec := json.NewDecoder(strings.NewReader(out))
	var objs []map[string]cliResult
	for dec.More() {
		var m map[string]cliResult
		if err := dec.Decode(&m); err != nil {
			return objs, err
		}
		objs = append(objs, m)
	}
	return objs, nil
}

var (
	c15BigOnce sync.Once
	c15Big     []*mon.Obj
)

// c15BigObjs: subscriber certificates with 1 500 - 6 000 dNSNames (33 - 135 KiB of DER)
func c15BigObjs() []*mon.Obj {
	c15BigOnce.Do(func() {
		for _, n := range []int{1500, 2100, 2300, 2800, 3000, 6000} {
			names := make([]string, n)
			for k := range names {
				names[k] = fmt.Sprintf("h%05d.example.com", k)
			}
			if o, _ := mon.ParseObj(corpus.Cert, fmt.Sprintf("gen/big/%d-names", n), gen.TLSLeaf(gen.D(2024, 3, 1), names...).DER()); o != nil {
				c15Big = append(c15Big, o)
			}
		}
	})
	return c15Big
}

func c15Case(c *mon.Ctx, i int) {
	rng := c.Rng(i, 0)
	dir, err := os.MkdirTemp(c.Work, "cli.")
	if err != nil {
		return
	}
	defer os.RemoveAll(dir)
	mode := i % 10
	pick := func() *mon.Obj {
		if i%13 == 5 {
			// inputs beyond the sizes buffers and line readers are commonly sized for (32 / 48 / 64 / 128 KiB of DER or of
			// its base64 text): the same certificate must come through every encoding and channel
			if big := c15BigObjs(); len(big) > 0 {
				c.R.Count("big_inputs", 1)
				return big[(i/13)%len(big)]
			}
		}
		for k := 0; k < 50; k++ {
			var o *mon.Obj
			if r := rng.Intn(9); r < 3 {
				o, _ = W.Mutant(c.Rng(i*53+k, 1), &c15Mut)
			} else if r < 5 {
				// directed families: the small ones (extension / CRL / SCT shapes, big lists, general names ...) twice as
				// often as the two big ones
				dC, tail := directedCount(c), directedSmallTail(c)
				kk := dC - 1 - rng.Intn(tail)
				if rng.Intn(3) == 0 {
					kk = rng.Intn(dC - tail)
				}
				o, _ = directedCase(c, kk)
				if o != nil {
					c.R.Count("directed_inputs", 1)
				}
			} else {
				o = W.Objs[rng.Intn(len(W.Objs))]
			}
			if o != nil && o.Kind != corpus.OCSP {
				return o
			}
		}
		return W.Objs[W.ByKind[corpus.Cert][0]]
	}
	if i%20 == 19 {
		c15Transport(c, i, rng, dir, pick)
		return
	}
	switch {
	case mode <= 6: // agreement with the library
		sel := c15Selection(rng, dir, false)
		n := 1
		if mode >= 4 {
			n = 1 + rng.Intn(3)
		}
		useStdin := mode == 0 || mode == 1
		if useStdin {
			n = 1
		}
		var ins []cliInput
		globalFormat := ""
		for k := 0; k < n; k++ {
			o := pick()
			f := []string{"pem", "der", "base64"}[rng.Intn(3)]
			if o.Kind == corpus.CRL {
				f = "pem"
			}
			in := cliInput{o: o, format: f, data: encodeInput(o, f)}
			if !useStdin {
				// suffix decides pem/der; other suffixes need -format (one per invocation)
				suffix := "." + f
				if f == "base64" || rng.Intn(3) == 0 {
					if globalFormat == "" || globalFormat == f {
						globalFormat = f
						suffix = []string{".txt", ".crt", ".bin", ""}[rng.Intn(4)]
					} else if f == "base64" {
						f = "pem"
						in.format, in.data = f, encodeInput(o, f)
						suffix = ".pem"
					}
				}
				in.path = filepath.Join(dir, fmt.Sprintf("in%d%s", k, suffix))
				_ = os.WriteFile(in.path, in.data, 0o644)
			} else {
				globalFormat = f
			}
			ins = append(ins, in)
		}
		args := append([]string{}, sel.args...)
		if globalFormat != "" && globalFormat != "pem" || rng.Intn(4) == 0 && globalFormat != "" {
			fm := globalFormat
			if rng.Intn(3) == 0 {
				fm = strings.ToUpper(fm)
			}
			args = append(args, "-format", fm)
		}
		outMode := []string{"json", "json", "pretty", "summary", "longSummary"}[rng.Intn(5)]
		switch outMode {
		case "pretty":
			args = append(args, "-pretty")
		case "summary":
			args = append(args, "-summary")
		case "longSummary":
			args = append(args, "-longSummary")
		}
		var stdin []byte
		if useStdin {
			stdin = ins[0].data
			if rng.Intn(2) == 0 {
				args = append(args, "-")
			}
		} else {
			for _, in := range ins {
				args = append(args, in.path)
			}
		}
		pipe0, file0 := cliStdinPipe.Load(), cliStdinFile.Load()
		out, se, code := runCLI(stdin, dir, args...)
		c.R.Count("stdin_through_a_pipe", cliStdinPipe.Load()-pipe0)
		c.R.Count("stdin_from_a_regular_file", cliStdinFile.Load()-file0)
		c.R.Count("evaluations", 1)
		c.R.Count("cli_invocations", 1)
		c.R.Distinct("cli_shapes", fmt.Sprintf("%s/%s/stdin=%v/files=%d", ins[0].format, outMode, useStdin, n))
		desc := fmt.Sprintf("zlint %s (inputs: %s)", strings.Join(args, " "), describeInputs(ins))
		files := map[string][]byte{}
		for k, in := range ins {
			files[fmt.Sprintf("input%d.%s", k, in.format)] = in.data
		}
		var want []map[string]cliResult
		for _, in := range ins {
			m, err := sel.libResults(in.o)
			if err != nil {
				c.R.Count("library_side_failed", 1)
				return
			}
			want = append(want, m)
		}
		if code != 0 {
			c.V("cli-fails-on-good-input", fmt.Sprintf("exit %d on parseable input with a valid selection: %s :: %s", code, desc, clipS(se, 200)), "", files, nil)
			return
		}
		if outMode == "summary" || outMode == "longSummary" {
			tables := parseSummaries(out)
			if len(tables) != len(want) {
				c.V("summary-table-count", fmt.Sprintf("%d summary tables for %d inputs: %s", len(tables), len(want), desc), "", files, nil)
				return
			}
			for k := range want {
				wc := countsOf(want[k])
				for _, lvl := range []string{"info", "warn", "error", "fatal"} {
					if tables[k][lvl] != wc[lvl] {
						c.V("summary-count|"+lvl, fmt.Sprintf("summary says %d %s, the library's results contain %d (input %d): %s", tables[k][lvl], lvl, wc[lvl], k, desc), "", files, nil)
					}
				}
				c.R.Count("summaries_compared", 1)
			}
			return
		}
		objs, err := decodeObjects(out)
		if err != nil || len(objs) != len(want) {
			c.V("cli-output-shape", fmt.Sprintf("stdout holds %d JSON objects (decode error %v) for %d inputs: %s", len(objs), err, len(want), desc), "", files, nil)
			return
		}
		for k := range want {
			if len(objs[k]) != len(want[k]) {
				c.V("cli-result-set-differs", fmt.Sprintf("CLI printed %d results, the library computes %d (input %d): %s", len(objs[k]), len(want[k]), k, desc), "", files, nil)
				continue
			}
			for name, w := range want[k] {
				g, ok := objs[k][name]
				if !ok {
					c.V("cli-missing-lint", fmt.Sprintf("CLI output lacks %s (input %d): %s", name, k, desc), name, files, nil)
					continue
				}
				if g != w && !c05ClockLints[name] {
					c.V("cli-differs|"+name, fmt.Sprintf("%s: CLI prints %v, the library computes %v (input %d): %s", name, g, w, k, desc), name, files, nil)
				}
			}
			c.R.Count("result_sets_compared", 1)
			c.CountDistinct(append([]byte(strings.Join(sel.args, " ")+"\x00"), ins[k].o.DER...))
		}
		if i%211 == 0 {
			c.R.Sample(8, map[string]any{"argv": args, "inputs": describeInputs(ins), "exit": code})
		}
	case mode == 7: // undecodable input
		o := pick()
		for k := 0; o.Kind != corpus.Cert && k < 20; k++ { // the kinds below are built from a CERTIFICATE's bytes
			o = pick()
		}
		if o.Kind != corpus.Cert {
			o = W.Objs[W.ByKind[corpus.Cert][0]]
		}
		good := encodeInput(o, "pem")
		type bad struct {
			name, suffix, format string
			data                 []byte
		}
		crl := W.Objs[W.ByKind[corpus.CRL][rng.Intn(len(W.ByKind[corpus.CRL]))]]
		cases := []bad{
			{"not PEM at all", ".pem", "", []byte("hello world\n")},
			{"empty file", ".pem", "", nil},
			{"wrong PEM type", ".pem", "", pem.EncodeToMemory(&pem.Block{Type: "PRIVATE KEY", Bytes: o.DER})},
			{"PEM type CERTIFICATE REQUEST", ".pem", "", pem.EncodeToMemory(&pem.Block{Type: "CERTIFICATE REQUEST", Bytes: o.DER})},
			{"bad base64", ".txt", "base64", []byte("!!!not base64!!!")},
			{"base64 of garbage", ".txt", "base64", []byte(base64.StdEncoding.EncodeToString([]byte("garbage bytes")))},
			{"truncated DER", ".der", "", o.DER[:len(o.DER)/2]},
			{"DER with trailing garbage removed header", ".der", "", o.DER[1:]},
			{"PEM with truncated DER", ".pem", "", pem.EncodeToMemory(&pem.Block{Type: "CERTIFICATE", Bytes: o.DER[:len(o.DER)-7]})},
			{"DER CRL without armour", ".der", "", crl.DER},
			{"CRL bytes in a CERTIFICATE armour", ".pem", "", pem.EncodeToMemory(&pem.Block{Type: "CERTIFICATE", Bytes: crl.DER})},
			{"certificate bytes in an X509 CRL armour", ".pem", "", pem.EncodeToMemory(&pem.Block{Type: "X509 CRL", Bytes: o.DER})},
			{"unknown -format", ".txt", "pkcs12", good},
			{"PEM given as -format der", ".txt", "der", good},
		}
		// mutated DER the parser rejects
		for k := 0; k < 40 && len(cases) < 17; k++ {
			r2 := c.Rng(i*97+k, 2)
			idx := W.ByKind[corpus.Cert][r2.Intn(len(W.ByKind[corpus.Cert]))]
			t, _ := derMutateRaw(idx, r2)
			if t != nil {
				if po, _ := mon.ParseObj(corpus.Cert, "x", t); po == nil {
					cases = append(cases, bad{"parser-rejected mutant", ".der", "", t})
				}
			}
		}
		b := cases[rng.Intn(len(cases))]
		p := filepath.Join(dir, "bad"+b.suffix)
		_ = os.WriteFile(p, b.data, 0o644)
		var args []string
		if b.format != "" {
			args = append(args, "-format", b.format)
		}
		variant := rng.Intn(3)
		var stdin []byte
		switch variant {
		case 0:
			args = append(args, p)
		case 1: // stdin
			stdin = b.data
			if b.format == "" {
				f := strings.TrimPrefix(b.suffix, ".")
				args = append(args, "-format", f)
			}
		default: // after a good file: the good one is printed, then the tool must fail
			gp := filepath.Join(dir, "good.pem")
			_ = os.WriteFile(gp, good, 0o644)
			args = append(args, gp, p)
		}
		out, se, code := runCLI(stdin, dir, args...)
		c.R.Count("evaluations", 1)
		c.R.Count("cli_invocations", 1)
		c.R.Distinct("undecodable_kinds", b.name)
		objs, _ := decodeObjects(out)
		wantObjs := 0
		if variant == 2 {
			wantObjs = 1
		}
		files := map[string][]byte{"bad" + b.suffix: b.data}
		if code == 0 {
			c.V("fails-open|"+b.name, fmt.Sprintf("exit 0 for undecodable input (%s): zlint %s :: stdout %q", b.name, strings.Join(args, " "), clipS(out, 120)), "", files, nil)
		}
		if len(objs) > wantObjs {
			c.V("result-for-undecodable|"+b.name, fmt.Sprintf("a result object was printed for undecodable input (%s): zlint %s", b.name, strings.Join(args, " ")), "", files, nil)
		}
		_ = se
		c.R.Count("fail_closed_checks", 1)
	default: // unknown selectors
		sel := c15Selection(rng, dir, true)
		o := pick()
		p := filepath.Join(dir, "in.pem")
		_ = os.WriteFile(p, encodeInput(o, "pem"), 0o644)
		args := append(append([]string{}, sel.args...), p)
		out, _, code := runCLI(nil, dir, args...)
		c.R.Count("evaluations", 1)
		c.R.Count("cli_invocations", 1)
		c.R.Distinct("invalid_selectors", sel.invalid)
		objs, _ := decodeObjects(out)
		if code == 0 || len(objs) > 0 {
			c.V("bad-selector-accepted|"+sel.invalid, fmt.Sprintf("exit %d, %d result objects for an invalid selection (%s): zlint %s", code, len(objs), sel.invalid, strings.Join(args, " ")), "", nil, nil)
		}
		c.R.Count("fail_closed_checks", 1)
	}
}

func describeInputs(ins []cliInput) string {
	var l []string
	for _, in := range ins {
		p := "stdin"
		if in.path != "" {
			p = filepath.Base(in.path)
		}
		l = append(l, fmt.Sprintf("%s as %s via %s", in.o.Name, in.format, p))
	}
	return strings.Join(l, "; ")
}

// derMutateRaw returns the raw bytes of a mutant (accepted or not).
func derMutateRaw(idx int, rng *rand.Rand) ([]byte, string) {
	var st mon.MutStats
	_ = st
	t, desc := mutateTree(idx, rng)
	if t == nil {
		return nil, ""
	}
	return t, desc
}

func init() {
	mon.Register(&mon.Check{
		ID:          "C15",
		Once:        c15Once,
		Rule:        "evaluations = invocations of the real zlint binary (built from the tree under test). 70%: parseable certificates / CRLs (corpus + mutants) as PEM / DER / base64, from files (suffix- or -format-selected) or stdin, 1-3 files per invocation, with seeded selection flags (include/exclude names and sources, nameFilter, profile, config file) and output modes (JSON, -pretty, -summary, -longSummary); stdout is decoded and compared result by result (label and details) with the in-process library under the selection the documentation assigns to those flags, summary tables with the counts of those results. 10%: undecodable inputs (15 kinds + parser-rejected mutants; alone, on stdin, or after a good file). 20%: invalid selectors. Those must exit non-zero without a result object. distinct_nontrivial = distinct (selection, input) result sets compared.",
		Assumptions: []string{"OCSP responses are not a CLI input", "the library side uses the same build of zlint; the comparison is about the CLI's decoding, selection and printing"},
		Setup:       c15Setup,
		Cases:       func(c *mon.Ctx) int { return c.Pick(5000, 60000) },
		RunCase:     c15Case,
		Finish: func(c *mon.Ctx, r *mon.Report, ev *mon.Evidence) []string {
			ev.Coverage["stdin_through_a_pipe"] = r.Counters["stdin_through_a_pipe"]
			ev.Coverage["stdin_from_a_regular_file"] = r.Counters["stdin_from_a_regular_file"]
			var gates []string
			ev.Coverage["cli_shapes"] = r.SetKeys("cli_shapes")
			ev.Coverage["undecodable_kinds"] = r.Sets["undecodable_kinds"]
			ev.Coverage["transport_variant_outcomes"] = r.SetKeys("transport_outcomes")
			ev.Coverage["transport_result_sets_compared"] = r.Counters["transport_result_sets_compared"]
			if r.Counters["transport_variants_run"] < 15 {
				gates = append(gates, "too few transport variants run")
			}
			ev.Coverage["invalid_selectors"] = r.Sets["invalid_selectors"]
			ev.Coverage["result_sets_compared"] = r.Counters["result_sets_compared"]
			ev.Coverage["summaries_compared"] = r.Counters["summaries_compared"]
			if r.Counters["result_sets_compared"] < 300 || r.Counters["summaries_compared"] < 50 {
				gates = append(gates, "too few CLI outputs compared")
			}
			if r.SetSize("undecodable_kinds") < 10 || r.SetSize("invalid_selectors") < 9 {
				gates = append(gates, "fail-closed part covered too few kinds")
			}
			return gates
		},
	})
}

var _ = bytes.Equal

// c15Once: the example configuration printed by the CLI is accepted by the CLI and changes nothing.
func c15Once(c *mon.Ctx) {
	ex, se, code := runCLI(nil, "", "-exampleConfig")
	c.R.Count("cli_invocations", 1)
	if code != 0 || strings.TrimSpace(ex) == "" {
		c.V("example-config-fails", fmt.Sprintf("zlint -exampleConfig exits %d: %s", code, clipS(se, 200)), "", nil, nil)
		return
	}
	dir, err := os.MkdirTemp(c.Work, "cliex.")
	if err != nil {
		return
	}
	defer os.RemoveAll(dir)
	cfgPath := filepath.Join(dir, "example.toml")
	_ = os.WriteFile(cfgPath, []byte(ex), 0o644)
	for k, idx := range W.ByKind[corpus.Cert] {
		if k%97 != 0 {
			continue
		}
		o := W.Objs[idx]
		p := filepath.Join(dir, fmt.Sprintf("c%d.pem", k))
		_ = os.WriteFile(p, encodeInput(o, "pem"), 0o644)
		a, _, ca := runCLI(nil, dir, p)
		b, seb, cb := runCLI(nil, dir, "-config", cfgPath, p)
		c.R.Count("cli_invocations", 2)
		c.R.Count("evaluations", 2)
		oa, _ := decodeObjects(a)
		ob, _ := decodeObjects(b)
		if ca != 0 || cb != 0 || len(oa) != 1 || len(ob) != 1 {
			c.V("example-config-not-accepted", fmt.Sprintf("zlint -config <its own -exampleConfig output> exits %d (without: %d): %s", cb, ca, clipS(seb, 200)), "", map[string][]byte{"example.toml": []byte(ex)}, nil)
			continue
		}
		for name, ra := range oa[0] {
			if rb := ob[0][name]; rb != ra && !c05ClockLints[name] {
				c.V("example-config-changes-verdict|"+name, fmt.Sprintf("%s: %v without configuration, %v with the CLI's own example configuration (%s)", name, ra, rb, o.Name), name, inputs(o), nil)
			}
		}
		c.R.Count("example_config_comparisons", 1)
	}
}

// ---- transport variants: fail closed or agree ----
//
// Real inputs are not always the canonical PEM / DER / base64 text: CRLF line ends, a byte-order mark, explanatory
// text around the armour, PEM headers, several blocks in one file, wrapped or unpadded base64, trailing bytes. The
// documentation does not say which of these the tool decodes, so neither outcome is demanded - but the property leaves
// only two: the tool FAILS CLOSED (non-zero exit, no result object), or it prints exactly what the library computes for
// the certificate(s) the bytes denote, in order. A result object for anything else, or exit 0 without a result, refutes.
func c15Transport(c *mon.Ctx, i int, rng *rand.Rand, dir string, pick func() *mon.Obj) {
	certOnly := func() *mon.Obj {
		for k := 0; k < 30; k++ {
			if o := pick(); o.Kind == corpus.Cert {
				return o
			}
		}
		return W.Objs[W.ByKind[corpus.Cert][0]]
	}
	a, b := certOnly(), certOnly()
	pa, pb := encodeInput(a, "pem"), encodeInput(b, "pem")
	b64 := base64.StdEncoding.EncodeToString(a.DER)
	wrap := func(s string, n int, nl string) string {
		var sb strings.Builder
		for len(s) > n {
			sb.WriteString(s[:n] + nl)
			s = s[n:]
		}
		return sb.String() + s + nl
	}
	type tv struct {
		name, suffix, format string
		data                 []byte
		denotes              []*mon.Obj // what a tool that accepts the bytes may have read, in order (a prefix of it)
	}
	crlf := bytes.ReplaceAll(pa, []byte("\n"), []byte("\r\n"))
	vars := []tv{
		{"PEM with CRLF line ends", ".pem", "", crlf, []*mon.Obj{a}},
		{"PEM with a byte-order mark", ".pem", "", append([]byte("\xef\xbb\xbf"), pa...), []*mon.Obj{a}},
		{"PEM after explanatory text", ".pem", "", append([]byte("subject=/CN=example\nissuer=/CN=ca\n"), pa...), []*mon.Obj{a}},
		{"PEM followed by text", ".pem", "", append(append([]byte{}, pa...), []byte("\ntrailing words\n")...), []*mon.Obj{a}},
		{"PEM with headers", ".pem", "", bytes.Replace(pa, []byte("-----BEGIN CERTIFICATE-----\n"), []byte("-----BEGIN CERTIFICATE-----\nComment: exported\nX-Serial: 7\n\n"), 1), []*mon.Obj{a}},
		{"two PEM blocks", ".pem", "", append(append([]byte{}, pa...), pb...), []*mon.Obj{a, b}},
		{"two PEM blocks, the second one damaged", ".pem", "", append(append([]byte{}, pa...), pb[:len(pb)/2]...), []*mon.Obj{a}},
		{"PEM without final newline", ".pem", "", bytes.TrimRight(pa, "\n"), []*mon.Obj{a}},
		{"PEM on one base64 line", ".pem", "", []byte("-----BEGIN CERTIFICATE-----\n" + b64 + "\n-----END CERTIFICATE-----\n"), []*mon.Obj{a}},
		{"PEM wrapped at 76 columns", ".pem", "", []byte("-----BEGIN CERTIFICATE-----\n" + wrap(b64, 76, "\n") + "-----END CERTIFICATE-----\n"), []*mon.Obj{a}},
		{"PEM with lower-case armour", ".pem", "", bytes.ReplaceAll(pa, []byte("CERTIFICATE"), []byte("certificate")), []*mon.Obj{a}},
		{"PEM with blank lines inside", ".pem", "", bytes.Replace(pa, []byte("\n"), []byte("\n\n"), 3), []*mon.Obj{a}},
		{"base64 wrapped at 64 columns", ".txt", "base64", []byte(wrap(b64, 64, "\n")), []*mon.Obj{a}},
		{"base64 wrapped with CRLF", ".txt", "base64", []byte(wrap(b64, 76, "\r\n")), []*mon.Obj{a}},
		{"base64 with a final newline", ".txt", "base64", []byte(b64 + "\n"), []*mon.Obj{a}},
		{"base64 without padding", ".txt", "base64", []byte(strings.TrimRight(b64, "=")), []*mon.Obj{a}},
		{"base64 in the URL-safe alphabet", ".txt", "base64", []byte(base64.URLEncoding.EncodeToString(a.DER)), []*mon.Obj{a}},
		{"base64 surrounded by blanks", ".txt", "base64", []byte("  " + b64 + "  \n"), []*mon.Obj{a}},
		{"DER followed by bytes", ".der", "", append(append([]byte{}, a.DER...), 0x00, 0x01, 0x02), []*mon.Obj{a}},
		{"DER followed by a second certificate", ".der", "", append(append([]byte{}, a.DER...), b.DER...), []*mon.Obj{a, b}},
		{"DER in a PEM-named file", ".pem", "", a.DER, []*mon.Obj{a}},
		{"PEM in a DER-named file", ".der", "", pa, []*mon.Obj{a}},
	}
	v := vars[(i/20)%len(vars)]
	p := filepath.Join(dir, "in"+v.suffix)
	_ = os.WriteFile(p, v.data, 0o644)
	var args []string
	if v.format != "" {
		args = append(args, "-format", v.format)
	}
	var stdin []byte
	if rng.Intn(3) == 0 {
		stdin = v.data
		if v.format == "" {
			args = append(args, "-format", strings.TrimPrefix(v.suffix, "."))
		}
	} else {
		args = append(args, p)
	}
	out, se, code := runCLI(stdin, dir, args...)
	c.R.Count("evaluations", 1)
	c.R.Count("cli_invocations", 1)
	c.R.Count("transport_variants_run", 1)
	files := map[string][]byte{"in" + v.suffix: v.data}
	desc := fmt.Sprintf("%s: zlint %s", v.name, strings.Join(args, " "))
	objs, derr := decodeObjects(out)
	if code != 0 {
		c.R.Distinct("transport_outcomes", v.name+" => fails closed")
		if len(objs) > 0 && len(objs) >= len(v.denotes) {
			c.V("result-for-undecodable|"+v.name, fmt.Sprintf("non-zero exit, yet %d result object(s) were printed for an input that denotes %d certificate(s) (%s)", len(objs), len(v.denotes), desc), "", files, nil)
		}
		// results printed for a PREFIX of several objects before failing on a later one are what several files would give
		for k := range objs {
			if k < len(v.denotes) {
				c15SameAsLibrary(c, objs[k], v.denotes[k], desc, files)
			}
		}
		return
	}
	c.R.Distinct("transport_outcomes", fmt.Sprintf("%s => accepted, %d object(s)", v.name, len(objs)))
	if derr != nil || len(objs) == 0 || len(objs) > len(v.denotes) {
		c.V("transport-output-shape|"+v.name, fmt.Sprintf("exit 0 with %d result objects (decode error %v) for an input that denotes %d certificate(s) (%s) :: %s", len(objs), derr, len(v.denotes), desc, clipS(se, 160)), "", files, nil)
		return
	}
	for k := range objs {
		c15SameAsLibrary(c, objs[k], v.denotes[k], desc, files)
	}
}

func c15SameAsLibrary(c *mon.Ctx, got map[string]cliResult, o *mon.Obj, desc string, files map[string][]byte) {
	want, err := selection{}.libResults(o)
	if err != nil {
		c.R.Count("library_side_failed", 1)
		return
	}
	c.R.Count("transport_result_sets_compared", 1)
	if len(got) != len(want) {
		c.V("transport-differs", fmt.Sprintf("the tool printed %d results, the library computes %d for the certificate the bytes denote (%s)", len(got), len(want), desc), "", files, nil)
		return
	}
	for name, w := range want {
		if g, ok := got[name]; !ok || (g != w && !c05ClockLints[name]) {
			c.V("transport-differs|"+name, fmt.Sprintf("%s: the tool prints %v, the library computes %v for the certificate the bytes denote (%s)", name, g, w, desc), name, files, nil)
		}
	}
}
