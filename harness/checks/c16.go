package checks

import (
	"fmt"
	"github.com/zmap/zlint/v3/util"
	"math/big"
	"math/rand"
	"regexp"
	"strconv"
	"strings"
	"sync"
	"time"

	"github.com/zmap/zlint/v3/lint"

	"verif/corpus"
	"verif/gen"
	"verif/mon"
)

// C16 - RSA key-quality verdicts are arithmetically exact.

var smallPrimes []int64 // sieve: all primes < 752

func init() {
	comp := make([]bool, 752)
	for i := 2; i < 752; i++ {
		if !comp[i] {
			smallPrimes = append(smallPrimes, int64(i))
			for j := i * i; j < 752; j += i {
				comp[j] = true
			}
		}
	}
}

func hasFactorBelow752(n *big.Int) bool {
	m := new(big.Int)
	for _, p := range smallPrimes {
		if m.Mod(n, big.NewInt(p)).Sign() == 0 {
			return true
		}
	}
	return false
}

// fermatIndex: for N = p*q (distinct odd primes) the zero-based round at
// which Fermat's search from floor(sqrt(N))+1 hits (p+q)/2.
func fermatIndex(p, q *big.Int) *big.Int {
	n := new(big.Int).Mul(p, q)
	a := new(big.Int).Add(p, q)
	a.Rsh(a, 1)
	s := new(big.Int).Sqrt(n)
	s.Add(s, big.NewInt(1))
	return a.Sub(a, s)
}

type rsaTemplate struct {
	name  string
	lints []string // lints designed to apply here
	mk    func(n, e *big.Int, key *gen.RSAKey) *gen.Spec
}

var c16Templates = []rsaTemplate{
	{"tls-2024", []string{"e_rsa_mod_less_than_2048_bits", "w_rsa_mod_not_odd", "w_rsa_mod_factors_smaller_than_752", "e_rsa_public_exponent_not_odd", "e_rsa_public_exponent_too_small", "w_rsa_public_exponent_not_in_range", "e_mp_modulus_must_be_2048_bits_or_more", "e_mp_modulus_must_be_divisible_by_8", "e_mp_exponent_cannot_be_one", "e_rsa_fermat_factorization"},
		func(n, e *big.Int, _ *gen.RSAKey) *gen.Spec {
			s := gen.TLSLeaf(gen.D(2024, 3, 1), "www.example.com")
			s.SPKI = gen.RSASPKI(n, e)
			return s
		}},
	{"cs-2024", []string{"e_cs_rsa_key_size", "e_mp_modulus_must_be_2048_bits_or_more"},
		func(n, e *big.Int, _ *gen.RSAKey) *gen.Spec {
			s := gen.CSLeaf(gen.D(2024, 3, 1))
			s.SPKI = gen.RSASPKI(n, e)
			return s
		}},
	{"old-subca-2009", []string{"e_old_sub_ca_rsa_mod_less_than_1024_bits"},
		func(n, e *big.Int, _ *gen.RSAKey) *gen.Spec {
			s := gen.SubCA(gen.D(2009, 3, 1))
			s.NotAfter = gen.D(2013, 3, 1)
			s.SPKI = gen.RSASPKI(n, e)
			return s
		}},
	{"old-subscriber-2010", []string{"e_old_sub_cert_rsa_mod_less_than_1024_bits"},
		func(n, e *big.Int, _ *gen.RSAKey) *gen.Spec {
			s := gen.TLSLeaf(gen.D(2010, 3, 1), "www.example.com")
			s.NotAfter = gen.D(2012, 3, 1)
			s.SPKI = gen.RSASPKI(n, e)
			return s
		}},
	{"old-root-2009", []string{"e_old_root_ca_rsa_mod_less_than_2048_bits"},
		func(n, e *big.Int, key *gen.RSAKey) *gen.Spec {
			if key == nil {
				return nil
			}
			return gen.RootCA(gen.D(2009, 3, 1), key)
		}},
}

var minBits = map[string]int{"e_rsa_mod_less_than_2048_bits": 2048, "e_mp_modulus_must_be_2048_bits_or_more": 2048, "e_old_root_ca_rsa_mod_less_than_2048_bits": 2048,
	"e_old_sub_ca_rsa_mod_less_than_1024_bits": 1024, "e_old_sub_cert_rsa_mod_less_than_1024_bits": 1024, "e_cs_rsa_key_size": 3072}

// c16Expect is the arithmetic reference for one lint.
func c16Expect(name string, n, e *big.Int) (lint.LintStatus, bool) {
	bad := func(b bool, st lint.LintStatus) (lint.LintStatus, bool) {
		if b {
			return st, true
		}
		return lint.Pass, true
	}
	if mb, ok := minBits[name]; ok {
		return bad(n.BitLen() < mb, lint.Error)
	}
	switch name {
	case "e_mp_modulus_must_be_divisible_by_8":
		return bad(n.BitLen()%8 != 0, lint.Error)
	case "w_rsa_mod_not_odd":
		return bad(n.Bit(0) == 0, lint.Warn)
	case "w_rsa_mod_factors_smaller_than_752":
		return bad(hasFactorBelow752(n), lint.Warn)
	case "e_rsa_public_exponent_not_odd":
		return bad(e.Bit(0) == 0, lint.Error)
	case "e_rsa_public_exponent_too_small":
		return bad(e.Cmp(big.NewInt(3)) < 0, lint.Error)
	case "e_mp_exponent_cannot_be_one":
		return bad(e.Cmp(big.NewInt(1)) == 0, lint.Error)
	case "w_rsa_public_exponent_not_in_range":
		return bad(e.Cmp(big.NewInt(65537)) < 0, lint.Warn)
	}
	return 0, false
}

var (
	c16PrimeMu sync.Mutex
	c16Primes  = map[int]*big.Int{}
)

// bigPrime returns a fixed prime of the given bit length (cached).
func bigPrime(bits int) *big.Int {
	c16PrimeMu.Lock()
	defer c16PrimeMu.Unlock()
	if p, ok := c16Primes[bits]; ok {
		return p
	}
	p := gen.Prime(rand.New(rand.NewSource(int64(bits)*7919+1)), bits)
	c16Primes[bits] = p
	return p
}

// modulusOfBits returns an odd modulus of exactly `bits` bits with no factor
// below 752 (a product of two primes) - not a real key, only arithmetic.
func modulusOfBits(bits int) *big.Int {
	p := bigPrime(bits / 2)
	q := bigPrime(bits - bits/2)
	n := new(big.Int).Mul(p, q)
	for try := 0; n.BitLen() != bits && try < 64; try++ {
		// the product of a- and b-bit numbers has a+b or a+b-1 bits; walk q to the next prime band
		if n.BitLen() < bits {
			q = gen.NextPrime(new(big.Int).Add(q, new(big.Int).Rsh(q, 2)))
		} else {
			q = gen.NextPrime(new(big.Int).Rsh(q, 1))
		}
		n = new(big.Int).Mul(p, q)
	}
	return n
}

type c16Case struct {
	tmpl int
	n, e *big.Int
	key  *gen.RSAKey
	what string
	lazy func() (*big.Int, *gen.RSAKey) // materialised in the worker that runs the case
}

var (
	c16Cases []c16Case
)

func c16Build(c *mon.Ctx) {
	e65537 := big.NewInt(65537)
	add := func(t int, n, e *big.Int, what string) {
		c16Cases = append(c16Cases, c16Case{tmpl: t, n: n, e: e, what: what})
	}
	addLazy := func(t int, e *big.Int, what string, f func() *big.Int) {
		c16Cases = append(c16Cases, c16Case{tmpl: t, e: e, what: what, lazy: func() (*big.Int, *gen.RSAKey) { return f(), nil }})
	}
	// bit-length boundaries on every template whose lints have a minimum
	for _, bits := range []int{1016, 1023, 1024, 1025, 1032, 2040, 2047, 2048, 2049, 2056, 3064, 3071, 3072, 3073, 3080, 4096, 512, 8192} {
		bits := bits
		if bits == 8192 && !c.Thorough() {
			continue
		}
		for t := 0; t < 4; t++ {
			addLazy(t, e65537, fmt.Sprintf("modulus of %d bits", bits), func() *big.Int { return modulusOfBits(bits) })
		}
		// exact powers-of-two neighbours: smallest / largest value of that bit length
		lo := new(big.Int).Lsh(big.NewInt(1), uint(bits-1))
		lo.Add(lo, big.NewInt(1))
		hi := new(big.Int).Lsh(big.NewInt(1), uint(bits))
		hi.Sub(hi, big.NewInt(1))
		add(0, lo, e65537, fmt.Sprintf("2^%d+1", bits-1))
		add(0, hi, e65537, fmt.Sprintf("2^%d-1", bits))
		add(1, lo, e65537, fmt.Sprintf("2^%d+1", bits-1))
		add(2, hi, e65537, fmt.Sprintf("2^%d-1", bits))
		add(3, lo, e65537, fmt.Sprintf("2^%d+1", bits-1))
	}
	// parity
	base := modulusOfBits(2048)
	add(0, new(big.Int).Add(base, big.NewInt(1)), e65537, "even modulus")
	add(0, new(big.Int).Lsh(bigPrime(2040), 8), e65537, "modulus divisible by 256")
	// every divisor 2..751 and the numbers just above, times a large prime cofactor
	cof := bigPrime(2036)
	cof2 := bigPrime(1012)
	for f := int64(2); f <= 800; f++ {
		n := new(big.Int).Mul(big.NewInt(f), cof)
		add(0, n, e65537, fmt.Sprintf("%d x 2036-bit prime", f))
		if c.Thorough() || f%5 == int64(uint64(c.Seed)%5) {
			add(0, new(big.Int).Mul(big.NewInt(f), cof2), e65537, fmt.Sprintf("%d x 1012-bit prime", f))
		}
	}
	for _, pr := range [][2]int64{{757, 761}, {769, 773}, {751, 757}, {743, 751}, {757, 757}, {1009, 1013}, {2, 757}} {
		n := new(big.Int).Mul(big.NewInt(pr[0]*pr[1]), cof)
		add(0, n, e65537, fmt.Sprintf("%d x %d x 2036-bit prime", pr[0], pr[1]))
	}
	// exponents
	good := modulusOfBits(2048)
	for _, e := range []string{"1", "2", "3", "4", "5", "17", "255", "256", "257", "65535", "65536", "65537", "65538", "65539", "131071", "2147483647", "2147483648", "4294967297", "4611686018427387903", "4611686018427387904", "9223372036854775807", "9223372036854775808", "18446744073709551617", "0", "-3"} {
		ev, _ := new(big.Int).SetString(e, 10)
		add(0, good, ev, "exponent "+e)
	}
	// really self-signed old roots with moduli around 2048 bits
	rng := rand.New(rand.NewSource(16))
	_ = rng
	for _, bits := range []int{2047, 2048, 2049, 1024, 4096} {
		bits := bits
		if !c.Thorough() && bits == 4096 {
			continue
		}
		c16Cases = append(c16Cases, c16Case{tmpl: 4, e: e65537, what: fmt.Sprintf("self-signed root, %d-bit modulus", bits), lazy: func() (*big.Int, *gen.RSAKey) {
			k := gen.NewRSAKey(rand.New(rand.NewSource(int64(16+bits))), bits)
			return k.N, k
		}})
	}
	c16NFermat = c.Pick(132, 2500)
}

var c16NFermat int

// fermatPair derives pair k on demand (deterministic in seed and k).
func fermatPair(seed int64, k int) (p, q *big.Int) {
	frng := rand.New(rand.NewSource(seed*1000003 + int64(k)*7919 + 11))
	if k%11 == 10 { // neighbouring primes: index 0
		q = gen.Prime(frng, []int{512, 1024, 1536}[k%3])
		return gen.NextPrime(q), q
	}
	bits := []int{256, 384, 512, 768, 1024}[k%5]
	q = gen.Prime(frng, bits)
	// delta ~ sqrt(2*q*target) gives a Fermat index near target
	target := []int64{0, 1, 2, 3, 50, 99, 100, 101, 150, 999, 1000, 1001, 5000}[frng.Intn(13)]
	d := new(big.Int).Mul(q, big.NewInt(2*target+1))
	d.Sqrt(d)
	if frng.Intn(4) == 0 { // far apart: must not be found
		d = new(big.Int).Rsh(q, uint(2+frng.Intn(8)))
	}
	p = gen.NextPrime(new(big.Int).Add(q, new(big.Int).Lsh(d, 1)))
	return p, q
}

var reFactors = regexp.MustCompile(`p: (\d+); q: (\d+)`)

func c16Judge(c *mon.Ctx, cs c16Case) {
	t := c16Templates[cs.tmpl]
	if cs.lazy != nil {
		cs.n, cs.key = cs.lazy()
	}
	spec := t.mk(cs.n, cs.e, cs.key)
	if spec == nil {
		return
	}
	o, _ := mon.ParseObj(corpus.Cert, "gen/rsa/"+t.name, spec.DER())
	c.R.Count("keys_generated", 1)
	if o == nil {
		c.R.Count("keys_rejected_by_parser", 1)
		c.R.Distinct("rejected", cs.what)
		return
	}
	rs, pv, _ := o.Lint(lint.GlobalRegistry())
	c.R.Count("evaluations", 1)
	if pv != nil || rs == nil {
		return
	}
	for _, name := range t.lints {
		if name == "e_rsa_fermat_factorization" {
			continue
		}
		if _, ok := InvBy[name]; !ok {
			c.R.Distinct("lints_missing_from_registry", name)
			continue
		}
		want, ok := c16Expect(name, cs.n, cs.e)
		if !ok {
			continue
		}
		r := rs.Results[name]
		c.R.Count("verdicts_judged", 1)
		if r.Status == lint.NE && !mon.InWindow(InvBy[name].Meta, o.Date()) {
			// the template's date lies outside the window the lint carries TODAY (an effective date moved, a lint
			// retired): nothing is reported, rightly (that is C03's subject) - and nothing can be judged here
			c.R.Distinct("lints_outside_their_live_window_on_a_template", name+" on "+t.name)
			continue
		}
		if r.Status == lint.NA || r.Status == lint.NE {
			c.V("not-judged|"+name+"|"+t.name, fmt.Sprintf("%s returns %s on template %s, which is built to satisfy its applicability (%s, e=%s)", name, r.Status, t.name, cs.what, cs.e), name, inputs(o), nil)
			continue
		}
		c.R.Distinct("verdicts", name+"="+r.Status.String())
		if r.Status != want {
			c.V(fmt.Sprintf("wrong-verdict|%s|want-%s", name, want), fmt.Sprintf("%s = %s, arithmetic says %s: %s, modulus %d bits (mod 8 = %d, odd=%v), e=%s, template %s", name, r.Status, want, cs.what, cs.n.BitLen(), cs.n.BitLen()%8, cs.n.Bit(0) == 1, cs.e, t.name), name, inputs(o), nil)
		}
	}
}

func c16JudgeFermat(c *mon.Ctx, k int) {
	var pr struct{ p, q *big.Int }
	pr.p, pr.q = fermatPair(c.Seed, k)
	if pr.p.Cmp(pr.q) == 0 {
		return
	}
	if _, ok := InvBy["e_rsa_fermat_factorization"]; !ok {
		c.R.Distinct("lints_missing_from_registry", "e_rsa_fermat_factorization")
		return
	}
	n := new(big.Int).Mul(pr.p, pr.q)
	idx := fermatIndex(pr.p, pr.q)
	g := lint.GlobalRegistry()
	spec := c16Templates[0].mk(n, big.NewInt(65537), nil)
	o, _ := mon.ParseObj(corpus.Cert, "gen/rsa/fermat", spec.DER())
	if o == nil {
		c.R.Count("keys_rejected_by_parser", 1)
		return
	}
	rounds := []int64{0, 1, 2, 100, 101, 1000}
	if idx.IsInt64() && idx.Int64() < 20000 {
		i := idx.Int64()
		rounds = append(rounds, i, i+1, i+2)
		if i > 0 {
			rounds = append(rounds, i-1)
		}
	}
	// documents that NAME the lint without setting the option: the documented default (100 rounds) stays in force
	partial := []string{"[e_rsa_fermat_factorization]\n", "[e_rsa_fermat_factorization]\n# Rounds = 3\n", "e_rsa_fermat_factorization = {}\n", "[e_rsa_fermat_factorization]\n[unrelated]\nRounds = 1\n"}
	for ri, R := range append(append([]int64{}, rounds...), -1) {
		var reg lint.Registry
		label := "default (100)"
		if R == -1 {
			R = 100
			doc := partial[(k+ri)%len(partial)]
			r2, err := g.Filter(lint.FilterOptions{IncludeNames: []string{"e_rsa_fermat_factorization"}})
			if err != nil {
				continue
			}
			r2.SetConfiguration(mustConfig(doc))
			reg = r2
			label = "default (100), the lint's table present without the option: " + strconv.Quote(doc)
			c.R.Count("fermat_partial_sections", 1)
		} else if R == 100 && k%2 == 0 {
			reg = g // the default, no configuration at all
		} else {
			r2, err := g.Filter(lint.FilterOptions{IncludeNames: []string{"e_rsa_fermat_factorization"}})
			if err != nil {
				c.R.Inconcl("cannot filter to the Fermat lint: " + err.Error())
				return
			}
			r2.SetConfiguration(mustConfig(fmt.Sprintf("[e_rsa_fermat_factorization]\nRounds = %d\n", R)))
			reg = r2
			label = fmt.Sprintf("Rounds = %d", R)
		}
		rs, pv, _ := o.Lint(reg)
		c.R.Count("evaluations", 1)
		if pv != nil || rs == nil {
			continue
		}
		r := rs.Results["e_rsa_fermat_factorization"]
		if r == nil {
			continue
		}
		found := idx.Cmp(big.NewInt(R)) < 0
		c.R.Count("fermat_judged", 1)
		c.R.Distinct("fermat_outcomes", fmt.Sprintf("found=%v", found))
		desc := fmt.Sprintf("N = p*q, %d bits, |p-q| has %d bits, Fermat index %s, %s", n.BitLen(), new(big.Int).Sub(pr.p, pr.q).BitLen(), idx, label)
		switch {
		case r.Status == lint.NE && !mon.InWindow(InvBy["e_rsa_fermat_factorization"].Meta, o.Date()):
			c.R.Distinct("lints_outside_their_live_window_on_a_template", "e_rsa_fermat_factorization")
		case r.Status == lint.NA || r.Status == lint.NE:
			c.V("not-judged|e_rsa_fermat_factorization", "the Fermat lint returns "+r.Status.String()+" on an RSA subscriber certificate ("+desc+")", "e_rsa_fermat_factorization", inputs(o), nil)
		case found && r.Status != lint.Error:
			c.V("fermat-missed", "close primes not reported: status "+r.Status.String()+" ("+desc+")", "e_rsa_fermat_factorization", inputs(o), nil)
		case !found && r.Status == lint.Error && !reFactors.MatchString(r.Details):
			c.V("fermat-bogus", "error without a factorisation although the primes are out of reach ("+desc+")", "e_rsa_fermat_factorization", inputs(o), nil)
		}
		if r.Status == lint.Error {
			m := reFactors.FindStringSubmatch(r.Details)
			if m == nil {
				c.V("fermat-details", "error without a parsable factorisation: "+clipS(r.Details, 120), "e_rsa_fermat_factorization", inputs(o), nil)
				continue
			}
			fp, _ := new(big.Int).SetString(m[1], 10)
			fq, _ := new(big.Int).SetString(m[2], 10)
			if new(big.Int).Mul(fp, fq).Cmp(n) != 0 {
				c.V("fermat-wrong-factors", "the reported factorisation does not multiply back to the modulus ("+desc+")", "e_rsa_fermat_factorization", inputs(o), nil)
			}
			if !found {
				c.V("fermat-found-beyond-rounds", "factorisation reported although it needs more rounds than configured ("+desc+")", "e_rsa_fermat_factorization", inputs(o), nil)
			}
			c.R.Count("fermat_factorisations_verified", 1)
		}
	}
	if k%40 == 0 {
		c.R.Sample(6, map[string]any{"modulus_bits": n.BitLen(), "fermat_index": idx.String(), "rounds_tried": rounds})
	}
}

func init() {
	mon.Register(&mon.Check{
		ID:          "C16",
		Rule:        "evaluations = certificates whose SubjectPublicKeyInfo was rewritten with a chosen (N, e) and linted; every key-quality lint designed to apply on the template (TLS subscriber 2024, code-signing subscriber, old sub-CA, old subscriber, really self-signed old root) is compared with an independent arithmetic reference (sieve primes < 752, bit length, parity, closed-form Fermat round index); NA/NE on such a template is itself a violation. Moduli: bit lengths around 1024/2048/3072 and multiples of 8 +-1, 2^k+1, 2^k-1, even, every divisor 2..800 times a prime cofactor, products of primes just above 752; exponents 1..2^64+1; prime pairs at controlled distance with Rounds in {0,1,2,100,101,1000, index-1..index+2} set through configuration. distinct_nontrivial = distinct (lint, status) verdicts + Fermat judgements.",
		Assumptions: []string{"(N, e) the parser rejects (non-positive, exponent beyond the platform int) are outside the quantifier and counted"},
		Setup: func(c *mon.Ctx) error {
			if err := setupCommon(c); err != nil {
				return err
			}
			t0 := time.Now()
			c16Build(c)
			_ = t0
			return nil
		},
		Cases: func(c *mon.Ctx) int { return len(c16Cases) + c16NFermat + c16DateCases() },
		RunCase: func(c *mon.Ctx, i int) {
			disturb(c, i)
			if i >= len(c16Cases)+c16NFermat {
				c16DateLattice(c, i-len(c16Cases)-c16NFermat)
				return
			}
			if i < len(c16Cases) {
				c16Judge(c, c16Cases[i])
				if i%211 == 0 {
					cs := c16Cases[i]
					c.R.Sample(8, map[string]any{"template": c16Templates[cs.tmpl].name, "modulus": cs.what, "e": cs.e.String()})
				}
				return
			}
			c16JudgeFermat(c, i-len(c16Cases))
		},
		Finish: func(c *mon.Ctx, r *mon.Report, ev *mon.Evidence) []string {
			var gates []string
			ev.Coverage["distinct_nontrivial"] = r.SetSize("verdicts") + int(r.Counters["fermat_judged"])
			ev.Coverage["verdicts_seen"] = r.SetKeys("verdicts")
			ev.Coverage["unrelated_objects_linted_before_and_between_keys"] = r.Counters["disturbance_objects_linted"]
			ev.Coverage["parser_rejected_keys"] = r.SetKeys("rejected")
			ev.Coverage["fermat_outcomes"] = r.Sets["fermat_outcomes"]
			ev.Coverage["fermat_factorisations_verified"] = r.Counters["fermat_factorisations_verified"]
			// a named lint that the tree under test no longer registers, or that its live window keeps away from every
			// template, cannot show a verdict: listed in the evidence, not a reason to fail the observation gate
			cannot := map[string]bool{}
			for _, n := range r.SetKeys("lints_missing_from_registry") {
				cannot[n] = true
			}
			for _, k := range r.SetKeys("lints_outside_their_live_window_on_a_template") {
				cannot[strings.SplitN(k, " on ", 2)[0]] = true
			}
			ev.Coverage["named_lints_not_registered"] = r.SetKeys("lints_missing_from_registry")
			ev.Coverage["named_lints_outside_their_live_window_on_a_template"] = r.SetKeys("lints_outside_their_live_window_on_a_template")
			for name := range map[string]bool{"e_rsa_mod_less_than_2048_bits": true, "e_mp_modulus_must_be_2048_bits_or_more": true, "e_old_root_ca_rsa_mod_less_than_2048_bits": true, "e_old_sub_ca_rsa_mod_less_than_1024_bits": true, "e_old_sub_cert_rsa_mod_less_than_1024_bits": true, "e_cs_rsa_key_size": true, "e_mp_modulus_must_be_divisible_by_8": true, "e_rsa_public_exponent_not_odd": true, "e_rsa_public_exponent_too_small": true, "e_mp_exponent_cannot_be_one": true} {
				for _, s := range []string{"pass", "error"} {
					if r.Sets["verdicts"][name+"="+s] == 0 && !cannot[name] {
						gates = append(gates, "verdict never observed: "+name+"="+s)
					}
				}
			}
			for _, name := range []string{"w_rsa_mod_not_odd", "w_rsa_mod_factors_smaller_than_752", "w_rsa_public_exponent_not_in_range"} {
				for _, s := range []string{"pass", "warn"} {
					if r.Sets["verdicts"][name+"="+s] == 0 && !cannot[name] {
						gates = append(gates, "verdict never observed: "+name+"="+s)
					}
				}
			}
			ev.Coverage["date_lattice_verdicts_judged"] = r.Counters["date_lattice_verdicts_judged"]
			ev.Coverage["date_lattice_lints_judged_at_an_instant"] = r.SetSize("date_lattice_judged")
			if r.Counters["date_lattice_verdicts_judged"] < 2000 {
				gates = append(gates, "date lattice judged too few verdicts")
			}
			if (r.Sets["fermat_outcomes"]["found=true"] == 0 || r.Sets["fermat_outcomes"]["found=false"] == 0) && !cannot["e_rsa_fermat_factorization"] {
				gates = append(gates, "Fermat lint not judged on both sides of the round limit")
			}
			return gates
		},
	})
}

// ---- date lattice ----
//
// "On which they apply" is decided by the lints from the certificate's dates (several of them switch on notAfter or
// notBefore relative to a cut-off). Whatever a lint decides about applying, WHEN IT JUDGES it must judge exactly its
// arithmetic predicate. So certificates are dated at every cut-off instant used by zlint's date table that lies in the
// RSA transition years, and at the RSA lints' own effective dates, -1 s / 0 / +1 s, as notBefore and as notAfter, on
// subscriber, sub-CA and code-signing templates, with moduli around each minimum; NA and NE are accepted here, a
// verdict that differs from the arithmetic is not.

var c16DateInstants = func() []time.Time {
	base := []time.Time{util.NoRSA1024RootDate, util.NoRSA1024Date, util.CABEffectiveDate, util.CABV102Date, util.CABV113Date, util.MozillaPolicy22Date, util.MozillaPolicy24Date,
		time.Date(2010, 12, 31, 0, 0, 0, 0, time.UTC), time.Date(2013, 12, 31, 0, 0, 0, 0, time.UTC), time.Date(2013, 12, 31, 23, 59, 59, 0, time.UTC), util.RFC5280Date, time.Date(2019, 8, 13, 0, 0, 0, 0, time.UTC)}
	var out []time.Time
	seen := map[int64]bool{}
	for _, b := range base {
		for _, d := range []time.Duration{-time.Second, 0, time.Second} {
			t := b.Add(d)
			if !seen[t.Unix()] {
				seen[t.Unix()] = true
				out = append(out, t)
			}
		}
	}
	return out
}()

var c16DateBits = []int{1023, 1024, 1536, 2047, 2048, 2049, 3071, 3072}

func c16DateCases() int { return len(c16DateInstants) * 3 * 3 * len(c16DateBits) }

func c16DateLattice(c *mon.Ctx, k int) {
	bits := c16DateBits[k%len(c16DateBits)]
	k /= len(c16DateBits)
	tmpl := k % 3
	k /= 3
	role := k % 3
	t := c16DateInstants[k/3%len(c16DateInstants)]
	var nb, na time.Time
	switch role {
	case 0:
		nb, na = t, t.AddDate(2, 0, 0)
	case 1:
		nb, na = t.AddDate(-1, 0, 0), t
	default:
		nb, na = t.AddDate(-5, 0, 0), t
	}
	n := modulusOfBits(bits)
	e := []*big.Int{big.NewInt(65537), big.NewInt(3), big.NewInt(65536), big.NewInt(1)}[(bits+tmpl+role)%4]
	var s *gen.Spec
	var tn string
	switch tmpl {
	case 0:
		s, tn = gen.TLSLeaf(nb, "www.example.com"), "subscriber"
	case 1:
		s, tn = gen.SubCA(nb), "sub-ca"
	default:
		s, tn = gen.CSLeaf(nb), "code-signing"
	}
	s.NotBefore, s.NotAfter = nb, na
	s.SPKI = gen.RSASPKI(n, e)
	o, _ := mon.ParseObj(corpus.Cert, "gen/rsa-dates/"+tn, s.DER())
	if o == nil {
		return
	}
	rs, pv, _ := o.Lint(lint.GlobalRegistry())
	c.R.Count("evaluations", 1)
	if pv != nil || rs == nil {
		return
	}
	for name := range c16AllLints() {
		r := rs.Results[name]
		if r == nil || r.Status == lint.NA || r.Status == lint.NE || r.Status == lint.Fatal {
			continue
		}
		want, ok := c16Expect(name, n, e)
		if !ok {
			continue
		}
		c.R.Count("date_lattice_verdicts_judged", 1)
		c.R.Distinct("date_lattice_judged", name+"@"+t.Format(time.RFC3339))
		if r.Status != want {
			c.V(fmt.Sprintf("wrong-verdict|%s|want-%s", name, want), fmt.Sprintf("%s = %s, arithmetic says %s: %d-bit modulus, e=%s, %s certificate valid %s .. %s", name, r.Status, want, n.BitLen(), e, tn, nb.Format(time.RFC3339), na.Format(time.RFC3339)), name, inputs(o), nil)
		}
	}
}

func c16AllLints() map[string]bool {
	out := map[string]bool{}
	for _, t := range c16Templates {
		for _, l := range t.lints {
			if l != "e_rsa_fermat_factorization" {
				out[l] = true
			}
		}
	}
	return out
}
