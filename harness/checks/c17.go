package checks

import (
	"fmt"
	"math/rand"
	"strings"

	"github.com/zmap/zlint/v3/lint"

	"verif/corpus"
	"verif/der"
	"verif/gen"
	"verif/mon"
)

// C17 - verdicts do not depend on the order of SAN entries or of extensions.

var c17Mut mon.MutStats

// permutations of 0..n-1: all for n <= 4, otherwise rotations, reversal and seeded shuffles.
func c17Perms(rng *rand.Rand, n, extra int) [][]int {
	id := make([]int, n)
	for i := range id {
		id[i] = i
	}
	var out [][]int
	if n <= 4 {
		var rec func(cur []int, used []bool)
		rec = func(cur []int, used []bool) {
			if len(cur) == n {
				out = append(out, append([]int{}, cur...))
				return
			}
			for i := 0; i < n; i++ {
				if !used[i] {
					used[i] = true
					rec(append(cur, i), used)
					used[i] = false
				}
			}
		}
		rec(nil, make([]bool, n))
		return out[1:] // drop identity
	}
	for r := 1; r < n; r++ {
		p := make([]int, n)
		for i := range p {
			p[i] = (i + r) % n
		}
		out = append(out, p)
	}
	rev := make([]int, n)
	for i := range rev {
		rev[i] = n - 1 - i
	}
	out = append(out, rev)
	for k := 0; k < extra; k++ {
		out = append(out, rng.Perm(n))
	}
	return out
}

// flipSig flips one signature bit so that no variant is self-signed.
func flipSig(dc *der.Cert) bool {
	cur, _, set := sigBytes(dc)
	if len(cur) == 0 {
		return false
	}
	nb := append([]byte{}, cur...)
	nb[len(nb)-1] ^= 1
	set(nb)
	return true
}

func statusOnlyDiff(a, b mon.Snap) []string { return mon.Diff(a, b, true, false) }

// c17Judge compares the status vector of base (identity order) with every permuted variant.
func c17Judge(c *mon.Ctx, name string, dc *der.Cert, what string, list func(x *der.Cert) *der.Node, rng *rand.Rand, labels []string) {
	g := lint.GlobalRegistry()
	baseC := dc.Clone()
	if !flipSig(baseC) {
		return
	}
	l := list(baseC)
	if l == nil || len(l.Children) < 2 {
		return
	}
	n := len(l.Children)
	ob, _ := mon.ParseObj(corpus.Cert, name, baseC.Encode())
	if ob == nil {
		c.R.Count("base_rejected", 1)
		return
	}
	rs, pv, _ := ob.Lint(g)
	c.R.Count("evaluations", 1)
	if pv != nil || rs == nil {
		return
	}
	base := mon.SnapOf(rs)
	day := today()
	compared := 0
	for _, p := range c17Perms(rng, n, 4) {
		v := baseC.Clone()
		vl := list(v)
		orig := append([]*der.Node{}, vl.Children...)
		for i, j := range p {
			vl.Children[i] = orig[j]
		}
		ov, _ := mon.ParseObj(corpus.Cert, name, v.Encode())
		if ov == nil {
			c.R.Count("variant_rejected", 1)
			continue
		}
		rv, pv2, _ := ov.Lint(g)
		c.R.Count("evaluations", 1)
		if pv2 != nil || rv == nil {
			continue
		}
		compared++
		for _, d := range dropClock(day, statusOnlyDiff(base, mon.SnapOf(rv))) {
			ln := strings.SplitN(d, ":", 2)[0]
			c.V(what+"-order|"+ln, fmt.Sprintf("lint %s changes status when only the %s order changes (permutation %v of %v): %s (input %s)", ln, what, p, labels, clipS(d, 200), name), ln, map[string][]byte{"identity": ob.DER, "permuted": ov.DER}, map[string]any{"permutation": p, "labels": labels})
		}
	}
	if compared > 0 {
		c.R.Count("bases_"+what, 1)
		c.R.Count("permutations_"+what, int64(compared))
		c.CountDistinct(append([]byte(what+":"), ob.DER...))
	}
}

func sanList(x *der.Cert) *der.Node {
	e := x.FindExt(gen.OIDExtSAN)
	if e == nil {
		return nil
	}
	v := der.ExtValue(e)
	if v == nil || v.Wrapped == nil || !v.Wrapped.Is(der.TagSequence) {
		return nil
	}
	return v.Wrapped
}

func extList(x *der.Cert) *der.Node {
	if x.HasDuplicateExt() {
		return nil
	}
	return x.ExtList()
}

func init() {
	var nSeeds, nGen int
	mon.Register(&mon.Check{
		ID:          "C17",
		Rule:        "evaluations = Lint*Ex calls; each base certificate (one signature bit flipped so that no variant is self-signed) is compared, status by status, with re-encodings that permute its SAN GeneralNames (all permutations up to 4 entries, rotations/reversal/seeded shuffles above) or its extension list (certificates with a repeated extension OID excluded). Bases: generated TLS / S-MIME certificates whose SAN lists are drawn from a labelled pool (compliant, non-compliant, unparseable entries of every GeneralName kind), corpus certificates, hostile mutants. distinct_nontrivial = bases with >= 1 permuted variant compared.",
		Assumptions: []string{"status only is compared, as the property states", "permuted encodings the parser rejects are skipped and counted"},
		Setup: func(c *mon.Ctx) error {
			if err := setupCommon(c); err != nil {
				return err
			}
			nSeeds = len(W.Objs)
			nGen = c.Pick(1500, 40000)
			return nil
		},
		Cases: func(c *mon.Ctx) int {
			return c17CNCases(c) + c17PairCases(c) + c17RelCases(c) + c17OnionCases() + nGen + nSeeds + c.Pick(3000, 100000) + directedSmallTail(c)
		},
		RunCase: func(c *mon.Ctx, i int) {
			rng := c.Rng(i, 0)
			if base := c17CNCases(c) + c17PairCases(c) + c17RelCases(c) + c17OnionCases() + nGen + nSeeds + c.Pick(3000, 100000); i >= base {
				// the small directed families (extension shapes: QC statements, policy qualifiers, key identifiers, BOTH LEI
				// extensions, Tor descriptors ... on every template): extension order and SAN order of each member
				k := directedPick(c, i-base)
				if k < 0 {
					return
				}
				o, desc := directedCase(c, k)
				if o == nil || o.Kind != corpus.Cert {
					return
				}
				dc, err := der.ParseCert(o.DER)
				if err != nil || dc.HasDuplicateExt() {
					return
				}
				c.R.Count("directed_members_permuted", 1)
				c17Judge(c, o.Name+"~"+desc, dc, "extension", extList, rng, nil)
				if (i-base)%3 == 0 {
					c17Judge(c, o.Name+"~"+desc, dc, "san", sanList, rng, nil)
				}
				return
			}
			if i < c17CNCases(c) {
				c17CommonNames(c, i, rng)
				return
			}
			i -= c17CNCases(c)
			if i < c17PairCases(c) {
				c17Pair(c, i, rng)
				return
			}
			i -= c17PairCases(c)
			if i < c17RelCases(c) {
				c17Relatives(c, i, rng)
				return
			}
			i -= c17RelCases(c)
			if i < c17OnionCases() {
				c17Onion(c, i, rng)
				return
			}
			i -= c17OnionCases()
			if i < nGen {
				k := 2 + rng.Intn(4)
				if i%7 == 0 {
					k = 2
				}
				gns, labels := gen.RandGNs(rng, k)
				var spec *gen.Spec
				switch i % 4 {
				case 0, 1:
					spec = gen.TLSLeaf(gen.D(2024, 3, 1), "www.example.com")
					if i%8 == 1 { // empty common name: SAN alone carries the names
						spec.Subject = gen.Name(gen.A(gen.OIDC, "US"), gen.A(gen.OIDO, "Example Org"))
					}
				case 2:
					spec = gen.SMIMELeaf(gen.D(2024, 3, 1), "alice@example.com")
				default:
					spec = gen.TLSLeaf(gen.D(2017, 3, 1), "www.example.com")
					spec.ReplaceExt(gen.ExtPolicies(gen.OIDPolEV))
				}
				spec.ReplaceExt(gen.ExtSAN(i%5 == 0, gns...))
				dc, err := der.ParseCert(spec.DER())
				if err != nil {
					return
				}
				for _, l := range labels {
					c.R.Distinct("gn_labels", l)
				}
				c17Judge(c, fmt.Sprintf("gen/san%v", labels), dc, "san", sanList, rng, labels)
				if i%3 == 0 {
					c17Judge(c, fmt.Sprintf("gen/san%v", labels), dc, "extension", extList, rng, labels)
				}
				if i%301 == 0 {
					c.R.Sample(6, map[string]any{"san_entries": labels, "template": i % 4})
				}
				return
			}
			o, desc, _ := unionCase(c, i-nGen, &c17Mut)
			if o == nil || o.Kind != corpus.Cert {
				return
			}
			dc, err := der.ParseCert(o.DER)
			if err != nil {
				return
			}
			c17Judge(c, o.Name+"~"+desc, dc, "san", sanList, rng, nil)
			c17Judge(c, o.Name+"~"+desc, dc, "extension", extList, rng, nil)
		},
		Finish: func(c *mon.Ctx, r *mon.Report, ev *mon.Evidence) []string {
			var gates []string
			ev.Coverage["san_bases"] = r.Counters["bases_san"]
			ev.Coverage["san_permutations"] = r.Counters["permutations_san"]
			ev.Coverage["extension_bases"] = r.Counters["bases_extension"]
			ev.Coverage["extension_permutations"] = r.Counters["permutations_extension"]
			ev.Coverage["general_name_pool_labels_used"] = r.SetSize("gn_labels")
			ev.Coverage["general_name_pool_pairs"] = r.Counters["pool_pairs"]
			if r.Counters["pool_pairs"] < int64(len(gen.GNPool)*(len(gen.GNPool)-1)/2) {
				gates = append(gates, "not every pair of general-name pool entries was built")
			}
			ev.Coverage["common_name_pairs"] = r.Counters["common_name_pairs"]
			if r.Counters["common_name_pairs"] < 1000 {
				gates = append(gates, "too few dNSName pairs under unusual common names built")
			}
			ev.Coverage["relative_triples"] = r.Counters["relative_triples"]
			if r.Counters["relative_triples"] < 5000 {
				gates = append(gates, "too few relative triples built")
			}
			if r.Counters["bases_san"] < 500 || r.Counters["bases_extension"] < 500 {
				gates = append(gates, "too few bases compared")
			}
			if r.SetSize("gn_labels") < len(gen.GNPool)*9/10 {
				gates = append(gates, "general-name pool not covered")
			}
			return gates
		},
	})
}

// ---- exhaustive pairs ----
//
// "A finding about one name is not suppressed or produced by where another name sits" is a statement about PAIRS of
// entries. Random lists only contain a given pair by luck, so every unordered pair of pool entries is also built
// once as a two-entry SAN (quick: TLS template; thorough: also S/MIME, EV and a three-entry list with a neutral name
// in the middle) and compared with its reversal.
func c17PairCases(c *mon.Ctx) int {
	n := len(gen.GNPool)
	return n * (n - 1) / 2 * c.Pick(2, 4)
}

func c17Pair(c *mon.Ctx, i int, rng *rand.Rand) {
	n := len(gen.GNPool)
	np := n * (n - 1) / 2
	variant, k := i/np, i%np
	a := 0
	for k >= n-1-a {
		k -= n - 1 - a
		a++
	}
	b := a + 1 + k
	ea, eb := gen.GNPool[a], gen.GNPool[b]
	gns := []*der.Node{ea.Node(), eb.Node()}
	labels := []string{ea.Label, eb.Label}
	var spec *gen.Spec
	switch variant {
	case 1:
		// S/MIME: the subject's own mailbox address stays in the SAN, so that what the pair adds decides
		spec = gen.SMIMELeaf(gen.D(2024, 3, 1), "alice@example.com")
		gns = []*der.Node{ea.Node(), gen.GNEmail("alice@example.com"), eb.Node()}
		labels = []string{ea.Label, "email-good", eb.Label}
	case 2:
		spec = gen.TLSLeaf(gen.D(2017, 3, 1), "www.example.com")
		spec.ReplaceExt(gen.ExtPolicies(gen.OIDPolEV))
	case 3:
		spec = gen.TLSLeaf(gen.D(2024, 3, 1), "www.example.com")
		gns = []*der.Node{ea.Node(), gen.GNDNS("www.example.com"), eb.Node()}
		labels = []string{ea.Label, "dns-good", eb.Label}
	default:
		spec = gen.TLSLeaf(gen.D(2024, 3, 1), "www.example.com")
		if (a+b)%2 == 1 {
			spec.Subject = gen.Name(gen.A(gen.OIDC, "US"), gen.A(gen.OIDO, "Example Org"))
		}
	}
	spec.ReplaceExt(gen.ExtSAN(false, gns...))
	dc, err := der.ParseCert(spec.DER())
	if err != nil {
		return
	}
	c.R.Count("pool_pairs", 1)
	c17Judge(c, fmt.Sprintf("gen/pair%v", labels), dc, "san", sanList, rng, labels)
}

// ---- dNSName pairs under unusual common names ----
//
// DNS-name lints judge the subject common name together with the SAN dNSNames, and treat a common name that is empty
// or an IP literal specially. Whether a finding about one SAN entry survives a re-ordering can therefore depend on
// what the common name is. Every unordered pair of dNSName pool entries is built under each common name of a small
// pool (IPv4 / IPv6 literals, a bare public suffix, underscores, a wildcard, a leading hyphen, an onion name, an
// attribute with an empty value); quick takes a hashed third of the product, thorough all.
var c17CNPool = []string{"192.0.2.10", "2001:db8::10", "co.uk", "a_b.c_d.com", "*.example.com", "www.-example.com", "x.onion", ""}

func c17CNCases(c *mon.Ctx) int {
	n := len(gen.DNSPool())
	return n * (n - 1) / 2 * len(c17CNPool) * 2
}

func c17CommonNames(c *mon.Ctx, i int, rng *rand.Rand) {
	if !c.Thorough() && !directedSampled(c, i, 3) {
		return
	}
	dns := gen.DNSPool()
	n := len(dns)
	ev := i%2 == 1 // the EV lints (wildcards, onion names) only run under the EV policy
	i /= 2
	cn := c17CNPool[i%len(c17CNPool)]
	k := i / len(c17CNPool)
	a := 0
	for k >= n-1-a {
		k -= n - 1 - a
		a++
	}
	b := a + 1 + k
	ea, eb := dns[a], dns[b]
	spec := gen.TLSLeaf(gen.D(2024, 3, 1), "www.example.com")
	spec.Subject = gen.Name(gen.A(gen.OIDC, "US"), gen.A(gen.OIDO, "Example Org"), gen.A(gen.OIDCN, cn))
	if ev {
		spec.ReplaceExt(gen.ExtPolicies(gen.OIDPolEV))
		spec.Subject = gen.Name(gen.A(gen.OIDJurC, "US"), gen.A(gen.OIDBizCat, "Private Organization"), gen.A(gen.OIDSerial, "C1234567"), gen.A(gen.OIDC, "US"), gen.A(gen.OIDO, "Example Org"), gen.A(gen.OIDCN, cn))
		if cn == "" { // no common name attribute at all
			spec.Subject = gen.Name(gen.A(gen.OIDJurC, "US"), gen.A(gen.OIDBizCat, "Private Organization"), gen.A(gen.OIDSerial, "C1234567"), gen.A(gen.OIDC, "US"), gen.A(gen.OIDO, "Example Org"))
		}
	}
	labels := []string{ea.Label, eb.Label}
	spec.ReplaceExt(gen.ExtSAN(false, ea.Node(), eb.Node()))
	dc, err := der.ParseCert(spec.DER())
	if err != nil {
		return
	}
	c.R.Count("common_name_pairs", 1)
	c17Judge(c, fmt.Sprintf("gen/cn-pair%v under common name %q ev=%v", labels, cn, ev), dc, "san", sanList, rng, labels)
}

// ---- relatives ----
//
// Duplicate detection, "already seen" sets and sort-based scans go wrong when a name meets a RELATIVE of itself (the
// same name in other letter case, repeated exactly, with a trailing dot, as a wildcard sibling) with some third name
// between or around them. Every dNSName pool entry is combined with each kind of relative and every third entry
// (quick: third from the dNSName entries; thorough: from the whole pool); all six orders are compared.
func c17Relative(kind int, name string) string {
	switch kind {
	case 0:
		return strings.ToUpper(name)
	case 1:
		return name
	case 2:
		if len(name) > 0 {
			return strings.ToUpper(name[:1]) + name[1:]
		}
		return name
	default:
		return name + "."
	}
}

func c17Thirds(c *mon.Ctx) []gen.GNPoolEntry {
	if c.Thorough() {
		return gen.GNPool
	}
	return gen.DNSPool()
}

func c17RelCases(c *mon.Ctx) int { return len(gen.DNSPool()) * 4 * len(c17Thirds(c)) }

func c17Relatives(c *mon.Ctx, i int, rng *rand.Rand) {
	dns := gen.DNSPool()
	thirds := c17Thirds(c)
	e := dns[i%len(dns)]
	i /= len(dns)
	kind := i % 4
	x := thirds[i/4%len(thirds)]
	en := e.Node()
	if en.Class != 2 || en.Tag != 2 {
		return
	}
	rel := gen.GNDNS(c17Relative(kind, string(en.Content)))
	gns := []*der.Node{rel, x.Node(), en}
	labels := []string{fmt.Sprintf("relative(%d) of %s", kind, e.Label), x.Label, e.Label}
	spec := gen.TLSLeaf(gen.D(2024, 3, 1), "www.example.com")
	if (i+kind)%3 == 0 {
		spec.Subject = gen.Name(gen.A(gen.OIDC, "US"), gen.A(gen.OIDO, "Example Org"))
	}
	spec.ReplaceExt(gen.ExtSAN(false, gns...))
	dc, err := der.ParseCert(spec.DER())
	if err != nil {
		return
	}
	c.R.Count("relative_triples", 1)
	c17Judge(c, fmt.Sprintf("gen/relatives%v", labels), dc, "san", sanList, rng, labels)
}

// ---- onion names with a Tor service descriptor ----
//
// The lints for .onion names only run on EV certificates, and the descriptor lint only with a TorServiceDescriptor
// extension - a shape no random SAN list on the ordinary templates reaches. Every unordered pair of a small pool of
// onion spellings (v3 and v2 addresses in lower / upper / mixed case, with sub-labels, the descriptor's own host) is
// put into the SAN of such a certificate next to the descriptor's host; all orders are compared.
const (
	c17V3    = "pg6mmjiyjmcrsslvykfwnntlaru7p5svn6y2ymmju6nubxndf4pscryd.onion"
	c17V3b   = "2gzyxa5ihm7nsggfxnu52rck2vv4rvmdlkiu3zzui5du4xyclen53wid.onion"
	c17V2    = "zmapzlintonion22.onion"
	c17DescH = "descriptor2host7.onion"
)

var c17OnionPool = []string{c17V3, strings.ToUpper(c17V3), "Pg6mmjiyjmcrsslvykfwnntlaru7p5svn6y2ymmju6nubxndf4pscryd.onion", "www." + c17V3, c17V3b, c17V2, strings.ToUpper(c17V2), "www." + c17V2,
	strings.ToUpper(c17DescH), "www." + c17DescH, "www.example.com", "onion", "x.onion"}

func c17OnionCases() int { n := len(c17OnionPool); return n * (n + 1) / 2 * 2 }

func torDescriptorExt(hosts ...string) *der.Node {
	list := der.Seq()
	for i, h := range hosts {
		hash := make([]byte, 32)
		for k := range hash {
			hash[k] = byte(k*7 + i)
		}
		list.Children = append(list.Children, der.Seq(der.Str(der.TagUTF8, "https://"+h), der.Seq(der.OID("2.16.840.1.101.3.4.2.1")), der.Bits(hash, 0)))
	}
	return der.MakeExt("2.23.140.1.31", false, list)
}

func c17Onion(c *mon.Ctx, i int, rng *rand.Rand) {
	n := len(c17OnionPool)
	withTor := i%2 == 0
	k := i / 2
	a := 0
	for k >= n-a {
		k -= n - a
		a++
	}
	b := a + k // b >= a: a pair, or the same spelling twice
	names := []string{c17OnionPool[a], c17OnionPool[b], c17DescH}
	spec := gen.TLSLeaf(gen.D(2019, 3, 1), names...)
	spec.Subject = gen.Name(gen.A(gen.OIDC, "US"), gen.A(gen.OIDO, "Example Org"), gen.A(gen.OIDCN, "www.example.com"))
	spec.ReplaceExt(gen.ExtPolicies(gen.OIDPolEV))
	if withTor {
		spec.Exts = append(spec.Exts, torDescriptorExt(c17DescH))
	}
	dc, err := der.ParseCert(spec.DER())
	if err != nil {
		return
	}
	c.R.Count("onion_pairs", 1)
	c17Judge(c, fmt.Sprintf("gen/onion%v tor=%v", names, withTor), dc, "san", sanList, rng, names)
}
