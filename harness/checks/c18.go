package checks

import (
	"context"
	"encoding/json"
	"fmt"
	"golang.org/x/net/idna"
	"net"
	"os"
	"os/exec"
	"path/filepath"
	"sort"
	"strings"
	"time"

	"github.com/zmap/zlint/v3/lint"
	"github.com/zmap/zlint/v3/util"

	"verif/corpus"
	"verif/gen"
	"verif/mon"
)

// C18 - TLD validity follows the delegation table exactly.

const tldLayout = "2006-01-02"

type tldRef struct {
	name     string
	deleg    time.Time
	removal  time.Time
	hasRem   bool
	wellForm bool
}

var (
	c18Ref   map[string]tldRef
	c18Names []string
)

func c18Load() {
	c18Ref = map[string]tldRef{}
	for k, p := range util.VerifTLDMap() {
		r := tldRef{name: k, wellForm: true}
		d, err := time.Parse(tldLayout, p.DelegationDate)
		if err != nil {
			r.wellForm = false
		}
		r.deleg = d
		if p.RemovalDate != "" {
			rm, err := time.Parse(tldLayout, p.RemovalDate)
			if err != nil {
				r.wellForm = false
			}
			r.removal, r.hasRem = rm, true
		}
		c18Ref[k] = r
		c18Names = append(c18Names, k)
	}
	sort.Strings(c18Names)
}

// refValid is the reference predicate of the property text.
func refValid(domain string, t time.Time) bool {
	label := domain
	if i := strings.LastIndex(domain, "."); i >= 0 {
		label = domain[i+1:]
	}
	r, ok := c18Ref[strings.ToLower(label)]
	if !ok {
		return false
	}
	if t.Unix() < r.deleg.Unix() {
		return false
	}
	if r.hasRem && t.Unix() > r.removal.Unix() {
		return false
	}
	return true
}

func refInMap(label string) bool {
	_, ok := c18Ref[strings.ToLower(label)]
	return ok
}

func mixCase(s string, k int) string {
	b := []byte(s)
	for i := range b {
		if (i+k)%2 == 0 && b[i] >= 'a' && b[i] <= 'z' {
			b[i] -= 32
		}
	}
	return string(b)
}

func c18Instants(r tldRef) []time.Time {
	out := []time.Time{r.deleg.Add(-time.Second), r.deleg, r.deleg.Add(time.Second), r.deleg.Add(-24 * time.Hour), r.deleg.Add(24 * time.Hour)}
	if r.hasRem {
		out = append(out, r.removal.Add(-time.Second), r.removal, r.removal.Add(time.Second), r.removal.Add(24*time.Hour))
	} else {
		out = append(out, time.Date(2040, 1, 1, 0, 0, 0, 0, time.UTC))
	}
	// the same instants expressed in other zones, and instants far away from today (first / last representable
	// int64-nanosecond instants +-1 s, centuries before and after, the ends of the calendar)
	out = append(out, r.deleg.In(time.FixedZone("+14", 14*3600)), r.deleg.Add(-time.Second).In(time.FixedZone("-12", -12*3600)))
	if r.hasRem {
		out = append(out, r.removal.In(time.FixedZone("-12", -12*3600)), r.removal.Add(time.Second).In(time.FixedZone("+14", 14*3600)))
	}
	out = append(out, c18Extremes...)
	return out
}

var c18Extremes = []time.Time{
	{},
	time.Date(1, 1, 1, 0, 0, 1, 0, time.UTC), time.Date(1500, 1, 1, 0, 0, 0, 0, time.UTC),
	time.Unix(0, -1<<63).UTC().Add(-time.Second), time.Unix(0, -1<<63).UTC(), time.Unix(0, -1<<63).UTC().Add(time.Second),
	time.Date(1969, 12, 31, 23, 59, 59, 0, time.UTC), time.Unix(0, 0).UTC(),
	time.Unix(0, 1<<63-1).UTC().Add(-time.Second), time.Unix(0, 1<<63-1).UTC(), time.Unix(0, 1<<63-1).UTC().Add(time.Second),
	time.Date(2300, 1, 1, 0, 0, 0, 0, time.UTC), time.Date(2570, 6, 1, 0, 0, 0, 0, time.UTC), time.Date(2602, 1, 1, 0, 0, 0, 0, time.UTC), time.Date(2610, 1, 1, 0, 0, 0, 0, time.UTC),
	time.Date(3000, 1, 1, 0, 0, 0, 0, time.UTC), time.Date(9999, 12, 31, 23, 59, 59, 0, time.UTC),
	time.Unix(1<<40, 0).UTC(), time.Unix(-1<<40, 0).UTC(),
}

func c18Once(c *mon.Ctx) {
	c18Generator(c)
	// (a) live-table invariant
	for k, p := range util.VerifTLDMap() {
		c.R.Count("evaluations", 1)
		c.R.Distinct("table_entries", k)
		if k != strings.ToLower(k) || p.GTLD != k {
			c.V("table-key|"+k, fmt.Sprintf("table entry %q is not keyed by its own lower-case name (GTLD field %q)", k, p.GTLD), "", nil, nil)
		}
		d, err := time.Parse(tldLayout, p.DelegationDate)
		if err != nil {
			c.V("table-delegation-date|"+k, fmt.Sprintf("entry %s has an unparseable delegation date %q", k, p.DelegationDate), "", nil, nil)
		}
		if p.RemovalDate != "" {
			rm, err2 := time.Parse(tldLayout, p.RemovalDate)
			if err2 != nil {
				c.V("table-removal-date|"+k, fmt.Sprintf("entry %s has an unparseable removal date %q", k, p.RemovalDate), "", nil, nil)
			} else if err == nil && rm.Before(d) {
				c.V("table-removal-before-delegation|"+k, fmt.Sprintf("entry %s is removed (%s) before it is delegated (%s)", k, p.RemovalDate, p.DelegationDate), "", nil, nil)
			}
		}
	}
	for _, k := range []string{"com", "abarth", "zuerich"} {
		if p, ok := util.VerifTLDMap()[k]; ok {
			c.R.Sample(8, map[string]any{"table_entry": k, "delegation": p.DelegationDate, "removal": p.RemovalDate, "valid_at_delegation": util.HasValidTLD("example."+k, c18Ref[k].deleg), "valid_1s_before": util.HasValidTLD("example."+k, c18Ref[k].deleg.Add(-time.Second))})
		}
	}
	// (b) API vs reference, exhaustive over the table
	prefixes := []string{"", "example.", "a.b.c.", "WWW.Example.", "*.", "xn--bcher-kva.", "."}
	for ni, name := range c18Names {
		r := c18Ref[name]
		if !r.wellForm {
			continue
		}
		forms := []string{name, strings.ToUpper(name), mixCase(name, ni)}
		for ti, t := range c18Instants(r) {
			for fi, f := range forms {
				for pi, p := range prefixes {
					if (ti+fi+pi)%2 == 1 && !c.Thorough() && pi > 1 {
						continue
					}
					d := p + f
					got, want := util.HasValidTLD(d, t), refValid(d, t)
					c.R.Count("evaluations", 1)
					c.R.Count("api_probes", 1)
					if got != want {
						c.V(fmt.Sprintf("hasvalidtld|%s", boundaryLabel(r, t)), fmt.Sprintf("HasValidTLD(%q, %s) = %v, the table says %v (delegated %s, removed %s)", d, t.UTC().Format(time.RFC3339), got, want, fmtDate(r.deleg), fmtDate(r.removal)), "", nil, nil)
					}
					// same instant in another zone
					if pi == 0 && fi == 0 {
						tz := t.In(time.FixedZone("x", -11*3600))
						if util.HasValidTLD(d, tz) != want {
							c.V("hasvalidtld-zone", fmt.Sprintf("HasValidTLD(%q, %s) differs from the same instant in UTC", d, tz.Format(time.RFC3339)), "", nil, nil)
						}
					}
				}
				if util.IsInTLDMap(f) != true {
					c.V("isintldmap", fmt.Sprintf("IsInTLDMap(%q) = false for a table entry", f), "", nil, nil)
				}
			}
		}
		// trailing dot / empty label / near misses: never valid unless the right-most label is itself an entry
		for _, d := range []string{name + ".", "example." + name + ".", name + "x", "x" + name, name + "-", "example." + name + " ", name + ".invalidtldzz"} {
			t := r.deleg.Add(48 * time.Hour)
			got, want := util.HasValidTLD(d, t), refValid(d, t)
			c.R.Count("evaluations", 1)
			if got != want {
				c.V("hasvalidtld-malformed", fmt.Sprintf("HasValidTLD(%q) = %v, reference %v", d, got, want), "", nil, nil)
			}
		}
		// labels DERIVED from the entry that are not the entry: its ASCII text dressed as an A-label ("xn--com-" is
		// valid punycode for "com"), the ACE prefix in front of it, the U-label of an IDN entry, the entry behind a
		// full-width / ideographic full stop (which IDNA maps to a dot, the table test does not). Whatever such a label
		// "means" after some canonicalisation, it is not keyed in the table - unless the reference says so.
		derived := []string{"xn--" + name + "-", "XN--" + strings.ToUpper(name) + "-", "xn--" + name, "xn--" + name + "-a", name + "--", "example\uff0e" + name, "example\u3002" + name, name + "\u3002", "example." + name + "\u200d"}
		if strings.HasPrefix(name, "xn--") {
			if u, err := idna.ToUnicode(name); err == nil && u != name {
				derived = append(derived, u, strings.ToUpper(u), "example."+u)
			}
		}
		for _, d := range derived {
			for _, lead := range []string{"", "www.example."} {
				t := r.deleg.Add(48 * time.Hour)
				got, want := util.HasValidTLD(lead+d, t), refValid(lead+d, t)
				c.R.Count("evaluations", 1)
				c.R.Count("derived_label_probes", 1)
				if got != want {
					c.V("hasvalidtld-derived", fmt.Sprintf("HasValidTLD(%q, two days after the delegation of %q) = %v, but the table says %v for its right-most label", lead+d, name, got, want), "", nil, nil)
				}
			}
			if got, want := util.IsInTLDMap(d), refInMap(d); got != want {
				c.V("isintldmap-derived", fmt.Sprintf("IsInTLDMap(%q) = %v, the table says %v", d, got, want), "", nil, nil)
			}
		}
		// total lengths at and around the limits that DNS, byte-sized and 16-bit counters suggest: the right-most label
		// decides whatever stands in front of it
		for _, total := range []int{63, 64, 65, 127, 128, 253, 254, 255, 256, 257, 512, 1000, 4096, 65535, 65536} {
			if total <= len(name)+2 {
				continue
			}
			pad := strings.Repeat("abcdefg.", total/8+1)
			d := pad[len(pad)-(total-len(name)-1):]
			d = strings.TrimLeft(d, ".")
			d = strings.Repeat("a", total-len(name)-1-len(d)) + d + "." + name
			one := strings.Repeat("a", total-len(name)-1) + "." + name // ONE label of that length in front
			for k, dd := range []string{d, one} {
				if k == 1 && total > 300 && ni%16 != 0 {
					continue
				}
				for _, t := range []time.Time{r.deleg.Add(48 * time.Hour), r.deleg.Add(-48 * time.Hour)} {
					got, want := util.HasValidTLD(dd, t), refValid(dd, t)
					c.R.Count("evaluations", 1)
					c.R.Count("api_probes", 1)
					c.R.Count("long_name_probes", 1)
					if got != want {
						c.V("hasvalidtld-length", fmt.Sprintf("HasValidTLD(<name of %d octets ending in .%s>, %s) = %v, the table says %v", len(dd), name, t.UTC().Format(time.RFC3339), got, want), "", nil, nil)
					}
				}
			}
		}
		if ni%50 == 0 {
			c.Tick()
		}
	}
	for _, l := range []string{"", "invalidtldzz", "local", "internal", "corp", "localhost", "example", "test", "c0m", "com.", ".com", " com"} {
		if util.IsInTLDMap(l) != refInMap(l) {
			c.V("isintldmap-nonentry", fmt.Sprintf("IsInTLDMap(%q) = %v, reference %v", l, util.IsInTLDMap(l), refInMap(l)), "", nil, nil)
		}
		c.R.Count("evaluations", 1)
	}
}

// c18Generator runs zlint's table generator (cmd/zlint-gtld-update) against hostile upstream data. The monitor is
// compiled into the generator's own package with `go test -overlay` (nothing is written under the repository).
func c18Generator(c *mon.Ctx) {
	src := filepath.Join(c.Home, "harness", "gtldgen", "verif_gen_test.go.txt")
	dst := filepath.Join(c.Repo, "v3", "cmd", "zlint-gtld-update", "verif_gen_test.go")
	ov := filepath.Join(c.Work, "gtldgen-overlay.json")
	b, _ := json.Marshal(map[string]any{"Replace": map[string]string{dst: src}})
	if err := os.WriteFile(ov, b, 0o644); err != nil {
		c.R.Inconcl("generator monitor: " + err.Error())
		return
	}
	ctx, cancel := context.WithTimeout(context.Background(), 10*time.Minute)
	defer cancel()
	cmd := exec.CommandContext(ctx, "go", "test", "-v", "-count=1", "-vet=off", "-overlay", ov, "-run", "^TestVerifGenerator$", "./cmd/zlint-gtld-update/")
	cmd.Dir = filepath.Join(c.Repo, "v3")
	cmd.Env = append(os.Environ(), "GOFLAGS=-mod=readonly", fmt.Sprintf("VERIF_SEED=%d", c.Seed), fmt.Sprintf("VERIF_GEN_DOCS=%d", c.Pick(300, 6000)))
	out, err := cmd.CombinedOutput()
	stats := false
	for _, l := range strings.Split(string(out), "\n") {
		if strings.HasPrefix(l, "VERIF-GEN-VIOLATION ") {
			parts := strings.SplitN(strings.TrimPrefix(l, "VERIF-GEN-VIOLATION "), " :: ", 2)
			c.V("generator|"+parts[0], "table generator: "+clipS(parts[len(parts)-1], 400), "", nil, nil)
		}
		if strings.HasPrefix(l, "VERIF-GEN-STATS ") {
			stats = true
			c.R.Note("generator_run", strings.TrimPrefix(l, "VERIF-GEN-STATS "))
			c.R.Count("generator_documents", int64(c.Pick(300, 6000)))
			c.R.Count("evaluations", int64(c.Pick(300, 6000)))
		}
	}
	if !stats {
		c.R.Inconcl(fmt.Sprintf("generator monitor did not run to completion (%v): %s", err, clipS(string(out), 500)))
	}
}

func boundaryLabel(r tldRef, t time.Time) string {
	switch {
	case t.Unix() == r.deleg.Unix():
		return "at-delegation"
	case t.Unix() == r.deleg.Unix()-1:
		return "before-delegation"
	case r.hasRem && t.Unix() == r.removal.Unix():
		return "at-removal"
	case r.hasRem && t.Unix() == r.removal.Unix()+1:
		return "after-removal"
	}
	return "other"
}

func init() {
	mon.Register(&mon.Check{
		ID:          "C18",
		Rule:        "(a) structural invariant over every entry of the live compiled-in TLD table (hook VerifTLDMap); (b) util.HasValidTLD / IsInTLDMap against a reference built from that table, exhaustively for every entry at its delegation and removal instants -1s/0/+1s/+-1d, in lower/upper/mixed case, with label prefixes, trailing dots and near-miss labels; (d) the table generator cmd/zlint-gtld-update itself, run against seeded upstream documents with well-formed and malformed dates served by a fake transport (monitor compiled into its package with go test -overlay): clean data must be written, and whatever is written must have parseable delegation and removal dates; (c) e_dnsname_not_valid_tld on generated server-auth subscriber certificates (common name / dNSNames / IP common name mixes) dated at those instants: error <=> some non-IP CN or dNSName fails the reference at notBefore (NE before the lint's effective date). evaluations = API probes + table entries + certificates linted; distinct_nontrivial = table entries exercised.",
		Assumptions: []string{"the reference is built from the same live table the implementation reads, so a wrong table entry is only caught by the structural invariant (a)"},
		Setup: func(c *mon.Ctx) error {
			if err := setupCommon(c); err != nil {
				return err
			}
			c18Load()
			return nil
		},
		Once:  c18Once,
		Cases: func(c *mon.Ctx) int { return len(c18Names) },
		RunCase: func(c *mon.Ctx, i int) {
			disturb(c, i)
			if !c.Thorough() && i%4 != int(uint64(c.Seed)%4) {
				return
			}
			name := c18Names[i]
			r := c18Ref[name]
			if !r.wellForm {
				return
			}
			info, ok := InvBy["e_dnsname_not_valid_tld"]
			if !ok {
				// the tree under test does not register the TLD lint (any more): clause (c) has nothing to judge
				c.R.Distinct("tld_lint_not_registered", "e_dnsname_not_valid_tld")
				return
			}
			g := lint.GlobalRegistry()
			rng := c.Rng(i, 0)
			good := "example.com"
			other := c18Names[rng.Intn(len(c18Names))]
			shapes := []struct {
				cn  string
				dns []string
			}{
				{"www." + name, []string{"www." + name}},
				{"", []string{"a." + name, good}},
				{good, []string{good, "b." + strings.ToUpper(name)}},
				{"10.1.2.3", []string{good, "c." + name}},
				{"x." + name, []string{good}},
				{good, []string{good, "d." + other, "e." + name}},
				{"2001:db8::1", []string{"f." + name}},
				{good, []string{good, "192.0.2.7"}}, // an IP literal in a dNSName is a name whose right-most label is not a TLD
				{"g." + name, []string{"g." + name, "2001:db8::1"}},
				{good, []string{good, "localhost"}},
				{"", []string{"h." + name, good, "10.0.0.1"}},
				{good, []string{good, "k." + name + ".", "l." + name}}, // a trailing dot: the right-most label is empty
				{good, []string{"m." + name + ".", good, "n.example.org"}},
				// common names that LOOK like addresses but are not IP addresses in textual form (zone suffix, port,
				// prefix length, brackets, five or three parts, leading zeros, blanks): names whose right-most label decides
				{[]string{"fe80::1%eth0", "fe80::1%www.example.invalidtldzz", "10.1.2.3:443", "10.1.2.3/24", "[2001:db8::1]", "1.2.3.4.5", "1.2.3", "010.001.002.003", " 10.1.2.3", "10.1.2.3 ", "0x0a.1.2.3", "1.2.3.4."}[i%12], []string{good, "i." + name}},
				{[]string{"::ffff:10.0.0.1", "::", "0.0.0.0", "255.255.255.255", "2001:DB8::A", "::1"}[i%6], []string{good, "j." + name}},
			}
			for _, t := range c18Instants(r) {
				if t.Year() < 1951 || t.Year() > 2049 {
					continue
				}
				for si, sh := range shapes {
					if !c.Thorough() && (si+int(t.Unix()))%3 == 0 {
						continue
					}
					spec := gen.TLSLeaf(t, sh.dns...)
					evOnion := si%4 == 3 || si == 12
					if evOnion {
						// the same names on an EV certificate that also carries onion names (more lints look at the names);
						// as many as make the number of entries NOT a power of two (the parser's slice then has spare capacity)
						names := append(append([]string{}, sh.dns...), "pg6mmjiyjmcrsslvykfwnntlaru7p5svn6y2ymmju6nubxndf4pscryd.onion")
						for n := len(names); n&(n-1) == 0; n = len(names) {
							names = append(names, fmt.Sprintf("www%d.pg6mmjiyjmcrsslvykfwnntlaru7p5svn6y2ymmju6nubxndf4pscryd.onion", n))
						}
						spec = gen.TLSLeaf(t, names...)
						spec.ReplaceExt(gen.ExtPolicies(gen.OIDPolEV))
						sh.dns = names
					}
					if si%5 == 2 && !evOnion { // (the EV + onion variant keeps its EV policy: the onion lints only run under it)
						// a subscriber certificate that is a TLS server certificate by its POLICY only (an EKU extension
						// without serverAuth; the reserved policy OID first, a private one behind it)
						spec.ReplaceExt(gen.ExtEKU(false, gen.OIDEkuClient))
						spec.ReplaceExt(gen.ExtPolicies([]string{gen.OIDPolDV, gen.OIDPolOV, gen.OIDPolIV}[si%3], "1.3.6.1.4.1.55555.1.1"))
					}
					if (si%7 == 1 || si%7 == 4) && !evOnion {
						// a server-auth certificate (by EKU) that ALSO asserts a policy of another CA/B Forum document (S/MIME,
						// code signing) or only foreign policies: still a TLS server certificate
						extra := []string{"2.23.140.1.5.1.1", "2.23.140.1.5.2.2", "2.23.140.1.5.3.3", "2.23.140.1.5.4.1", gen.OIDPolCS, gen.OIDPolEVCS, "1.3.6.1.4.1.55555.1.1"}[(si+int(t.Unix()/7))%7]
						if si%7 == 1 {
							spec.ReplaceExt(gen.ExtPolicies(gen.OIDPolOV, extra))
						} else {
							spec.ReplaceExt(gen.ExtPolicies(extra))
						}
					}
					subj := []gen.ATV{gen.A(gen.OIDC, "US"), gen.A(gen.OIDO, "Example Org")}
					if sh.cn != "" {
						subj = append(subj, gen.A(gen.OIDCN, sh.cn))
					}
					spec.Subject = gen.Name(subj...)
					o, _ := mon.ParseObj(corpus.Cert, "gen/tld/"+name, spec.DER())
					if o == nil {
						c.R.Count("cert_rejected", 1)
						continue
					}
					rs, pv, _ := o.Lint(g)
					c.R.Count("evaluations", 1)
					if pv != nil || rs == nil {
						continue
					}
					got := rs.Results["e_dnsname_not_valid_tld"].Status
					var want lint.LintStatus
					switch {
					case !mon.InWindow(info.Meta, o.Cert.NotBefore):
						want = lint.NE
					default:
						bad := false
						if sh.cn != "" && net.ParseIP(sh.cn) == nil && !refValid(sh.cn, o.Cert.NotBefore) {
							bad = true
						}
						for _, d := range sh.dns {
							if !refValid(d, o.Cert.NotBefore) {
								bad = true
							}
						}
						want = lint.Pass
						if bad {
							want = lint.Error
						}
					}
					c.R.Distinct("lint_outcomes", want.String())
					c.R.Count("lint_judgements", 1)
					if got != want {
						c.V(fmt.Sprintf("lint|%s|want-%s", boundaryLabel(r, t), want), fmt.Sprintf("e_dnsname_not_valid_tld = %s, want %s: CN %q, dNSNames %v, notBefore %s; TLD %s delegated %s removed %s", got, want, sh.cn, sh.dns, t.UTC().Format(time.RFC3339), name, fmtDate(r.deleg), fmtDate(r.removal)), "e_dnsname_not_valid_tld", inputs(o), nil)
					}
					// the SAME parsed object linted again: the names it carries are still the names that were encoded
					if rs2, pv2, _ := o.Lint(g); pv2 == nil && rs2 != nil {
						c.R.Count("evaluations", 1)
						if got2 := rs2.Results["e_dnsname_not_valid_tld"].Status; got2 != want {
							c.V(fmt.Sprintf("lint-second-run|%s|want-%s", boundaryLabel(r, t), want), fmt.Sprintf("e_dnsname_not_valid_tld = %s on the SECOND run over the same parsed certificate (first run %s), want %s: CN %q, dNSNames %v (now %v), notBefore %s", got2, got, want, sh.cn, sh.dns, o.Cert.DNSNames, o.Cert.NotBefore.UTC().Format(time.RFC3339)), "", inputs(o), nil)
						}
					}
					if i%400 == 0 && si == 0 {
						c.R.Sample(6, map[string]any{"tld": name, "notBefore": t.UTC().Format(time.RFC3339), "cn": sh.cn, "dns": sh.dns, "status": got.String()})
					}
				}
			}
			c.R.Distinct("tlds_in_certificates", name)
		},
		Finish: func(c *mon.Ctx, r *mon.Report, ev *mon.Evidence) []string {
			var gates []string
			ev.Coverage["distinct_nontrivial"] = r.SetSize("table_entries")
			ev.Coverage["table_entries"] = r.SetSize("table_entries")
			ev.Coverage["api_probes"] = r.Counters["api_probes"]
			ev.Coverage["tlds_in_certificates"] = r.SetSize("tlds_in_certificates")
			ev.Coverage["lint_outcomes"] = r.Sets["lint_outcomes"]
			ev.Coverage["exhaustive"] = true
			ev.Coverage["unrelated_objects_linted_before_and_between_cases"] = r.Counters["disturbance_objects_linted"]
			ev.Coverage["generator_run"] = r.Notes["generator_run"]
			if r.Counters["generator_documents"] == 0 {
				gates = append(gates, "the table-generator monitor did not run (see inconclusive)")
			}
			if r.SetSize("table_entries") < 1000 {
				gates = append(gates, "table hook returned fewer than 1000 entries")
			}
			ev.Coverage["tld_lint_not_registered"] = r.SetSize("tld_lint_not_registered") > 0
			for _, k := range []string{"pass", "error"} { // NE is listed in the evidence; whether it can occur depends on the effective date the lint carries today
				if r.Sets["lint_outcomes"][k] == 0 && r.SetSize("tld_lint_not_registered") == 0 {
					gates = append(gates, "lint outcome never expected: "+k)
				}
			}
			return gates
		},
	})
}
