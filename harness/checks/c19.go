package checks

import (
	"fmt"
	"math/rand"
	"net"
	"strings"

	"github.com/zmap/zlint/v3/lint"
	"github.com/zmap/zlint/v3/util"

	"verif/corpus"
	"verif/der"
	"verif/gen"
	"verif/mon"
)

// C19 - reserved-address verdicts are consistent for hosts and networks.

// Reference blocks, from the property text.
var c19Blocks = []struct{ name, cidr string }{
	{"rfc1918-10", "10.0.0.0/8"}, {"rfc1918-172", "172.16.0.0/12"}, {"rfc1918-192", "192.168.0.0/16"},
	{"loopback", "127.0.0.0/8"}, {"link-local", "169.254.0.0/16"}, {"shared", "100.64.0.0/10"},
	{"doc-1", "192.0.2.0/24"}, {"doc-2", "198.51.100.0/24"}, {"doc-3", "203.0.113.0/24"},
	{"benchmarking", "198.18.0.0/15"}, {"multicast", "224.0.0.0/4"}, {"class-e", "240.0.0.0/4"},
	{"unspecified", "0.0.0.0/32"}, {"broadcast", "255.255.255.255/32"},
	{"v6-loopback", "::1/128"}, {"v6-ula", "fc00::/7"}, {"v6-link-local", "fe80::/10"}, {"v6-multicast", "ff00::/8"},
	{"v6-doc", "2001:db8::/32"}, {"v6-6to4", "2002::/16"}, {"v6-discard", "100::/64"}, {"v6-unspecified", "::/128"},
}

// c19Registry: the IANA special-purpose registries' networks (a harness-side copy, so that no hook into
// util/ip.go is needed). They are only a source of WITNESS networks and addresses for the relations; nothing
// is demanded of them beyond what the property states.
var c19Registry = []string{"10.0.0.0/8", "172.16.0.0/12", "192.168.0.0/16", "100.64.0.0/10", "198.18.0.0/15", "2001:2::/48",
	"192.0.2.0/24", "198.51.100.0/24", "203.0.113.0/24", "2001:db8::/32", "240.0.0.0/4", "0400::/6", "0800::/5", "1000::/4", "4000::/3",
	"6000::/3", "8000::/3", "a000::/3", "c000::/3", "e000::/4", "f000::/5", "f800::/6", "fe00::/9", "192.0.0.0/24", "2001::/23",
	"192.31.196.0/24", "192.175.48.0/24", "2001:4:112::/48", "2620:4f:8000::/48", "192.52.193.0/24", "2001:3::/32", "2001:20::/28",
	"0.0.0.0/8", "127.0.0.0/8", "::1/128", "2002::/16", "64:ff9b::/96", "64:ff9b:1::/48", "192.0.0.8/32", "192.0.0.9/32", "2001:1::1/128",
	"192.0.0.10/32", "2001:1::2/128", "192.0.0.170/32", "192.0.0.171/32", "255.255.255.255/32", "100::/64", "2001::/32", "fc00::/7",
	"fe80::/10", "169.254.0.0/16", "224.0.0.0/4", "ff00::/8", "255.0.0.0/8", "239.0.0.0/8", "192.88.99.0/24", "2001:10::/28"}

func c19Table() []net.IPNet {
	var out []net.IPNet
	for _, s := range c19Registry {
		if _, n, err := net.ParseCIDR(s); err == nil {
			out = append(out, *n)
		}
	}
	return out
}

var c19Public = []string{"8.8.8.8", "1.1.1.1", "1.0.0.0", "9.255.255.255", "11.0.0.0", "93.184.216.34", "100.63.255.255", "100.128.0.0",
	"126.255.255.255", "128.0.0.0", "169.253.255.255", "169.255.0.0", "172.15.255.255", "172.32.0.0", "192.167.255.255", "192.169.0.0",
	"198.17.255.255", "198.20.0.0", "198.51.99.255", "198.51.101.0", "203.0.112.255", "203.0.114.0", "192.0.3.0", "223.255.255.255", "151.101.1.69",
	"2606:4700:4700::1111", "2001:4860:4860::8888", "2620:fe::fe", "2a00:1450:4001:81b::200e", "2600::1"}

var c19Ctx *mon.Ctx

// isRes / inter call the implementation under recover: a panic on a well-formed address or network is
// reported as a violation of its own instead of killing the worker.
func isRes(ip net.IP) (r bool) {
	defer func() {
		if p := recover(); p != nil {
			c19Ctx.V("address-test-panics", fmt.Sprintf("IsIANAReserved(%v) [%d bytes] panics: %v", ip, len(ip), p), "", nil, nil)
		}
	}()
	return util.IsIANAReserved(ip)
}

func netInter(n net.IPNet) (r bool) {
	defer func() {
		if p := recover(); p != nil {
			c19Ctx.V("network-test-panics", fmt.Sprintf("IntersectsIANAReserved(%v) [address %d bytes, mask %d bytes] panics: %v", n.String(), len(n.IP), len(n.Mask), p), "", nil, nil)
		}
	}()
	return util.IntersectsIANAReserved(n)
}

func lastAddr(n *net.IPNet) net.IP {
	ip := append(net.IP{}, n.IP...)
	for i := range ip {
		ip[i] |= ^n.Mask[i]
	}
	return ip
}

func randIn(rng *rand.Rand, n *net.IPNet) net.IP {
	ip := append(net.IP{}, n.IP...)
	for i := range ip {
		ip[i] |= byte(rng.Intn(256)) & ^n.Mask[i]
	}
	return ip
}

func netOf(ip net.IP, prefix int) net.IPNet {
	bits := 8 * len(ip)
	m := net.CIDRMask(prefix, bits)
	return net.IPNet{IP: ip.Mask(m), Mask: m}
}

func normIP(ip net.IP) net.IP {
	if v4 := ip.To4(); v4 != nil {
		return v4
	}
	return ip
}

// c19Relations checks R1-R3 for one network; witnesses are addresses inside it.
func c19Relations(c *mon.Ctx, n net.IPNet, witnesses []net.IP, how string) {
	inter := netInter(n)
	c.R.Count("evaluations", 1)
	c.R.Count("relation_checks", 1)
	ones, bits := n.Mask.Size()
	for _, w := range witnesses {
		if !n.Contains(w) {
			continue
		}
		if isRes(w) && !inter {
			c.V(fmt.Sprintf("contains-reserved-but-no-intersection|%s", c19BlockOf(w)), fmt.Sprintf("network %s contains the reserved address %s (%s) but IntersectsIANAReserved is false (%s)", n.String(), w, c19BlockOf(w), how), "", nil, nil)
		}
	}
	if inter {
		for p := ones - 1; p >= 0; p-- {
			sup := netOf(n.IP, p)
			c.R.Count("relation_checks", 1)
			if !netInter(sup) {
				key := "not-monotone"
				if len(n.IP) == net.IPv6len && n.IP.To4() != nil && p < 96 {
					// the network is written in IPv4-mapped form and this super-net is a genuine IPv6 network that
					// covers (part of) the IPv4-mapped block ::ffff:0:0/96
					key = "not-monotone|ipv6-supernet-of-ipv4-mapped-network"
				}
				c.V(key, fmt.Sprintf("%s intersects reserved space but its super-net %s does not (%s)", n.String(), sup.String(), how), "", nil, nil)
				break
			}
		}
	}
	if ones == bits {
		c.R.Count("relation_checks", 1)
		if inter != isRes(n.IP) {
			c.V("single-address-network", fmt.Sprintf("single-address network %s: intersects=%v but the address test says %v (%s)", n.String(), inter, isRes(n.IP), how), "", nil, nil)
		}
	}
}

func c19BlockOf(ip net.IP) string {
	for _, b := range c19Blocks {
		_, n, _ := net.ParseCIDR(b.cidr)
		if n.Contains(ip) {
			return b.name
		}
	}
	return "table-or-shortcut"
}

func c19Once(c *mon.Ctx) {
	// (a) reference blocks: first, last, interior addresses are reserved; both byte forms agree
	rng := c.Rng(-19, 0)
	for _, b := range c19Blocks {
		_, n, err := net.ParseCIDR(b.cidr)
		if err != nil {
			panic(err)
		}
		addrs := []net.IP{n.IP, lastAddr(n)}
		for k := 0; k < c.Pick(40, 2000); k++ {
			addrs = append(addrs, randIn(rng, n))
		}
		for _, a := range addrs {
			c.R.Count("evaluations", 1)
			c.R.Count("address_checks", 1)
			if !isRes(a) {
				c.V("block-address-not-reserved|"+b.name, fmt.Sprintf("%s is in %s (%s) but is not classified reserved", a, b.cidr, b.name), "", nil, nil)
			}
			if v4 := a.To4(); v4 != nil {
				if isRes(v4) != isRes(v4.To16()) {
					c.V("byte-form-disagrees|"+b.name, fmt.Sprintf("%s: 4-byte and IPv4-mapped 16-byte forms are classified differently", a), "", nil, nil)
				}
			}
		}
		c.R.Distinct("blocks", b.name)
		c.R.Sample(8, map[string]any{"block": b.cidr, "first": n.IP.String(), "last": lastAddr(n).String(), "first_reserved": isRes(n.IP), "block_intersects": netInter(*n)})
		// every prefix length: super-nets of the block, the block, sub-nets at both ends
		ones, bits := n.Mask.Size()
		for p := 0; p <= bits; p++ {
			for _, at := range []net.IP{n.IP, lastAddr(n)} {
				nn := netOf(normIP(at), p)
				if p > ones && !n.Contains(nn.IP) {
					continue
				}
				c19Relations(c, nn, []net.IP{n.IP, lastAddr(n), nn.IP, lastAddr(&nn)}, "prefix sweep over "+b.name)
				if bits == 32 {
					// the same network written with 16-byte address and mask
					m16 := net.CIDRMask(96+p, 128)
					n16 := net.IPNet{IP: nn.IP.To16(), Mask: m16}
					if netInter(n16) != netInter(nn) {
						c.V("network-byte-form-disagrees", fmt.Sprintf("network %s: 4-byte and 16-byte forms give different answers", nn.String()), "", nil, nil)
					}
				}
			}
		}
	}
	for _, s := range c19Public {
		ip := net.ParseIP(s)
		c.R.Count("evaluations", 1)
		c.R.Count("address_checks", 1)
		if isRes(ip) || isRes(normIP(ip)) {
			c.V("public-address-reserved|"+s, s+" is a public address but is classified reserved", "", nil, nil)
		}
		c19Relations(c, netOf(normIP(ip), 8*len(normIP(ip))), []net.IP{ip}, "public host network")
	}
	// special-registry networks (harness-side list): their own prefix sweeps and interior witnesses
	tbl := c19Table()
	c.R.Note("witness_networks", len(tbl))
	for i := range tbl {
		n := tbl[i]
		ones, bits := n.Mask.Size()
		for p := 0; p <= ones; p++ {
			nn := netOf(normIP(n.IP), p)
			_ = bits
			c19Relations(c, nn, []net.IP{n.IP, lastAddr(&n)}, "super-nets of special-registry block "+n.String())
		}
		// single-address networks at the first, last and seeded interior addresses of every table entry:
		// the network answer and the address answer must be the same (and 4-byte / 16-byte forms agree)
		pts := []net.IP{normIP(n.IP), normIP(lastAddr(&n))}
		for k := 0; k < c.Pick(60, 2000); k++ {
			pts = append(pts, normIP(randIn(rng, &n)))
		}
		for _, a := range pts {
			c19Relations(c, netOf(a, 8*len(a)), []net.IP{a}, "single-address network inside special-registry block "+n.String())
			if len(a) == 4 { // the same host network written as ::ffff:a.b.c.d/128
				m := net.IPNet{IP: a.To16(), Mask: net.CIDRMask(128, 128)}
				c19Relations(c, m, []net.IP{a.To16()}, "IPv4-mapped single-address network inside special-registry block "+n.String())
			}
			c.R.Count("address_checks", 1)
			if len(a) == 4 && isRes(a) != isRes(a.To16()) {
				c.V("byte-form-disagrees|table", fmt.Sprintf("%s: 4-byte and IPv4-mapped forms are classified differently", a), "", nil, nil)
			}
		}
	}
}

// arpaSpelling re-spells a reverse-DNS name: 0 as it is, 1 zone suffix in upper case, 2 mixed-case suffix, 3 all upper
// case, 4 upper-case labels in front of a lower-case suffix, 5 only the last label (ARPA) upper.
func arpaSpelling(name string, k int) string {
	i := strings.Index(name, ".in-addr.arpa")
	if i < 0 {
		i = strings.Index(name, ".ip6.arpa")
	}
	if i < 0 {
		return name
	}
	head, zone := name[:i], name[i:]
	switch k {
	case 1:
		return head + strings.ToUpper(zone)
	case 2:
		return head + strings.NewReplacer("in-addr", "In-Addr", "ip6", "Ip6", "arpa", "Arpa").Replace(zone)
	case 3:
		return strings.ToUpper(name)
	case 4:
		return strings.ToUpper(head) + zone
	case 5:
		return head + strings.Replace(zone, "arpa", "ARPA", 1)
	}
	return name
}

func arpaName(ip net.IP) string {
	if v4 := ip.To4(); v4 != nil {
		return fmt.Sprintf("%d.%d.%d.%d.in-addr.arpa", v4[3], v4[2], v4[1], v4[0])
	}
	var l []string
	for i := 15; i >= 0; i-- {
		l = append(l, fmt.Sprintf("%x", ip[i]&0xf), fmt.Sprintf("%x", ip[i]>>4))
	}
	return strings.Join(l, ".") + ".ip6.arpa"
}

func c19RandAddr(rng *rand.Rand) net.IP {
	switch rng.Intn(6) {
	case 0: // inside a reference block
		_, n, _ := net.ParseCIDR(c19Blocks[rng.Intn(len(c19Blocks))].cidr)
		return normIP(randIn(rng, n))
	case 1: // block edge +-1
		_, n, _ := net.ParseCIDR(c19Blocks[rng.Intn(len(c19Blocks))].cidr)
		ip := normIP(append(net.IP{}, n.IP...))
		if rng.Intn(2) == 0 {
			ip = normIP(lastAddr(n))
			for i := len(ip) - 1; i >= 0; i-- {
				ip[i]++
				if ip[i] != 0 {
					break
				}
			}
		} else {
			for i := len(ip) - 1; i >= 0; i-- {
				ip[i]--
				if ip[i] != 0xff {
					break
				}
			}
		}
		return ip
	case 2:
		return normIP(net.ParseIP(c19Public[rng.Intn(len(c19Public))]))
	case 3:
		ip := make(net.IP, 16)
		rng.Read(ip)
		if rng.Intn(2) == 0 {
			ip[0], ip[1] = 0x20, 0x01
		}
		return ip
	default:
		ip := make(net.IP, 4)
		rng.Read(ip)
		return ip
	}
}

func init() {
	mon.Register(&mon.Check{
		ID:          "C19",
		Rule:        "(a) every reference block of the property text: first, last and seeded interior addresses must be reserved, public addresses must not, 4-byte and IPv4-mapped forms must agree; (b) relations on the implementation for every prefix length of every super-/sub-net of every block and of every IANA special-registry network (harness-side list; exhaustive sweep) and for seeded random networks: contains-a-reserved-address => intersects; intersects => every super-net intersects; /32 and /128 networks == address test; 4-byte vs 16-byte network forms agree; (c) generated certificates with chosen iPAddress SANs, IP common names, reverse-DNS names and permitted name-constraint subtrees: the four lints must report exactly what the address / network tests say. evaluations = address, relation and lint judgements; distinct_nontrivial = distinct networks + addresses judged.",
		Assumptions: []string{"the reference block list is the one spelled out in the property; other table entries (IANA special registries) are exercised through the relations only"},
		Setup: func(c *mon.Ctx) error {
			c19Ctx = c
			return setupCommon(c)
		},
		Once:  c19Once,
		Cases: func(c *mon.Ctx) int { return c.Pick(150000, 3000000) },
		RunCase: func(c *mon.Ctx, i int) {
			disturb(c, i)
			rng := c.Rng(i, 0)
			g := lint.GlobalRegistry()
			if i%10 != 0 {
				// random network relations
				a := c19RandAddr(rng)
				p := rng.Intn(8*len(a) + 1)
				n := netOf(a, p)
				ws := []net.IP{n.IP, lastAddr(&n), a}
				for k := 0; k < 6; k++ {
					ws = append(ws, randIn(rng, &n))
				}
				for _, b := range c19Blocks { // block bases/ends that happen to fall inside
					_, bn, _ := net.ParseCIDR(b.cidr)
					ws = append(ws, normIP(bn.IP), normIP(lastAddr(bn)))
				}
				c19Relations(c, n, ws, "seeded random network")
				c.R.Distinct("nets", n.String())
				return
			}
			// (c) certificates
			nb := gen.D(2024, 3, 1)
			switch (i / 10) % 4 {
			case 0: // SAN iPAddress
				var ips []net.IP
				var gns []*der.Node
				gns = append(gns, gen.GNDNS("www.example.com"))
				for k := 0; k < 1+rng.Intn(3); k++ {
					ip := c19RandAddr(rng)
					if len(ip) == 4 && rng.Intn(4) == 0 {
						ip = ip.To16() // mapped 16-byte form inside the certificate
					}
					ips = append(ips, ip)
					gns = append(gns, gen.GNIP(ip))
					if rng.Intn(3) == 0 {
						// a byte-level RELATIVE of the entry next to it (before or after): the 4 octets zero-padded to 16
						// (a.b.c.d -> aabb:ccdd::), the first 4 octets of a 16-octet entry, the IPv4-mapped form, an exact
						// repeat - each entry is still judged for itself
						var rel net.IP
						switch rng.Intn(4) {
						case 0:
							rel = make(net.IP, 16)
							copy(rel, ip)
							if len(ip) == 16 {
								rel = append(net.IP{}, ip[:4]...)
							}
						case 1:
							if v4 := ip.To4(); v4 != nil {
								rel = append(net.IP{}, v4.To16()...)
								if len(ip) == 16 {
									rel = append(net.IP{}, v4...)
								}
							}
						case 2:
							rel = append(net.IP{}, ip...)
						default:
							rel = make(net.IP, 16)
							copy(rel[12:], ip[len(ip)-4:])
						}
						if rel != nil {
							if rng.Intn(2) == 0 {
								ips = append(ips, rel)
								gns = append(gns, gen.GNIP(rel))
							} else {
								ips = append([]net.IP{rel}, ips...)
								gns = append([]*der.Node{gns[0], gen.GNIP(rel)}, gns[1:]...)
							}
							c.R.Count("san_ip_relatives", 1)
						}
					}
				}
				if len(ips) > 0 && rng.Intn(3) == 0 {
					// the SAME address once more - byte for byte, or in its other form (4-byte <-> IPv4-mapped): an
					// address does not become reserved, or public, by being listed twice
					d := append(net.IP{}, ips[rng.Intn(len(ips))]...)
					if v4 := d.To4(); v4 != nil && rng.Intn(2) == 0 {
						if len(d) == 4 {
							d = append(append(make(net.IP, 10), 0xff, 0xff), v4...)
						} else {
							d = append(net.IP{}, v4...)
						}
					}
					ips = append(ips, d)
					gns = append(gns, gen.GNIP(d))
					c.R.Count("san_ip_repeated_entries", 1)
				}
				spec := gen.TLSLeaf(nb, "www.example.com")
				for k, e := range spec.Exts {
					if der.ExtOID(e) == gen.OIDExtSAN {
						spec.Exts[k] = gen.ExtSAN(false, gns...)
					}
				}
				want := lint.Pass
				for _, ip := range ips {
					if isRes(ip) {
						want = lint.Error
					}
				}
				c19Lint(c, g, spec.DER(), "e_ext_san_contains_reserved_ip", want, fmt.Sprintf("SAN iPAddresses %v", ips))
			case 1: // IP common name
				ip := c19RandAddr(rng)
				spec := gen.TLSLeaf(nb, "www.example.com")
				spec.Subject = gen.Name(gen.A(gen.OIDC, "US"), gen.A(gen.OIDO, "Example Org"), gen.A(gen.OIDCN, ip.String()))
				want := lint.Pass
				if isRes(ip) {
					want = lint.Error
				}
				c19Lint(c, g, spec.DER(), "e_subject_contains_reserved_ip", want, "common name "+ip.String())
				// the same address in every textual form the standard parser reads (expanded groups, upper case, an
				// embedded dotted quad - up to 45 characters -, IPv4-mapped spellings): one address, one verdict
				forms := c19TextForms(ip)
				for k := 0; k < 2 && len(forms) > 0; k++ {
					f := forms[rng.Intn(len(forms))]
					if p := net.ParseIP(f); p == nil || !p.Equal(ip) {
						continue
					}
					sf := gen.TLSLeaf(nb, "www.example.com")
					sf.Subject = gen.Name(gen.A(gen.OIDC, "US"), gen.A(gen.OIDO, "Example Org"), gen.A(gen.OIDCN, f))
					c19Lint(c, g, sf.DER(), "e_subject_contains_reserved_ip", want, fmt.Sprintf("common name %q (a textual form of %s)", f, ip))
					c.R.Count("common_name_text_forms", 1)
				}
				if rng.Intn(3) == 0 {
					// several commonName attributes. Which of them "the" common name is, the property does not say; it is
					// judged only where every reading agrees: the LAST one (the one the parser exposes) reserved => a
					// reserved IP common name is present, error; every one public => pass
					cns := []net.IP{c19RandAddr(rng), ip}
					if rng.Intn(2) == 0 {
						cns = append([]net.IP{c19RandAddr(rng)}, cns...)
					}
					attrs := []gen.ATV{gen.A(gen.OIDC, "US"), gen.A(gen.OIDO, "Example Org")}
					anyRes, lastRes := false, isRes(cns[len(cns)-1])
					var shown []string
					for k, a := range cns {
						if k == 0 && rng.Intn(4) == 0 {
							attrs = append(attrs, gen.A(gen.OIDCN, "www.example.com"))
							shown = append(shown, "www.example.com")
						}
						attrs = append(attrs, gen.A(gen.OIDCN, a.String()))
						shown = append(shown, a.String())
						anyRes = anyRes || isRes(a)
					}
					spec2 := gen.TLSLeaf(nb, "www.example.com")
					spec2.Subject = gen.Name(attrs...)
					switch {
					case lastRes:
						c19Lint(c, g, spec2.DER(), "e_subject_contains_reserved_ip", lint.Error, fmt.Sprintf("common names %v (last one reserved)", shown))
						c.R.Count("multi_cn_judged", 1)
					case !anyRes:
						c19Lint(c, g, spec2.DER(), "e_subject_contains_reserved_ip", lint.Pass, fmt.Sprintf("common names %v (all public)", shown))
						c.R.Count("multi_cn_judged", 1)
					default:
						c.R.Count("multi_cn_not_judged_readings_differ", 1)
					}
				}
			case 2: // permitted name-constraint subtree
				a := c19RandAddr(rng)
				p := rng.Intn(8*len(a) + 1)
				n := netOf(a, p)
				spec := gen.SubCA(nb)
				switch rng.Intn(4) {
				case 0: // a cross-purpose CA: no extended key usage, policies of two CA/B Forum documents in either order
					spec.RemoveExt(gen.OIDExtEKU)
					pols := [][]string{{"2.23.140.1.5.1.1", gen.OIDPolOV}, {gen.OIDPolOV, "2.23.140.1.5.1.1"}, {gen.OIDPolCS, gen.OIDPolEV}, {gen.OIDPolDV, gen.OIDPolEVCS}}[rng.Intn(4)]
					spec.ReplaceExt(gen.ExtPolicies(pols...))
					c.R.Count("nc_certs_on_cross_purpose_cas", 1)
				case 1: // anyExtendedKeyUsage and the TLS policy behind a foreign one
					spec.ReplaceExt(gen.ExtEKU(false, gen.OIDEkuAny))
					spec.ReplaceExt(gen.ExtPolicies("1.3.6.1.4.1.55555.1.1", "2.23.140.1.5.3.2", gen.OIDPolOV))
				}
				payload := append(append([]byte{}, n.IP...), n.Mask...)
				permitted := []*der.Node{gen.Subtree(gen.GNIP(payload))}
				var excluded []*der.Node
				want := lint.Pass
				if netInter(n) {
					want = lint.Error
				}
				shape := "one permitted subtree"
				if rng.Intn(3) == 0 {
					// several permitted subtrees (any one intersecting is a finding), next to excluded subtrees that do
					// not take the permitted range away: strictly narrower sub-networks (same or other base address),
					// disjoint networks, the other address family, DNS subtrees. A permitted range that still contains
					// reserved addresses still intersects reserved space.
					shape = "permitted + excluded subtrees"
					for k := rng.Intn(3); k > 0; k-- {
						b := c19RandAddr(rng)
						m := netOf(b, rng.Intn(8*len(b)+1))
						permitted = append(permitted, gen.Subtree(gen.GNIP(append(append([]byte{}, m.IP...), m.Mask...))))
						if netInter(m) {
							want = lint.Error
						}
					}
					if rng.Intn(2) == 0 {
						permitted = append([]*der.Node{gen.Subtree(gen.GNDNS("example.com"))}, permitted...)
					}
					for k := 1 + rng.Intn(3); k > 0; k-- {
						switch rng.Intn(4) {
						case 0, 1: // strictly narrower than the first permitted network
							if p < 8*len(a) {
								q := p + 1 + rng.Intn(8*len(a)-p)
								base := n.IP
								if rng.Intn(2) == 0 {
									base = randIn(rng, &n)
								}
								x := netOf(base, q)
								excluded = append(excluded, gen.Subtree(gen.GNIP(append(append([]byte{}, x.IP...), x.Mask...))))
							}
						case 2: // the other family
							if len(a) == 4 {
								excluded = append(excluded, gen.Subtree(gen.GNIP(make([]byte, 32))))
							} else {
								excluded = append(excluded, gen.Subtree(gen.GNIP(make([]byte, 8))))
							}
						default:
							excluded = append(excluded, gen.Subtree(gen.GNDNS("internal.example")))
						}
					}
					c.R.Count("nc_certs_with_excluded_subtrees", 1)
				}
				spec.Exts = append(spec.Exts, gen.ExtNC(true, permitted, excluded))
				// and against the address test through witnesses
				c19Relations(c, n, []net.IP{n.IP, lastAddr(&n), randIn(rng, &n), randIn(rng, &n)}, "name-constraint network")
				c19Lint(c, g, spec.DER(), "e_ext_nc_intersects_reserved_ip", want, shape+", first permitted "+n.String())
			default: // reverse-DNS name
				ip := c19RandAddr(rng)
				// DNS names compare case-insensitively: the zone suffix and the hexadecimal nibbles in any spelling
				name := arpaSpelling(arpaName(ip), rng.Intn(6))
				c.R.Distinct("arpa_spellings", fmt.Sprint(strings.ToLower(name) != name, strings.HasSuffix(name, ".arpa")))
				spec := gen.TLSLeaf(nb, "www.example.com", name)
				want := lint.Pass
				if isRes(ip) {
					want = lint.Error
				}
				c19Lint(c, g, spec.DER(), "e_subject_contains_reserved_arpa_ip", want, "dNSName "+name)
				if rng.Intn(2) == 0 {
					// several reverse names of both zones in one SAN, in seeded order: each name is judged for itself
					ips := []net.IP{ip}
					for k := 1 + rng.Intn(2); k > 0; k-- {
						ips = append(ips, c19RandAddr(rng))
					}
					rng.Shuffle(len(ips), func(a, b int) { ips[a], ips[b] = ips[b], ips[a] })
					names := []string{"www.example.com"}
					wantM := lint.Pass
					for _, x := range ips {
						names = append(names, arpaSpelling(arpaName(x), rng.Intn(6)))
						if isRes(x) {
							wantM = lint.Error
						}
					}
					specM := gen.TLSLeaf(nb, names...)
					c19Lint(c, g, specM.DER(), "e_subject_contains_reserved_arpa_ip", wantM, fmt.Sprintf("dNSNames %v", names[1:]))
					c.R.Count("multi_arpa_certs", 1)
				}
			}
		},
		Finish: func(c *mon.Ctx, r *mon.Report, ev *mon.Evidence) []string {
			var gates []string
			ev.Coverage["distinct_nontrivial"] = r.SetSize("nets") + r.SetSize("lint_inputs")
			ev.Coverage["relation_checks"] = r.Counters["relation_checks"]
			ev.Coverage["unrelated_objects_linted_before_and_between_cases"] = r.Counters["disturbance_objects_linted"]
			ev.Coverage["address_checks"] = r.Counters["address_checks"]
			ev.Coverage["blocks"] = r.SetKeys("blocks")
			ev.Coverage["lint_outcomes"] = r.Sets["lint_outcomes"]
			ev.Coverage["named_lints_not_registered_or_outside_their_window"] = r.SetKeys("named_lints_that_cannot_judge")
			for _, l := range []string{"e_ext_san_contains_reserved_ip", "e_subject_contains_reserved_ip", "e_ext_nc_intersects_reserved_ip", "e_subject_contains_reserved_arpa_ip"} {
				for _, s := range []string{"pass", "error"} {
					if r.Sets["lint_outcomes"][l+"="+s] == 0 && r.Sets["named_lints_that_cannot_judge"][l] == 0 {
						gates = append(gates, "never judged: "+l+"="+s)
					}
				}
			}
			if r.SetSize("blocks") != len(c19Blocks) {
				gates = append(gates, "not every reference block was swept")
			}
			return gates
		},
	})
}

func c19Lint(c *mon.Ctx, g lint.Registry, derBytes []byte, name string, want lint.LintStatus, what string) {
	o, _ := mon.ParseObj(corpus.Cert, "gen/ip", derBytes)
	if o == nil {
		c.R.Count("cert_rejected", 1)
		return
	}
	rs, pv, _ := o.Lint(g)
	c.R.Count("evaluations", 1)
	if pv != nil || rs == nil {
		return
	}
	r := rs.Results[name]
	if r == nil {
		// the tree under test does not register this lint (any more): nothing to judge, listed in the evidence
		c.R.Distinct("named_lints_that_cannot_judge", name)
		return
	}
	if r.Status == lint.NE && !mon.InWindow(InvBy[name].Meta, o.Date()) {
		// the generated certificates are dated outside the window the lint carries today
		c.R.Distinct("named_lints_that_cannot_judge", name)
		return
	}
	if r.Status == lint.NA {
		// "the lints report accordingly": NA is an answer only when the lint did not run - out of its document's scope
		// (decided from the parsed EKUs / policies / SAN, as in C04) or rejected by its own applicability test
		if li, ok := InvBy[name]; ok {
			if f := factsFromParsed(o.Cert); f.inScope(li.Meta.Source) {
				if d := mon.RunDirect(li, o, lint.NewEmptyConfig()); d.Panic == nil && d.CfgErr == nil && d.Applies && d.InWindow {
					c.V(fmt.Sprintf("lint|%s|not-judged", name), fmt.Sprintf("%s = NA although the certificate is in the scope of %s and the lint's own applicability test accepts it; the address/network test says %s (%s)", name, li.Meta.Source, want, what), name, inputs(o), nil)
					return
				}
			}
		}
	}
	if r.Status == lint.NA || r.Status == lint.NE {
		c.R.Count("lint_not_applicable", 1)
		c.R.Distinct("lint_not_applicable_names", name)
		return
	}
	c.R.Distinct("lint_outcomes", name+"="+r.Status.String())
	c.R.Distinct("lint_inputs", what)
	if r.Status != want {
		c.V(fmt.Sprintf("lint|%s|want-%s", name, want), fmt.Sprintf("%s = %s, the address/network test says %s (%s)", name, r.Status, want, what), name, inputs(o), nil)
	}
	// the SAME parsed object once more (a caller that lints twice, or with two registries): the addresses it carries
	// are still the addresses that were encoded, so the verdict is still the classification's
	if rs2, pv2, _ := o.Lint(g); pv2 == nil && rs2 != nil && rs2.Results[name] != nil {
		c.R.Count("evaluations", 1)
		c.R.Count("second_runs_on_the_same_object", 1)
		if st := rs2.Results[name].Status; st != want && st != lint.NA && st != lint.NE {
			c.V(fmt.Sprintf("lint|%s|want-%s|second-run", name, want), fmt.Sprintf("%s = %s when the same parsed certificate is linted a second time, the address/network test says %s (%s)", name, st, want, what), name, inputs(o), nil)
		}
	}
	if c.R.Counters["evaluations"]%5003 == 0 {
		c.R.Sample(6, map[string]any{"lint": name, "input": what, "status": r.Status.String()})
	}
}

// c19TextForms: spellings of one address that net.ParseIP reads.
func c19TextForms(ip net.IP) []string {
	var out []string
	b16 := ip.To16()
	if b16 == nil {
		return nil
	}
	groups := func(upper, pad bool, quad bool) string {
		var parts []string
		n := 8
		if quad {
			n = 6
		}
		for i := 0; i < n; i++ {
			v := int(b16[2*i])<<8 | int(b16[2*i+1])
			f := "%x"
			if pad {
				f = "%04x"
			}
			if upper {
				f = strings.ToUpper(f[:len(f)-1]) + "X"
				if pad {
					f = "%04X"
				} else {
					f = "%X"
				}
			}
			parts = append(parts, fmt.Sprintf(f, v))
		}
		s := strings.Join(parts, ":")
		if quad {
			s += fmt.Sprintf(":%d.%d.%d.%d", b16[12], b16[13], b16[14], b16[15])
		}
		return s
	}
	out = append(out, groups(false, true, false), groups(true, true, false), groups(false, false, false), groups(false, true, true), groups(true, true, true), groups(false, false, true))
	if v4 := ip.To4(); v4 != nil {
		q := fmt.Sprintf("%d.%d.%d.%d", v4[0], v4[1], v4[2], v4[3])
		out = append(out, "::ffff:"+q, "::FFFF:"+q, "0:0:0:0:0:ffff:"+q, fmt.Sprintf("::ffff:%02x%02x:%02x%02x", v4[0], v4[1], v4[2], v4[3]))
	}
	return out
}
