package checks

import (
	"bytes"
	"net"
	"fmt"
	"math/rand"
	"sort"
	"strings"
	"sync"
	"time"

	"github.com/zmap/zlint/v3/lint"
	"github.com/zmap/zlint/v3/util"

	"verif/corpus"
	"verif/der"
	"verif/gen"
	"verif/mon"
)

// C20 - duplicated rules never contradict each other.

type pairRel int

const (
	relEqual   pairRel = iota // same status
	relFinding                // finding <=> finding (severities differ on purpose)
	relImplies                // error of A => finding (warn or worse) of B
)

type lintPair struct {
	a, b  string
	rel   pairRel
	group string // which precondition makes "same content" true
	min   int64  // minimum both-judged observations (quick)
}

var c20Pairs = []lintPair{
	{"e_rfc_dnsname_empty_label", "e_dnsname_empty_label", relEqual, "dns", 100},
	{"e_rfc_dnsname_hyphen_in_sld", "e_dnsname_hyphen_in_sld", relEqual, "dns", 100},
	{"e_rfc_dnsname_label_too_long", "e_dnsname_label_too_long", relEqual, "dns", 100},
	{"e_rfc_dnsname_underscore_in_sld", "e_dnsname_underscore_in_sld", relEqual, "dns", 100},
	{"w_rfc_dnsname_underscore_in_trd", "w_dnsname_underscore_in_trd", relEqual, "dns", 100},
	{"e_prohibit_dsa_usage", "e_br_prohibit_dsa_usage", relEqual, "any", 20},
	{"w_sub_cert_aia_contains_internal_names", "w_smime_aia_contains_internal_names", relEqual, "any", 50},
	{"e_ext_san_dns_not_ia5_string", "e_ext_ian_dns_not_ia5_string", relEqual, "sanian", 100},
	{"e_ext_san_empty_name", "e_ext_ian_empty_name", relEqual, "sanian", 100},
	{"e_ext_san_no_entries", "e_ext_ian_no_entries", relEqual, "sanian", 100},
	{"e_ext_san_rfc822_format_invalid", "e_ext_ian_rfc822_format_invalid", relEqual, "sanian", 100},
	{"e_ext_san_space_dns_name", "e_ext_ian_space_dns_name", relEqual, "sanian", 100},
	{"e_ext_san_uri_format_invalid", "e_ext_ian_uri_format_invalid", relEqual, "sanian", 100},
	{"e_ext_san_uri_host_not_fqdn_or_ip", "e_ext_ian_uri_host_not_fqdn_or_ip", relEqual, "sanian", 100},
	{"e_ext_san_uri_not_ia5", "e_ext_ian_uri_not_ia5", relEqual, "sanian", 100},
	{"e_ext_san_uri_relative", "e_ext_ian_uri_relative", relEqual, "sanian", 100},
	{"w_subject_dn_leading_whitespace", "w_issuer_dn_leading_whitespace", relEqual, "dn", 100},
	{"w_subject_dn_trailing_whitespace", "w_issuer_dn_trailing_whitespace", relEqual, "dn", 100},
	{"e_subject_dn_country_not_printable_string", "e_issuer_dn_country_not_printable_string", relEqual, "dn", 100},
	{"n_multiple_subject_rdn", "w_multiple_issuer_rdn", relFinding, "dn", 100},
	{"e_tls_server_cert_valid_time_longer_than_398_days", "w_tls_server_cert_valid_time_longer_than_397_days", relImplies, "any", 30},
	{"e_subject_given_name_max_length", "w_subject_given_name_recommended_max_length", relImplies, "any", 10},
	{"e_subject_surname_max_length", "w_subject_surname_recommended_max_length", relImplies, "any", 10},
}

// c20Ran: did the framework run this lint's rule body on o? (in the scope of its source, applicable, inside the window)
func c20Ran(o *mon.Obj, name string) bool {
	li, ok := InvBy[name]
	if !ok || o.Cert == nil {
		return false
	}
	if f := factsFromParsed(o.Cert); !f.inScope(li.Meta.Source) {
		return false
	}
	d := mon.RunDirect(li, o, lint.NewEmptyConfig())
	return d.Panic == nil && d.CfgErr == nil && d.Applies && d.InWindow
}

func subjectCN(s *gen.Spec) string {
	defer func() { _ = recover() }()
	for _, rdn := range s.Subject.Children {
		for _, atv := range rdn.Children {
			if len(atv.Children) == 2 && atv.Children[0].OIDString() == gen.OIDCN {
				return string(atv.Children[1].Content)
			}
		}
	}
	return ""
}

func isFinding(st lint.LintStatus) bool {
	return st == lint.Notice || st == lint.Warn || st == lint.Error
}

// c20Judge evaluates every pair whose precondition group holds for this certificate.
func c20Judge(c *mon.Ctx, o *mon.Obj, groups map[string]bool, how string) {
	rs, pv, _ := o.Lint(lint.GlobalRegistry())
	c.R.Count("evaluations", 1)
	if pv != nil || rs == nil {
		return
	}
	for _, p := range c20Pairs {
		if p.group != "any" && !groups[p.group] {
			continue
		}
		ra, rb := rs.Results[p.a], rs.Results[p.b]
		if ra == nil || rb == nil {
			c.R.Distinct("pairs_vacated", p.a+"/"+p.b)
			continue
		}
		judged := func(s lint.LintStatus) bool { return s != lint.NA && s != lint.NE }
		key := p.a + "/" + p.b
		if !judged(ra.Status) || !judged(rb.Status) {
			// One member answers "not applicable" where the other judges. That is no contradiction when the first did
			// not RUN (out of its document's scope, rejected by its own applicability test, outside its window). But
			// when both rule bodies ran on the same content and only one of them backs out with NA, the twins did not
			// "reach the same conclusion": decided with the reference life-cycle (scope from the parsed fields, a
			// fresh instance's CheckApplies, the registered window), for the same-status pairs only.
			if p.rel != relEqual || ra.Status == lint.NE || rb.Status == lint.NE || ra.Status == rb.Status {
				continue
			}
			if p.group == "dns" && groups["cn-variant"] {
				// with a common name present the BR copies have one more name to look at, and answer NA when THAT name
				// cannot be split into labels: not the same content, only verdict against verdict is compared here
				continue
			}
			if c20Ran(o, p.a) && c20Ran(o, p.b) {
				c.R.Count("both_ran_one_na:"+key, 1)
				c.V("contradiction|"+key, fmt.Sprintf("%s = %s but %s = %s although both rule bodies ran on the same content (%s)", p.a, ra.Status, p.b, rb.Status, how), p.a, inputs(o), map[string]any{"how": how})
			}
			continue
		}
		c.R.Count("both_judged:"+key, 1)
		c.R.Distinct("pair_outcomes:"+key, ra.Status.String()+"/"+rb.Status.String())
		bad := false
		switch p.rel {
		case relEqual:
			bad = ra.Status != rb.Status
		case relFinding:
			bad = isFinding(ra.Status) != isFinding(rb.Status) || (ra.Status == lint.Fatal) != (rb.Status == lint.Fatal)
		case relImplies:
			bad = ra.Status == lint.Error && !isFinding(rb.Status)
		}
		if bad {
			c.V("contradiction|"+key, fmt.Sprintf("%s = %s but %s = %s on the same content (%s)", p.a, ra.Status, p.b, rb.Status, how), p.a, inputs(o), map[string]any{"how": how})
		}
	}
	c.CountDistinct(o.DER)
}

// sanToIAN copies the SAN payload into an IAN extension (replacing any).
func sanToIAN(dc *der.Cert) bool {
	e := dc.FindExt(gen.OIDExtSAN)
	if e == nil {
		return false
	}
	v := der.ExtValue(e)
	if v == nil {
		return false
	}
	dc.RemoveExt(gen.OIDExtIAN)
	ian := der.Seq(der.OID(gen.OIDExtIAN), v.Clone())
	l := dc.EnsureExtList()
	l.Children = append(l.Children, ian)
	return true
}

var c20DNValues = []string{"Example Org", " Leading", "Trailing ", " both ", "\tTab", "x\n", "", "  ", "Ünïcode ", "a", "US", "us", "DE "}

func c20RandName(rng *rand.Rand) *der.Node {
	var rdns [][]gen.ATV
	oids := []string{gen.OIDC, gen.OIDO, gen.OIDOU, gen.OIDCN, gen.OIDL, gen.OIDST, gen.OIDGiven, gen.OIDSurname, gen.OIDSerial}
	n := 1 + rng.Intn(5)
	for i := 0; i < n; i++ {
		oid := oids[rng.Intn(len(oids))]
		val := c20DNValues[rng.Intn(len(c20DNValues))]
		tag := []int{der.TagUTF8, der.TagPrintable, der.TagIA5, der.TagT61, der.TagBMP}[rng.Intn(5)]
		if oid == gen.OIDC && rng.Intn(2) == 0 {
			tag = der.TagPrintable
			val = []string{"US", "DE", "us", "XX", "U"}[rng.Intn(5)]
		}
		b := []byte(val)
		if tag == der.TagBMP {
			var bb []byte
			for _, r := range val {
				bb = append(bb, byte(r>>8), byte(r))
			}
			b = bb
		}
		rdn := []gen.ATV{gen.AT(oid, tag, b)}
		if rng.Intn(6) == 0 {
			// next to the ordinary value, a second value of the same attribute whose tag has a string type's NUMBER
			// in another class ([19], [APPLICATION 12] ...): the parser does not decode it, lints that look at the
			// raw name see it - on the subject side and on the issuer side alike
			rdns = append(rdns, rdn)
			rdn = []gen.ATV{gen.ATC(oid, 1+rng.Intn(3), []int{der.TagPrintable, der.TagUTF8, der.TagIA5, der.TagT61}[rng.Intn(4)], []byte(val))}
		}
		if rng.Intn(5) == 0 { // multi-valued RDN
			rdn = append(rdn, gen.AT(oids[rng.Intn(len(oids))], der.TagUTF8, []byte(c20DNValues[rng.Intn(len(c20DNValues))])))
		}
		rdns = append(rdns, rdn)
	}
	// empty RDNs (a SET without attributes, `31 00`: the parser keeps them) in front, between and behind the others
	for k := rng.Intn(4) - 1; k > 0; k-- {
		at := rng.Intn(len(rdns) + 1)
		rdns = append(rdns[:at], append([][]gen.ATV{{}}, rdns[at:]...)...)
	}
	return gen.NameRDNs(rdns...)
}

var (
	c20RemovedOnce sync.Once
	c20Removed     []string
)

// c20RemovedTLDs: table entries with a removal date, most recently removed first (at most 60)
func c20RemovedTLDs() []string {
	c20RemovedOnce.Do(func() {
		type e struct{ tld, when string }
		var es []e
		for k, p := range util.VerifTLDMap() {
			if p.RemovalDate != "" {
				es = append(es, e{k, p.RemovalDate})
			}
		}
		sort.Slice(es, func(i, j int) bool {
			if es[i].when != es[j].when {
				return es[i].when > es[j].when
			}
			return es[i].tld < es[j].tld
		})
		for i := 0; i < len(es) && i < 60; i++ {
			c20Removed = append(c20Removed, es[i].tld)
		}
	})
	return c20Removed
}

var c20AIAHosts = []string{"http://ocsp.example.com", "http://ca.example.com/ca.crt", "http://server.local/ocsp", "http://intranet/ca.crt", "http://10.1.2.3/ocsp", "http://[2001:db8::1]/x",
	"http://ocsp.example.invalidtldzz/", "ldap://ldap.example.com/cn=ca", "http://[::1", "http://%zz/", "https://ocsp.example.org:8080/a", "http://localhost/ocsp", "http://ocsp.example.com./", "", "ocsp.example.com", "http://user@corp/"}

func init() {
	var nSeeds int
	mon.Register(&mon.Check{
		ID:          "C20",
		Rule:        "evaluations = certificates linted; for each of the 23 lint pairs of the property (5 RFC/BR DNS-label pairs on certificates with an empty common name, Mozilla/BR DSA, BR/S-MIME AIA, 9 SAN/IAN pairs with the IAN payload equal to the SAN payload, 3 subject/issuer pairs with issuer DN bytes equal to subject DN bytes, multiple-RDN finding<=>finding, 398=>397 days, given-name / surname max=>recommended) the relation is evaluated whenever both members were judged (neither NA nor NE) in one result set. Each pair has a minimum both-judged count; below it the run fails its observation gate. distinct_nontrivial = certificates on which pairs were evaluated.",
		Assumptions: []string{"'same content' is established by construction (IAN := SAN bytes, issuer := subject bytes, empty common name); pairs are not compared otherwise"},
		Setup: func(c *mon.Ctx) error {
			if err := setupCommon(c); err != nil {
				return err
			}
			nSeeds = len(W.Objs)
			return nil
		},
		Cases: func(c *mon.Ctx) int { return nSeeds + c.Pick(30000, 400000) + len(pathShapes) },
		RunCase: func(c *mon.Ctx, i int) {
			if nG := nSeeds + c.Pick(30000, 400000); i >= nG {
				// the return-path family (key type x signature algorithm x date lattice, RSA forms, name shapes ...): the
				// pairs that need no "same content" construction (DSA prohibition, validity, name lengths, AIA) are judged
				if o, how := pathShapeCase(c, i-nG); o != nil && o.Kind == corpus.Cert {
					c20Judge(c, o, map[string]bool{}, "return-path family: "+how)
					c.R.Count("return_path_family_judged", 1)
				}
				return
			}
			rng := c.Rng(i, 0)
			if i < nSeeds {
				// corpus rewritten: SAN -> IAN, issuer := subject (one signature bit flipped: never self-signed)
				o := W.Objs[i]
				if o.Kind != corpus.Cert {
					return
				}
				dc, err := der.ParseCert(o.DER)
				if err != nil {
					return
				}
				g := map[string]bool{}
				if sanToIAN(dc) {
					g["sanian"] = true
				}
				dc.SetIssuer(dc.Subject().Clone())
				g["dn"] = true
				flipSig(dc)
				if o.Cert.Subject.CommonName == "" {
					g["dns"] = true
				}
				o2, _ := mon.ParseObj(corpus.Cert, o.Name+"#san->ian,issuer:=subject", dc.Encode())
				if o2 == nil {
					c.R.Count("rewrite_rejected", 1)
					return
				}
				if !bytes.Equal(o2.Cert.RawIssuer, o2.Cert.RawSubject) {
					delete(g, "dn")
				}
				c20Judge(c, o2, g, o2.Name)
				return
			}
			nb := gen.D(2024, 3, 1)
			var spec *gen.Spec
			groups := map[string]bool{}
			how := ""
			switch i % 8 {
			case 0, 1: // DNS pairs: empty common name, DNS-heavy SAN
				spec = gen.TLSLeaf(nb, "www.example.com")
				spec.Subject = gen.Name(gen.A(gen.OIDC, "US"), gen.A(gen.OIDO, "Example Org"))
				var gns []*der.Node
				var labels []string
				for k := 0; k < 1+rng.Intn(4); k++ {
					dp := gen.DNSPool()
					e := dp[rng.Intn(len(dp))]
					gns = append(gns, e.Node())
					labels = append(labels, e.Label)
				}
				if rng.Intn(2) == 0 && len(gns) > 0 {
					// the same names with a common name again: a CASE VARIANT of one of the dNSNames (for the label rules the
					// same content, but not an exact copy of a SAN value), more names and a few iPAddresses around them -
					// other lints that walk the names run between the twins and must leave the names alone
					dp := gen.DNSPool()
					for k := rng.Intn(5); k > 0; k-- {
						e := dp[rng.Intn(len(dp))]
						gns = append(gns, e.Node())
						labels = append(labels, e.Label)
					}
					cn := ""
					if first := gns[0]; len(first.Content) > 0 {
						cn = strings.ToUpper(string(first.Content))
						if cn == string(first.Content) {
							cn = strings.ToLower(cn)
						}
					}
					if rng.Intn(3) == 0 {
						// ... or an IP literal (the appliance shape: the address is also an iPAddress entry): the BR copies do
						// not take an IP common name for a DNS name, so the dNSNames are again all there is to judge
						ip := [][]byte{{192, 0, 2, 10}, {8, 8, 4, 4}, {0x20, 0x01, 0x0d, 0xb8, 0, 0, 0, 0, 0, 0, 0, 0, 0, 0, 0, 1}}[rng.Intn(3)]
						cn = net.IP(ip).String()
						gns = append(gns, gen.GNIP(ip))
					}
					for k := rng.Intn(3); k > 0; k-- {
						gns = append(gns, gen.GNIP([]byte{byte(8 + k), 8, 4, byte(rng.Intn(250) + 1)}))
					}
					if cn != "" && cn != string(gns[0].Content) {
						spec.Subject = gen.Name(gen.A(gen.OIDC, "US"), gen.A(gen.OIDO, "Example Org"), gen.A(gen.OIDCN, cn))
						groups["cn-variant"] = true
						c.R.Count("dns_pairs_under_a_case_variant_common_name", 1)
					}
				}
				spec.ReplaceExt(gen.ExtSAN(false, gns...))
				groups["dns"] = true
				how = fmt.Sprintf("CN %q, SAN %v", subjectCN(spec), labels)
			case 2, 3: // SAN == IAN payload
				spec = gen.TLSLeaf(nb, "www.example.com")
				k := rng.Intn(5)
				gns, labels := gen.RandGNs(rng, k)
				spec.ReplaceExt(gen.ExtSAN(false, gns...))
				var cp []*der.Node
				for _, g := range gns {
					cp = append(cp, g.Clone())
				}
				spec.Exts = append(spec.Exts, gen.ExtIAN(false, cp...))
				groups["sanian"] = true
				how = fmt.Sprintf("SAN = IAN = %v", labels)
			case 4: // subject == issuer DN
				spec = gen.TLSLeaf(nb, "www.example.com")
				n := c20RandName(rng)
				spec.Subject = n
				spec.Issuer = n.Clone()
				groups["dn"] = true
				how = "issuer DN := subject DN (adversarial values)"
			case 5: // AIA pair: in TLS and S/MIME scope at once (no EKU, e-mail SAN + DNS SAN)
				spec = gen.TLSLeaf(nb, "www.example.com")
				spec.RemoveExt(gen.OIDExtEKU)
				spec.ReplaceExt(gen.ExtSAN(false, gen.GNDNS("www.example.com"), gen.GNEmail("alice@example.com")))
				if rng.Intn(2) == 0 {
					spec.ReplaceExt(gen.ExtPolicies(gen.OIDPolOV, "2.23.140.1.5.1.1"))
				}
				var ads []*der.Node
				var used []string
				// every third certificate is issued at another date and names hosts under TLDs that have since been
				// REMOVED from the root zone (taken from the live table): both copies must judge such a host alike
				removed := c20RemovedTLDs()
				viaRemoved := rng.Intn(3) == 0 && len(removed) > 0
				if viaRemoved {
					d := []time.Time{gen.D(2023, 10, 1), gen.D(2024, 3, 1), gen.D(2025, 1, 1), gen.D(2022, 1, 1)}[rng.Intn(4)]
					spec.NotBefore, spec.NotAfter = d, d.Add(90*24*time.Hour-time.Second)
				}
				for k := 0; k < 1+rng.Intn(3); k++ {
					u := c20AIAHosts[rng.Intn(len(c20AIAHosts))]
					if viaRemoved {
						u = "http://ocsp.example." + removed[rng.Intn(len(removed))] + "/"
						c.R.Count("aia_hosts_under_removed_tlds", 1)
					}
					m := gen.OIDAdOCSP
					if rng.Intn(2) == 0 {
						m = gen.OIDAdIssuers
					}
					ads = append(ads, gen.AD(m, gen.GNURI(u)))
					used = append(used, u)
				}
				spec.ReplaceExt(gen.ExtAIA(ads...))
				how = fmt.Sprintf("AIA %v", used)
			case 6: // validity around 397 / 398 / 399 days; DSA keys
				spec = gen.TLSLeaf(nb, "www.example.com")
				days := []int{396, 397, 398, 399, 400, 90, 825}[rng.Intn(7)]
				delta := []time.Duration{-time.Second, 0, time.Second, 2 * time.Second}[rng.Intn(4)]
				spec.NotAfter = nb.Add(time.Duration(days)*24*time.Hour + delta)
				how = fmt.Sprintf("validity %d days %+v", days, delta)
				if rng.Intn(3) == 0 {
					spec.SPKI = gen.DSASPKI([]int{1024, 2048, 3072}[rng.Intn(3)], []int{160, 224, 256}[rng.Intn(3)])
					yr := []int{2010, 2015, 2018, 2020, 2024}[rng.Intn(5)]
					spec.NotBefore = gen.D(yr, 3, 1)
					spec.NotAfter = spec.NotBefore.Add(365 * 24 * time.Hour)
					if rng.Intn(2) == 0 {
						spec.SigOID, spec.SigNull = gen.OIDDsaSha256, false
					}
					how = fmt.Sprintf("DSA key, issued %d", yr)
				}
			default: // given name / surname lengths
				spec = gen.TLSLeaf(nb, "www.example.com")
				lens := []int{1, 63, 64, 65, 66, 128, 32767, 32768, 32769, 40000}
				gl, sl := lens[rng.Intn(len(lens))], lens[rng.Intn(len(lens))]
				if rng.Intn(2) == 0 {
					spec.Subject = gen.Name(gen.A(gen.OIDC, "US"), gen.A(gen.OIDGiven, strings.Repeat("g", gl)), gen.A(gen.OIDSurname, strings.Repeat("s", sl)), gen.A(gen.OIDCN, "www.example.com"))
					how = fmt.Sprintf("givenName %d chars, surname %d chars", gl, sl)
				} else {
					// one or two values per attribute, each in its own string type (the parser decodes some types and
					// leaves others alone), one- and two-byte characters: both members of a pair must count alike
					attrs := []gen.ATV{gen.A(gen.OIDC, "US")}
					how = "name lengths:"
					for _, oid := range []string{gen.OIDGiven, gen.OIDSurname} {
						for v := 0; v < 1+rng.Intn(2); v++ {
							n := lens[rng.Intn(len(lens))]
							if v == 1 && rng.Intn(2) == 0 {
								n = []int{1, 5, 64}[rng.Intn(3)]
							}
							ch := []string{"n", "é"}[rng.Intn(4)/3]
							tag := []int{der.TagUTF8, der.TagPrintable, der.TagBMP, der.TagT61, der.TagUniversal, der.TagIA5}[rng.Intn(6)]
							var val []byte
							switch tag {
							case der.TagBMP:
								val = bmpOf(strings.Repeat(ch, n))
							case der.TagUniversal:
								for _, r := range strings.Repeat(ch, n) {
									val = append(val, 0, 0, byte(r>>8), byte(r))
								}
							default:
								val = []byte(strings.Repeat(ch, n))
							}
							attrs = append(attrs, gen.AT(oid, tag, val))
							how += fmt.Sprintf(" %s=%dx%q as string type %d;", oid, n, ch, tag)
						}
					}
					spec.Subject = gen.Name(append(attrs, gen.A(gen.OIDCN, "www.example.com"))...)
				}
			}
			o, _ := mon.ParseObj(corpus.Cert, "gen/pairs", spec.DER())
			if o == nil {
				c.R.Count("gen_rejected", 1)
				return
			}
			c20Judge(c, o, groups, how)
			if i%1009 == 0 {
				c.R.Sample(8, map[string]any{"construction": how})
			}
		},
		Finish: func(c *mon.Ctx, r *mon.Report, ev *mon.Evidence) []string {
			var gates []string
			bj := map[string]int64{}
			outcomes := map[string][]string{}
			for _, p := range c20Pairs {
				key := p.a + "/" + p.b
				if _, ok := InvBy[p.a]; !ok {
					outcomes[key] = []string{"pair vacated: " + p.a + " not registered"}
					continue
				}
				if _, ok := InvBy[p.b]; !ok {
					outcomes[key] = []string{"pair vacated: " + p.b + " not registered"}
					continue
				}
				n := r.Counters["both_judged:"+key]
				bj[key] = n
				outcomes[key] = r.SetKeys("pair_outcomes:" + key)
				if n < p.min {
					gates = append(gates, fmt.Sprintf("pair %s both-judged only %d times (minimum %d): inconclusive", key, n, p.min))
				}
				if p.rel != relImplies && len(outcomes[key]) < 2 {
					gates = append(gates, fmt.Sprintf("pair %s was only ever seen with one outcome %v", key, outcomes[key]))
				}
			}
			ev.Coverage["both_judged"] = bj
			ev.Coverage["pair_outcomes"] = outcomes
			return gates
		},
	})
}
