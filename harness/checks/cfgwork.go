package checks

import (
	"sync"

	"github.com/zmap/zlint/v3/lint"

	"verif/corpus"
	"verif/mon"
)

// ---- configured workload ----
//
// A configurable lint has return paths that only a configuration opens (an option that switches a severity, a list
// that selects what is judged). The universal monitors of C02 and C06 therefore also run every Configurable lint the
// live registry holds - fields found by reflection, so an option added tomorrow is included - under every document of
// C11's generator that is valid TOML (well-typed values singly, ill-typed ones, structural variants), each through a
// registry filtered to that lint alone and given that configuration, over the seed pool of the lint's kind, the
// objects C11 builds for the shipped options and the return-path family.

type cfgWorkCase struct {
	lint int // index into c11Lints
	doc  string
	desc string
}

var (
	cfgWork     []cfgWorkCase
	cfgObjsOnce sync.Once
	cfgObjs     map[corpus.Kind][]*mon.Obj
)

func cfgWorkBuild(c *mon.Ctx) {
	cfgWork = nil
	c11Discover()
	for li, cl := range c11Lints {
		for _, s := range c11Sections(cl) {
			doc := docOf([]section{s}, false)
			if _, err := lint.NewConfigFromString(doc); err != nil {
				continue
			}
			cfgWork = append(cfgWork, cfgWorkCase{li, doc, cl.info.Name + ": " + s.desc})
		}
	}
}

func cfgWorkObjs(c *mon.Ctx) map[corpus.Kind][]*mon.Obj {
	cfgObjsOnce.Do(func() {
		cfgObjs = map[corpus.Kind][]*mon.Obj{}
		for _, o := range W.Objs {
			cfgObjs[o.Kind] = append(cfgObjs[o.Kind], o)
		}
		c11BuildObjs(c)
		for _, o := range c11Objs {
			if len(o.Name) > 4 && o.Name[:4] == "gen/" {
				cfgObjs[o.Kind] = append(cfgObjs[o.Kind], o)
			}
		}
		for k := range pathShapes {
			if o, _ := pathShapeCase(c, k); o != nil {
				cfgObjs[o.Kind] = append(cfgObjs[o.Kind], o)
			}
		}
	})
	return cfgObjs
}

// cfgWorkRun lints every object of the lint's kind under case k and hands each result to see.
func cfgWorkRun(c *mon.Ctx, k int, see func(o *mon.Obj, reg lint.Registry, desc string)) {
	cs := cfgWork[k]
	cl := c11Lints[cs.lint]
	reg, err := lint.GlobalRegistry().Filter(lint.FilterOptions{IncludeNames: []string{cl.info.Name}})
	if err != nil {
		c.R.CrossObs("C13:listed-name-not-includable")
		return
	}
	cfg, err := lint.NewConfigFromString(cs.doc)
	if err != nil {
		return
	}
	reg.SetConfiguration(cfg)
	c.R.Distinct("configured_lints", cl.info.Name)
	c.R.Count("configured_documents", 1)
	for _, o := range cfgWorkObjs(c)[cl.info.Kind] {
		see(o, reg, "configured run ("+cs.desc+")")
	}
}
