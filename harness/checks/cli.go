package checks

import (
	"bytes"
	"context"
	"os"
	"os/exec"
	"time"
)

// runCLI runs the real zlint binary (built by bin/check from the tree under
// test). Returns stdout, stderr, exit code (-1: could not run / timed out).
func runCLI(stdin []byte, dir string, args ...string) (string, string, int) {
	bin := os.Getenv("VERIF_ZLINT_BIN")
	if bin == "" {
		return "", "VERIF_ZLINT_BIN not set", -1
	}
	ctx, cancel := context.WithTimeout(context.Background(), 60*time.Second)
	defer cancel()
	cmd := exec.CommandContext(ctx, bin, args...)
	cmd.Dir = dir
	var so, se bytes.Buffer
	cmd.Stdout, cmd.Stderr = &so, &se
	if stdin != nil {
		cmd.Stdin = bytes.NewReader(stdin)
	}
	err := cmd.Run()
	code := 0
	if err != nil {
		if ee, ok := err.(*exec.ExitError); ok {
			code = ee.ExitCode()
		} else {
			code = -1
		}
	}
	return so.String(), se.String(), code
}
