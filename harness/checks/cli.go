package checks

import (
	"bytes"
	"context"
	"os"
	"os/exec"
	"sync/atomic"
	"time"
)

// runCLI runs the real zlint binary (built by bin/check from the tree under
// test). Returns stdout, stderr, exit code (-1: could not run / timed out).
func runCLI(stdin []byte, dir string, args ...string) (string, string, int) {
	bin := os.Getenv("VERIF_ZLINT_BIN")
	if bin == "" {
		return "", "VERIF_ZLINT_BIN not set", -1
	}
	ctx, cancel := context.WithTimeout(context.Background(), 60*time.Second)
	defer cancel()
	cmd := exec.CommandContext(ctx, bin, args...)
	cmd.Dir = dir
	var so, se bytes.Buffer
	cmd.Stdout, cmd.Stderr = &so, &se
	if stdin != nil {
		// standard input arrives either through a pipe or as a redirected REGULAR FILE (`zlint < cert.pem`), chosen by
		// a hash of the invocation so that both routes are exercised by every CLI check
		h := uint32(2166136261)
		for _, a := range args {
			for i := 0; i < len(a); i++ {
				h = (h ^ uint32(a[i])) * 16777619
			}
		}
		h = (h ^ uint32(len(stdin))) * 16777619
		if h%2 == 0 {
			cmd.Stdin = bytes.NewReader(stdin)
			cliStdinPipe.Add(1)
		} else if f, err := os.CreateTemp(dir, "stdin."); err == nil {
			_, _ = f.Write(stdin)
			_, _ = f.Seek(0, 0)
			cmd.Stdin = f
			defer func() { f.Close(); os.Remove(f.Name()) }()
			cliStdinFile.Add(1)
		} else {
			cmd.Stdin = bytes.NewReader(stdin)
			cliStdinPipe.Add(1)
		}
	}
	err := cmd.Run()
	code := 0
	if err != nil {
		if ee, ok := err.(*exec.ExitError); ok {
			code = ee.ExitCode()
		} else {
			code = -1
		}
	}
	return so.String(), se.String(), code
}

// how often standard input was a pipe / a regular file (evidence)
var cliStdinPipe, cliStdinFile atomic.Int64
