// Package checks holds one monitor per property.
package checks

import (
	"fmt"
	"math/rand"
	"regexp"
	"sort"
	"strings"

	"github.com/zmap/zlint/v3/lint"

	"verif/corpus"
	"verif/mon"
)

var (
	W       *mon.Workload
	Inv     []mon.LintInfo
	InvBy   map[string]mon.LintInfo
	Version int64
)

func setupCommon(c *mon.Ctx) error {
	w, err := mon.LoadWorkload(c.Home)
	if err != nil {
		return err
	}
	W = w
	addGenSeeds(w)
	Inv = mon.Inventory(lint.GlobalRegistry())
	InvBy = map[string]mon.LintInfo{}
	for _, li := range Inv {
		InvBy[li.Name] = li
	}
	Version = mon.MajorVersion(c.Repo)
	if len(Inv) == 0 {
		return fmt.Errorf("empty global registry")
	}
	return nil
}

// someCertLint names a registered certificate lint for selections that just need "one listed name": e_ca_is_ca when the
// tree under test has it, otherwise the first certificate lint of the inventory.
func someCertLint() string {
	if li, ok := InvBy["e_ca_is_ca"]; ok && li.Kind == corpus.Cert {
		return "e_ca_is_ca"
	}
	for _, li := range Inv {
		if li.Kind == corpus.Cert {
			return li.Name
		}
	}
	return "e_ca_is_ca"
}

func namesOfKind(k corpus.Kind) []string {
	var out []string
	for _, li := range Inv {
		if li.Kind == k {
			out = append(out, li.Name)
		}
	}
	return out
}

func allSources() []lint.LintSource {
	set := map[lint.LintSource]bool{}
	for _, li := range Inv {
		set[li.Meta.Source] = true
	}
	var out []lint.LintSource
	for s := range set {
		out = append(out, s)
	}
	sort.Slice(out, func(i, j int) bool { return out[i] < out[j] })
	return out
}

var regexpAll = regexp.MustCompile(`.*`)

var regexPool = []string{`^e_`, `^w_`, `^n_`, `.*`, `a^`, `crl`, `(?i)E_`, `[a-c]`, `^e_.*[0-9]+`, `dnsname`, `^e_rsa_`,
	`subject|issuer`, `ocsp`, `_san_`, `^.{0,20}$`, `x`, `^$`, `rfc`, `smime`, `^(e|n)_`}

// randPattern draws a name pattern: the fixed pool, or an expression GROWN from listed names - whole names and
// fragments of names (prefix, suffix, middle; fragments that are proper substrings of listed names must select
// nothing when anchored at both ends), as pure literals with every anchoring style (^..$, \A..\z, ^(?:..)$, (?m)), as
// unanchored literals, with flags, classes, wildcards, alternations, repetition and word boundaries. "Any regular
// expression" cannot be enumerated; these are the shapes for which an implementation that second-guesses the regexp
// engine (literal fast paths, prefix tests, case folding, caches keyed by the source text) can go wrong.
func randPattern(rng *rand.Rand) *regexp.Regexp {
	name := func() string { return Inv[rng.Intn(len(Inv))].Name }
	frag := func() string {
		n := name()
		switch rng.Intn(5) {
		case 0:
			return n
		case 1: // prefix
			return n[:2+rng.Intn(len(n)-2)]
		case 2: // suffix
			return n[1+rng.Intn(len(n)-2):]
		case 3: // up to a '_' boundary: "e_", "w_ext_", "e_crl_" ...
			parts := strings.SplitAfter(n, "_")
			return strings.Join(parts[:1+rng.Intn(len(parts))], "")
		default: // middle
			a := rng.Intn(len(n) - 1)
			return n[a : a+1+rng.Intn(len(n)-a-1)]
		}
	}
	q := regexp.QuoteMeta
	var p string
	switch rng.Intn(20) {
	case 0, 1, 2, 3:
		p = regexPool[rng.Intn(len(regexPool))]
	case 4:
		p = "^" + q(name()) + "$"
	case 5:
		p = "^" + q(frag()) + "$"
	case 6:
		p = `\A` + q(frag()) + `\z`
	case 7:
		p = "^(?:" + q(frag()) + ")$"
	case 8:
		p = q(frag())
	case 9:
		p = "^" + q(frag())
	case 10:
		p = q(frag()) + "$"
	case 11:
		p = "(?i)" + strings.ToUpper(q(frag()))
	case 12:
		f := []byte(frag())
		k := rng.Intn(len(f))
		p = q(string(f[:k])) + []string{".", "[a-z_]", "[^x]", `\w`, "(?:" + q(string(f[k:k+1])) + ")"}[rng.Intn(5)] + q(string(f[k+1:]))
		if rng.Intn(2) == 0 {
			p = "^" + p + "$"
		}
	case 13:
		p = q(frag()) + "|" + q(frag())
	case 14:
		p = "^(" + q(name()) + "|" + q(name()) + ")$"
	case 15:
		p = "^" + q(frag()) + ".*" + q(frag()) + "$"
	case 16:
		p = "(?m)^" + q(frag()) + "$"
	case 17:
		p = `\b` + q(frag()) + `\b`
	case 18:
		p = q(frag()) + []string{"?", "+", "*", "{1}", "{2}", "{0,1}"}[rng.Intn(6)]
		if rng.Intn(2) == 0 {
			p = "^" + p + "$"
		}
	default:
		p = "^" + q(frag()) + "$|^" + q(name()) + "$"
	}
	re, err := regexp.Compile(p)
	if err != nil {
		return regexpAll
	}
	return re
}

// randFilter draws FilterOptions over the live inventory. With hostile set
// the options may also be illegal (unknown names, pattern + lists).
func randFilter(rng *rand.Rand, hostile bool) lint.FilterOptions {
	var o lint.FilterOptions
	names := func(n int) []string {
		var out []string
		for i := 0; i < n; i++ {
			nm := Inv[rng.Intn(len(Inv))].Name
			if hostile || rng.Intn(4) == 0 {
				switch rng.Intn(8) {
				case 0:
					nm = " " + nm
				case 1:
					nm = nm + "\t"
				case 2:
					nm = "\n " + nm + "  "
				}
			}
			if hostile && rng.Intn(12) == 0 {
				switch rng.Intn(5) {
				case 0:
					nm = strings.ToUpper(nm)
				case 1:
					nm = nm + "_x"
				case 2:
					nm = ""
				case 3:
					nm = nm[1:]
				case 4:
					nm = strings.Replace(nm, "_", " ", 1)
				}
			}
			out = append(out, nm)
			if rng.Intn(6) == 0 { // multiset: repeat
				out = append(out, nm)
			}
		}
		return out
	}
	srcs := allSources()
	srcs = append(srcs, lint.UnknownLintSource, lint.LintSource("NoSuchSource"))
	sources := func(n int) lint.SourceList {
		var out lint.SourceList
		for i := 0; i < n; i++ {
			out = append(out, srcs[rng.Intn(len(srcs))])
		}
		return out
	}
	sizes := []int{1, 1, 2, 3, 5, 12, 40, 150}
	if rng.Intn(3) == 0 {
		o.IncludeNames = names(sizes[rng.Intn(len(sizes))])
	} else if rng.Intn(8) == 0 {
		o.IncludeNames = []string{}
	}
	if rng.Intn(3) == 0 {
		o.ExcludeNames = names(sizes[rng.Intn(len(sizes))])
	} else if rng.Intn(8) == 0 {
		o.ExcludeNames = []string{}
	}
	if rng.Intn(3) == 0 {
		o.IncludeSources = sources(1 + rng.Intn(4))
	}
	if rng.Intn(3) == 0 {
		o.ExcludeSources = sources(1 + rng.Intn(3))
	}
	usePattern := rng.Intn(3) == 0
	if usePattern && !hostile && (len(o.IncludeNames) > 0 || len(o.ExcludeNames) > 0) {
		usePattern = false
	}
	if usePattern {
		o.NameFilter = randPattern(rng)
	}
	return o
}

func describeFilter(o lint.FilterOptions) string {
	p := "<nil>"
	if o.NameFilter != nil {
		p = o.NameFilter.String()
	}
	return fmt.Sprintf("pattern=%s incNames=%d%q excNames=%d%q incSrc=%v excSrc=%v", p, len(o.IncludeNames), clip(o.IncludeNames, 4), len(o.ExcludeNames), clip(o.ExcludeNames, 4), o.IncludeSources, o.ExcludeSources)
}

func clip(s []string, n int) []string {
	if len(s) > n {
		return s[:n]
	}
	return s
}

// ---- configuration documents ----

// cfgDoc is a TOML text with a label; Bad names the lints that must report a
// configuration error under it (decided by the C11 oracle, not here).
type cfgDoc struct {
	Label string
	Text  string
}

func basicConfigs() []cfgDoc {
	def, _ := lint.GlobalRegistry().DefaultConfiguration()
	return []cfgDoc{
		{"empty", ""},
		{"default", string(def)},
		{"unrelated", "[some_unknown_section]\nx = 1\n[CABFBaselineRequirementsConfig]\n[Global]\n"},
		{"options", "[e_rsa_fermat_factorization]\nRounds = 3\n[e_subj_contains_html_entities]\nSkip = true\n[e_crl_next_update_invalid]\nSubscriberCRL = false\n"},
		{"illtyped", "[e_rsa_fermat_factorization]\nRounds = \"many\"\n[e_crl_next_update_invalid]\nSubscriberCRL = 7\n"},
		{"scalar", "e_rsa_fermat_factorization = 7\ne_crl_next_update_invalid = 5\n"},
	}
}

func mustConfig(text string) lint.Configuration {
	cfg, err := lint.NewConfigFromString(text)
	if err != nil {
		panic("harness config does not parse: " + err.Error() + "\n" + text)
	}
	return cfg
}

func statusSetKey(s mon.Snap) string {
	var n, w, e, f bool
	for _, v := range s {
		switch lint.LintStatus(v.Status) {
		case lint.Notice:
			n = true
		case lint.Warn:
			w = true
		case lint.Error:
			e = true
		case lint.Fatal:
			f = true
		}
	}
	b := func(x bool, s string) string {
		if x {
			return s
		}
		return "-"
	}
	return b(n, "i") + b(w, "w") + b(e, "e") + b(f, "f")
}

func inputs(o *mon.Obj) map[string][]byte {
	return map[string][]byte{o.Kind.String() + ":" + o.Name: o.DER}
}
