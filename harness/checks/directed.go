package checks

import (
	"fmt"
	"math/rand"
	"sort"
	"strconv"
	"sync"

	"verif/der"
	"verif/gen"
	"verif/mon"
)

// Directed families: generated objects aimed at code paths the corpus and
// blind mutation rarely reach. directedCount / directedCase enumerate them.

type dirFam struct {
	name string
	rank int // position in the enumeration: 0 positional, 1 DN-text (the two big ones), then the small families that are always run completely
	n    func(c *mon.Ctx) int
	gen  func(c *mon.Ctx, k int) (*mon.Obj, string)
}

var dirFams []dirFam

var famSort sync.Once

func sortFams() {
	famSort.Do(func() { sort.SliceStable(dirFams, func(i, j int) bool { return dirFams[i].rank < dirFams[j].rank }) })
}

// directedSmallTail is the number of cases at the END of the enumeration that belong to the small families
// (rank >= 2): checks that only sample the big families still run these completely.
func directedSmallTail(c *mon.Ctx) int {
	sortFams()
	t := 0
	for _, f := range dirFams {
		if f.rank >= 2 {
			t += f.n(c)
		}
	}
	return t
}

// directedPick maps the j-th directed case of a check onto the enumeration: the small families at the end
// completely first (j < directedSmallTail), then a pseudo-random (hashed, seed-dependent) walk over the two big
// families. NOT an arithmetic stride: the big families are mixed-radix products (27 attribute types x 166 texts x
// variants; positions x operations), and a stride that shares a factor with a radix only ever visits a fraction of one
// dimension (a stride of 9 over the DN-text family reached 3 of its 27 attribute types).
func directedPick(c *mon.Ctx, j int) int {
	dC, tail := directedCount(c), directedSmallTail(c)
	if j < tail {
		return dC - 1 - j
	}
	rest := dC - tail
	if rest <= 0 {
		return -1
	}
	return int((uint64(j-tail)*11400714819323198485 + uint64(c.Seed)*0x9E3779B97F4A7C15 + 0x632BE59BD9B4E019) % uint64(rest))
}

// directedSampled reports whether index k of the big families belongs to a 1-in-n hashed sample (for loops that walk
// the whole enumeration and keep a fraction).
func directedSampled(c *mon.Ctx, k, n int) bool {
	if n <= 1 {
		return true
	}
	h := (uint64(k)+uint64(c.Seed)*0x9E3779B97F4A7C15)*11400714819323198485 ^ 0x632BE59BD9B4E019
	h ^= h >> 29
	h *= 0xBF58476D1CE4E5B9
	h ^= h >> 32
	return h%uint64(n) == 0
}

func directedCount(c *mon.Ctx) int {
	sortFams()
	t := 0
	for _, f := range dirFams {
		t += f.n(c)
	}
	return t
}

func directedCase(c *mon.Ctx, k int) (*mon.Obj, string) {
	sortFams()
	for _, f := range dirFams {
		n := f.n(c)
		if k < n {
			o, d := f.gen(c, k)
			if o != nil {
				c.R.Distinct("directed_families_accepted", f.name)
			}
			return o, f.name + ":" + d
		}
		k -= n
	}
	return nil, ""
}

// ---- positional family ----
//
// Every distinct structural position seen anywhere in the seed pool (path of
// identifier octets from the root, with the OID of every OID-led SEQUENCE on
// the way - so "explicitText UTF8String inside certificatePolicies" and
// "rfc822Name inside subjectAltName" are different positions) gets every
// dictionary value (replace / append / prepend), every string-type swap, and
// the structural edits (empty, drop first/last child, duplicate first child).

type position struct {
	sig  string
	seed int   // index into W.Objs / W.Trees
	path []int // child indices from the root; -1 = Wrapped
}

var positions []position

func walkPos(n *der.Node, sig string, path []int, depth int, seed int, seen map[string]bool, out *[]position) {
	id := strconv.Itoa(n.Class) + "." + strconv.Itoa(n.Tag)
	if n.Constructed {
		id += "c"
	}
	sig = sig + "/" + id
	if n.Constructed && len(n.Children) > 0 && n.Children[0].Is(der.TagOID) {
		sig += "[" + n.Children[0].OIDString() + "]"
	}
	if depth >= 2 && !seen[sig] {
		seen[sig] = true
		*out = append(*out, position{sig, seed, append([]int{}, path...)})
	}
	for i, ch := range n.Children {
		// positional index only matters for the first few children; cap so long lists do not explode
		walkPos(ch, sig, append(path, i), depth+1, seed, seen, out)
	}
	if n.Wrapped != nil {
		walkPos(n.Wrapped, sig, append(path, -1), depth+1, seed, seen, out)
	}
}

func buildPositions() {
	if positions != nil {
		return
	}
	seen := map[string]bool{}
	for i, t := range W.Trees {
		walkPos(t, W.Objs[i].Kind.String(), nil, 0, i, seen, &positions)
	}
	sort.SliceStable(positions, func(i, j int) bool { return positions[i].sig < positions[j].sig })
}

func nodeAt(root *der.Node, path []int) (n, parent *der.Node, idx int) {
	n = root
	for _, p := range path {
		parent, idx = n, p
		if p == -1 {
			n = n.Wrapped
		} else {
			if p >= len(n.Children) {
				return nil, nil, 0
			}
			n = n.Children[p]
		}
		if n == nil {
			return nil, nil, 0
		}
	}
	return
}

var posStringTags = []int{der.TagUTF8, der.TagPrintable, der.TagIA5, der.TagBMP, der.TagT61, der.TagVisible, der.TagUniversal, der.TagNumeric}

// opsPerPosition: 3*len(Dict) dictionary edits + 8 string-type swaps + 4 structural edits + 8 swap+lone-lead-byte combos
func opsPerPosition() int { return 3*len(der.Dict) + 8 + 4 + 8 }

func applyPosOp(root *der.Node, p position, op int) (string, bool) {
	n, _, _ := nodeAt(root, p.path)
	if n == nil {
		return "", false
	}
	prim := func() bool {
		if n.Constructed {
			return false
		}
		if n.Wrapped != nil {
			n.Content = n.Wrapped.Encode()
			if n.Is(der.TagBitString) {
				n.Content = append([]byte{n.Unused}, n.Content...)
			}
			n.Wrapped = nil
		}
		return true
	}
	nd := len(der.Dict)
	switch {
	case op < 3*nd:
		if !prim() {
			return "", false
		}
		d := der.Dict[op%nd]
		switch op / nd {
		case 0:
			n.Content = append([]byte{}, d...)
			return fmt.Sprintf("replace[%d]", op%nd), true
		case 1:
			n.Content = append(append([]byte{}, n.Content...), d...)
			return fmt.Sprintf("append[%d]", op%nd), true
		default:
			n.Content = append(append([]byte{}, d...), n.Content...)
			return fmt.Sprintf("prepend[%d]", op%nd), true
		}
	case op < 3*nd+8:
		if n.Constructed || n.Class != 0 || !n.IsString() {
			return "", false
		}
		t := posStringTags[op-3*nd]
		if t == n.Tag {
			return "", false
		}
		n.Tag = t
		return fmt.Sprintf("strtype=%d", t), true
	case op < 3*nd+12:
		if !n.Constructed {
			return "", false
		}
		switch op - 3*nd - 8 {
		case 0:
			n.Children = nil
			return "empty", true
		case 1:
			if len(n.Children) == 0 {
				return "", false
			}
			n.Children = n.Children[1:]
			return "dropfirst", true
		case 2:
			if len(n.Children) == 0 {
				return "", false
			}
			n.Children = n.Children[:len(n.Children)-1]
			return "droplast", true
		default:
			if len(n.Children) == 0 {
				return "", false
			}
			n.Children = append([]*der.Node{n.Children[0].Clone()}, n.Children...)
			return "dupfirst", true
		}
	default:
		// string-type swap combined with a truncated multi-byte tail
		if n.Constructed || n.Class != 0 || !n.IsString() {
			return "", false
		}
		k := op - 3*nd - 12
		n.Tag = posStringTags[k]
		tails := [][]byte{{0xC2}, {0xE2, 0x82}, {0xF0, 0x9F}, {0x00}, {0xD8}, {0xFF, 0xFE}, {0x80}, {0x1b}}
		n.Content = append(append([]byte{}, n.Content...), tails[k]...)
		return fmt.Sprintf("strtype=%d+tail", n.Tag), true
	}
}

// prioOps are in every quick run; the remaining ops are sampled 1-in-quickStride
// at quick (phase chosen by the seed) and enumerated completely at thorough.
var prioOps, restOps []int

func splitOps() {
	if prioOps != nil {
		return
	}
	nd := len(der.Dict)
	for op := 0; op < opsPerPosition(); op++ {
		if op >= 3*nd || (op%nd < 8 && op/nd < 2) {
			prioOps = append(prioOps, op)
		} else {
			restOps = append(restOps, op)
		}
	}
}

func init() {
	dirFams = append(dirFams, dirFam{
		name: "positional", rank: 0,
		n: func(c *mon.Ctx) int {
			buildPositions()
			splitOps()
			if c.Thorough() {
				return len(positions) * opsPerPosition()
			}
			return len(positions)*len(prioOps) + len(positions)*len(restOps)/quickStride
		},
		gen: func(c *mon.Ctx, k int) (*mon.Obj, string) {
			buildPositions()
			splitOps()
			var p position
			var op int
			if c.Thorough() {
				p, op = positions[k/opsPerPosition()], k%opsPerPosition()
			} else if np := len(positions) * len(prioOps); k < np {
				p, op = positions[k/len(prioOps)], prioOps[k%len(prioOps)]
			} else {
				k = (k-np)*quickStride + int(uint64(c.Seed)%uint64(quickStride))
				if k >= len(positions)*len(restOps) {
					return nil, "n/a"
				}
				p, op = positions[k/len(restOps)], restOps[k%len(restOps)]
			}
			root := W.Trees[p.seed].Clone()
			d, ok := applyPosOp(root, p, op)
			if !ok {
				return nil, "n/a"
			}
			seed := W.Objs[p.seed]
			o, _ := mon.ParseObj(seed.Kind, seed.Name+"@"+p.sig+"#"+d, root.Encode())
			return o, d
		},
	})
}

const quickStride = 8

// ---- SAN-sibling family ----
//
// For every seed certificate with dNSName SAN entries, append siblings of each
// entry whose second-level label is replaced (www.example.com ->
// www.verifa.com, www.verifb.com, ...). Several similar offending entries at
// once is what exposes details built from map iteration or "first entry wins"
// logic (e.g. several .onion subjects lacking a descriptor).

var sanSeeds []int

func buildSanSeeds() {
	if sanSeeds != nil {
		return
	}
	for i, o := range W.Objs {
		if o.Cert != nil && len(o.Cert.DNSNames) > 0 {
			sanSeeds = append(sanSeeds, i)
		}
	}
}

func sibling(name, repl string) string {
	l := splitLabels(name)
	if len(l) < 2 {
		return repl + "." + name
	}
	l[len(l)-2] = repl
	out := l[0]
	for _, x := range l[1:] {
		out += "." + x
	}
	return out
}

func splitLabels(s string) []string {
	var out []string
	cur := ""
	for i := 0; i < len(s); i++ {
		if s[i] == '.' {
			out = append(out, cur)
			cur = ""
		} else {
			cur += string(s[i])
		}
	}
	return append(out, cur)
}

func init() {
	dirFams = append(dirFams, dirFam{
		name: "san-siblings", rank: 2,
		n: func(c *mon.Ctx) int {
			buildSanSeeds()
			return len(sanSeeds) * 2
		},
		gen: func(c *mon.Ctx, k int) (*mon.Obj, string) {
			buildSanSeeds()
			idx := sanSeeds[k/2]
			seed := W.Objs[idx]
			dc, err := der.ParseCert(seed.DER)
			if err != nil {
				return nil, "n/a"
			}
			l := sanList(dc)
			if l == nil {
				return nil, "n/a"
			}
			repls := []string{"verifa", "verifb", "verifc"}
			if k%2 == 1 {
				repls = []string{"verif-z", "Verif-Y", "verif-x", "VERIF-W", "verif-v"}
			}
			var add []*der.Node
			for _, ch := range l.Children {
				if ch.IsCtx(2) && !ch.Constructed {
					for _, r := range repls {
						add = append(add, der.CtxPrim(2, []byte(sibling(string(ch.Content), r))))
					}
				}
			}
			if len(add) == 0 {
				return nil, "n/a"
			}
			l.Children = append(l.Children, add...)
			o, _ := mon.ParseObj(seed.Kind, seed.Name+"+siblings", dc.Encode())
			return o, fmt.Sprintf("%d sibling names", len(add))
		},
	})
}

// ---- generated-pool family ----
//
// What the property-specific generators know how to build is also put in
// front of every universal monitor (no-panic, severity, determinism, I/O
// freedom, JSON ...): each GeneralName pool entry in SAN and IAN of TLS and
// S/MIME subscribers, AIA location shapes, adversarial DN values on leaf, CA
// and self-issued templates.

// name-constraint iPAddress payloads (address || mask): plain IPv4, IPv6, IPv4-mapped addresses under a 16-byte
// mask (legal, rare), non-contiguous masks, odd lengths
var ncPayloads = [][]byte{
	{10, 0, 0, 0, 255, 0, 0, 0},
	{8, 8, 0, 0, 255, 255, 0, 0},
	{126, 0, 0, 0, 254, 0, 0, 0},
	append([]byte{0x20, 0x01, 0x0d, 0xb8, 0, 0, 0, 0, 0, 0, 0, 0, 0, 0, 0, 0}, []byte{0xff, 0xff, 0xff, 0xff, 0, 0, 0, 0, 0, 0, 0, 0, 0, 0, 0, 0}...),
	append([]byte{0x26, 0x06, 0x47, 0, 0, 0, 0, 0, 0, 0, 0, 0, 0, 0, 0, 0}, []byte{0xff, 0xff, 0xff, 0, 0, 0, 0, 0, 0, 0, 0, 0, 0, 0, 0, 0}...),
	append([]byte{0, 0, 0, 0, 0, 0, 0, 0, 0, 0, 0xff, 0xff, 8, 8, 0, 0}, []byte{0xff, 0xff, 0xff, 0xff, 0xff, 0xff, 0xff, 0xff, 0xff, 0xff, 0xff, 0xff, 0xff, 0xff, 0, 0}...),
	append([]byte{0, 0, 0, 0, 0, 0, 0, 0, 0, 0, 0xff, 0xff, 10, 0, 0, 0}, []byte{0xff, 0xff, 0xff, 0xff, 0xff, 0xff, 0xff, 0xff, 0xff, 0xff, 0xff, 0xff, 0xff, 0, 0, 0}...),
	append([]byte{0, 0, 0, 0, 0, 0, 0, 0, 0, 0, 0xff, 0xff, 93, 184, 216, 34}, []byte{0xff, 0xff, 0xff, 0xff, 0xff, 0xff, 0xff, 0xff, 0xff, 0xff, 0xff, 0xff, 0xff, 0xff, 0xff, 0xff}...),
	append([]byte{0, 0, 0, 0, 0, 0, 0, 0, 0, 0, 0xff, 0xfe, 0, 0, 0, 0}, []byte{0xff, 0xff, 0xff, 0xff, 0xff, 0xff, 0xff, 0xff, 0xff, 0xff, 0xff, 0xfe, 0, 0, 0, 0}...),
	{8, 8, 8, 0, 255, 0, 255, 0},
	{0, 0, 0, 0, 0, 0, 0, 0},
	append(make([]byte, 16), make([]byte, 16)...),
	{192, 0, 2, 0, 255, 255, 255},
	{1, 2, 3, 4, 5},
}

func genPoolSize() int { return len(gen.GNPool)*3 + len(c20AIAHosts)*2 + 120 + 2*len(ncPayloads) }

func genPoolCase(k int) (*mon.Obj, string) {
	nb := gen.D(2024, 3, 1)
	n := len(gen.GNPool)
	switch {
	case k < 3*n:
		e := gen.GNPool[k%n]
		var s *gen.Spec
		switch k / n {
		case 0:
			s = gen.TLSLeaf(nb, "www.example.com")
			s.ReplaceExt(gen.ExtSAN(false, gen.GNDNS("www.example.com"), e.Node()))
		case 1:
			s = gen.SMIMELeaf(nb, "alice@example.com")
			s.ReplaceExt(gen.ExtSAN(false, gen.GNEmail("alice@example.com"), e.Node()))
			s.Exts = append(s.Exts, gen.ExtIAN(false, e.Node()))
		default:
			s = gen.TLSLeaf(nb, "www.example.com")
			s.Subject = gen.Name(gen.A(gen.OIDC, "US"), gen.A(gen.OIDO, "Example Org"))
			s.ReplaceExt(gen.ExtSAN(true, e.Node(), e.Node()))
			s.Exts = append(s.Exts, gen.ExtIAN(false, e.Node(), gen.GNDNS("ca.example.net")))
		}
		o, _ := mon.ParseObj(0, "gen/pool/gn/"+e.Label, s.DER())
		return o, "general name " + e.Label
	case k < 3*n+2*len(c20AIAHosts):
		j := k - 3*n
		u := c20AIAHosts[j%len(c20AIAHosts)]
		var s *gen.Spec
		if j/len(c20AIAHosts) == 0 {
			s = gen.TLSLeaf(nb, "www.example.com")
		} else {
			s = gen.SMIMELeaf(nb, "alice@example.com")
		}
		s.ReplaceExt(gen.ExtAIA(gen.AD(gen.OIDAdOCSP, gen.GNURI(u)), gen.AD(gen.OIDAdIssuers, gen.GNURI(u))))
		o, _ := mon.ParseObj(0, "gen/pool/aia", s.DER())
		return o, "AIA " + u
	case k >= 3*n+2*len(c20AIAHosts)+120:
		j := k - 3*n - 2*len(c20AIAHosts) - 120
		s := gen.SubCA(nb)
		p := ncPayloads[j%len(ncPayloads)]
		if j/len(ncPayloads) == 0 {
			s.Exts = append(s.Exts, gen.ExtNC(true, []*der.Node{gen.Subtree(gen.GNIP(p))}, nil))
		} else {
			s.Exts = append(s.Exts, gen.ExtNC(true, []*der.Node{gen.Subtree(gen.GNDNS("example.com"))}, []*der.Node{gen.Subtree(gen.GNIP(p))}))
		}
		o, _ := mon.ParseObj(0, "gen/pool/nc", s.DER())
		return o, fmt.Sprintf("name-constraint iPAddress payload of %d bytes", len(p))
	default:
		j := k - 3*n - 2*len(c20AIAHosts)
		rng := rand.New(rand.NewSource(int64(7700 + j/4)))
		name := c20RandName(rng)
		var s *gen.Spec
		switch j % 4 {
		case 0: // leaf, issuer := subject
			s = gen.TLSLeaf(nb, "www.example.com")
			s.Subject, s.Issuer = name, name.Clone()
		case 1: // CA whose subject is the adversarial name
			s = gen.SubCA(nb)
			s.Subject = name
		case 2: // self-issued CA (same DN bytes both sides; junk signature, so not self-signed)
			s = gen.SubCA(nb)
			s.Subject, s.Issuer = name, name.Clone()
		default: // leaf issued BY the adversarial name
			s = gen.TLSLeaf(nb, "www.example.com")
			s.Issuer = name
		}
		o, _ := mon.ParseObj(0, "gen/pool/dn", s.DER())
		return o, fmt.Sprintf("adversarial DN, template %d", j%4)
	}
}

func init() {
	dirFams = append(dirFams, dirFam{
		name: "gen-pool", rank: 3,
		n:   func(c *mon.Ctx) int { return genPoolSize() },
		gen: func(c *mon.Ctx, k int) (*mon.Obj, string) { return genPoolCase(k) },
	})
}
