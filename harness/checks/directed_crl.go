package checks

import (
	"fmt"
	"time"

	"verif/corpus"
	"verif/der"
	"verif/gen"
	"verif/mon"
)

// ---- CRL-shape family ----
//
// The corpus has 28 CRLs, none with an issuingDistributionPoint, few with a lifetime near a limit. CRL lints decide
// on thisUpdate/nextUpdate arithmetic (10 days, 12 months - calendar arithmetic, so the date of thisUpdate matters:
// leap day, month ends, days around daylight-saving switches of common zones, the lints' effective date), on CRL
// extensions and on entry extensions. The family is the product
//   thisUpdate x lifetime x issuingDistributionPoint shape x entries.
// Quick takes a seeded quarter of it, thorough all.

var crlThisUpdates = []time.Time{
	time.Date(2024, 3, 1, 0, 0, 0, 0, time.UTC),
	time.Date(2024, 2, 29, 23, 0, 0, 0, time.UTC), // leap day, late: another calendar day east of Greenwich
	time.Date(2024, 2, 29, 1, 0, 0, 0, time.UTC),  // leap day, early: the day before west of Greenwich
	time.Date(2024, 3, 5, 12, 0, 0, 0, time.UTC),  // ten days later is past the US switch to DST (2024-03-10)
	time.Date(2024, 3, 25, 0, 30, 0, 0, time.UTC), // ... the EU switch (2024-03-31)
	time.Date(2024, 10, 28, 6, 0, 0, 0, time.UTC), // ... the US switch back (2024-11-03)
	time.Date(2024, 1, 31, 12, 0, 0, 0, time.UTC), // month end: +1 month normalises
	time.Date(2023, 8, 31, 23, 59, 59, 0, time.UTC),
	time.Date(2023, 7, 15, 0, 0, 0, 0, time.UTC), // effective date of the BR CRL lints
	time.Date(2023, 7, 14, 23, 59, 59, 0, time.UTC),
	time.Date(2024, 12, 31, 23, 59, 59, 0, time.UTC),
	time.Date(2025, 6, 15, 18, 45, 10, 0, time.UTC),
}

type crlLife struct {
	label string
	next  func(tu time.Time) time.Time // zero = no nextUpdate
}

var crlLives = []crlLife{
	{"no nextUpdate", func(tu time.Time) time.Time { return time.Time{} }},
	{"7 days", func(tu time.Time) time.Time { return tu.AddDate(0, 0, 7) }},
	{"10 days - 1 s", func(tu time.Time) time.Time { return tu.AddDate(0, 0, 10).Add(-time.Second) }},
	{"10 days", func(tu time.Time) time.Time { return tu.AddDate(0, 0, 10) }},
	{"10 days + 1 s", func(tu time.Time) time.Time { return tu.AddDate(0, 0, 10).Add(time.Second) }},
	{"10 days + 30 min", func(tu time.Time) time.Time { return tu.AddDate(0, 0, 10).Add(30 * time.Minute) }},
	{"10 days - 30 min", func(tu time.Time) time.Time { return tu.AddDate(0, 0, 10).Add(-30 * time.Minute) }},
	{"11 days", func(tu time.Time) time.Time { return tu.AddDate(0, 0, 11) }},
	{"6 months", func(tu time.Time) time.Time { return tu.AddDate(0, 6, 0) }},
	{"12 months - 1 s", func(tu time.Time) time.Time { return tu.AddDate(0, 12, 0).Add(-time.Second) }},
	{"12 months", func(tu time.Time) time.Time { return tu.AddDate(0, 12, 0) }},
	{"12 months + 1 s", func(tu time.Time) time.Time { return tu.AddDate(0, 12, 0).Add(time.Second) }},
	{"12 months + 12 h", func(tu time.Time) time.Time { return tu.AddDate(0, 12, 0).Add(12 * time.Hour) }},
	{"12 months - 12 h", func(tu time.Time) time.Time { return tu.AddDate(0, 12, 0).Add(-12 * time.Hour) }},
	{"13 months", func(tu time.Time) time.Time { return tu.AddDate(0, 13, 0) }},
	{"nextUpdate before thisUpdate", func(tu time.Time) time.Time { return tu.Add(-time.Hour) }},
	{"nextUpdate = thisUpdate", func(tu time.Time) time.Time { return tu }},
}

const oidIDP = "2.5.29.28"

type crlExtShape struct {
	label string
	exts  func() []*der.Node
}

var crlExtShapes = func() []crlExtShape {
	tr := func() *der.Node { return der.Prim(1, []byte{0xff}) } // BOOLEAN TRUE content under an implicit tag
	idp := func(critical bool, fields ...*der.Node) []*der.Node {
		return []*der.Node{der.MakeExt(oidIDP, critical, der.Seq(fields...))}
	}
	ctxBool := func(tag int) *der.Node { return der.CtxPrim(tag, []byte{0xff}) }
	_ = tr
	dpName := func() *der.Node { return der.Ctx(0, der.Ctx(0, gen.GNURI("http://crl.example.net/r1.crl"))) }
	return []crlExtShape{
		{"no idp", func() []*der.Node { return nil }},
		{"idp onlyContainsUserCerts", func() []*der.Node { return idp(true, ctxBool(1)) }},
		{"idp onlyContainsCACerts", func() []*der.Node { return idp(true, ctxBool(2)) }},
		{"idp user and ca (contradictory)", func() []*der.Node { return idp(true, ctxBool(1), ctxBool(2)) }},
		{"idp distribution point only", func() []*der.Node { return idp(true, dpName()) }},
		{"idp distribution point + user certs", func() []*der.Node { return idp(true, dpName(), ctxBool(1)) }},
		{"idp distribution point + ca certs, not critical", func() []*der.Node { return idp(false, dpName(), ctxBool(2)) }},
		{"idp indirect", func() []*der.Node { return idp(true, ctxBool(4)) }},
		{"idp attribute certs", func() []*der.Node { return idp(true, ctxBool(5)) }},
		{"idp some reasons", func() []*der.Node { return idp(true, der.CtxPrim(3, []byte{1, 0x60})) }},
		{"idp empty", func() []*der.Node { return idp(true) }},
		{"idp ca certs FALSE spelled out", func() []*der.Node { return idp(true, der.CtxPrim(2, []byte{0x00})) }},
		{"idp user certs with empty boolean", func() []*der.Node { return idp(true, der.CtxPrim(1, nil)) }},
		{"idp ca certs with empty boolean", func() []*der.Node { return idp(true, der.CtxPrim(2, nil)) }},
		{"idp ca certs with two-octet boolean", func() []*der.Node { return idp(true, der.CtxPrim(2, []byte{0xff, 0xff})) }},
		{"idp ca certs boolean 0x01", func() []*der.Node { return idp(true, der.CtxPrim(2, []byte{0x01})) }},
		{"idp constructed boolean", func() []*der.Node { return idp(true, der.Ctx(2, der.Bool(true))) }},
		{"idp not a sequence", func() []*der.Node { return []*der.Node{der.MakeExt(oidIDP, true, der.Bool(true))} }},
		{"delta crl indicator", func() []*der.Node { return []*der.Node{der.MakeExt("2.5.29.27", true, der.Int64(3))} }},
		{"freshest crl", func() []*der.Node {
			return []*der.Node{der.MakeExt("2.5.29.46", false, der.Seq(der.Seq(der.Ctx(0, der.Ctx(0, gen.GNURI("http://crl.example.net/delta.crl"))))))}
		}},
		{"aia ca issuers", func() []*der.Node {
			return []*der.Node{der.MakeExt(gen.OIDExtAIA, false, der.Seq(gen.AD(gen.OIDAdIssuers, gen.GNURI("http://ca.example.net/r1.crt"))))}
		}},
		{"issuer alt name", func() []*der.Node {
			return []*der.Node{der.MakeExt(gen.OIDExtIAN, false, der.Seq(gen.GNDNS("ca.example.net")))}
		}},
		{"unknown critical extension", func() []*der.Node { return []*der.Node{der.MakeExt("1.2.3.4.5.6", true, der.Null())} }},
	}
}()

type crlEntries struct {
	label string
	mk    func(tu time.Time) []*der.Node
}

var crlEntryShapes = []crlEntries{
	{"two entries", func(tu time.Time) []*der.Node {
		return []*der.Node{gen.Revoked(1001, tu.Add(-time.Hour), gen.ExtReason(1)), gen.Revoked(1002, tu.Add(-2*time.Hour))}
	}},
	{"no entries", func(tu time.Time) []*der.Node { return nil }},
	{"duplicate serial", func(tu time.Time) []*der.Node {
		return []*der.Node{gen.Revoked(7, tu.Add(-time.Hour)), gen.Revoked(8, tu.Add(-time.Hour)), gen.Revoked(7, tu.Add(-3*time.Hour), gen.ExtReason(4))}
	}},
	{"every reason code", func(tu time.Time) []*der.Node {
		var out []*der.Node
		for code := int64(0); code <= 11; code++ {
			out = append(out, gen.Revoked(100+code, tu.Add(-time.Duration(code+1)*time.Hour), gen.ExtReason(code)))
		}
		return out
	}},
	{"critical reason code, invalidity date, certificate issuer", func(tu time.Time) []*der.Node {
		return []*der.Node{
			gen.Revoked(21, tu.Add(-time.Hour), der.MakeExt("2.5.29.21", true, der.Prim(der.TagEnum, []byte{1}))),
			gen.Revoked(22, tu.Add(-time.Hour), der.MakeExt("2.5.29.24", false, der.GenTime(tu.Add(-48*time.Hour)))),
			gen.Revoked(23, tu.Add(-time.Hour), der.MakeExt("2.5.29.29", true, der.Seq(gen.GNDir(gen.Name(gen.A(gen.OIDO, "Other Issuer")))))),
		}
	}},
	{"revocation after thisUpdate, serial 0, large serial", func(tu time.Time) []*der.Node {
		return []*der.Node{gen.Revoked(0, tu.Add(time.Hour)), gen.Revoked(1<<62, tu.Add(-time.Hour), gen.ExtReason(6)), gen.Revoked(-5, tu.Add(-time.Hour))}
	}},
	{"empty entry extensions", func(tu time.Time) []*der.Node {
		e := gen.Revoked(31, tu.Add(-time.Hour))
		e.Children = append(e.Children, der.Seq())
		return []*der.Node{e}
	}},
}

func crlShapeSize(c *mon.Ctx) int {
	n := len(crlThisUpdates) * len(crlLives) * len(crlExtShapes) * len(crlEntryShapes)
	return n / c.Pick(16, 1)
}

func crlShapeCase(c *mon.Ctx, k int) (*mon.Obj, string) {
	if !c.Thorough() {
		// a seeded 1/16 of the product; the lifetime x thisUpdate plane is kept complete for the plain shapes
		plane := len(crlThisUpdates) * len(crlLives)
		if k < plane {
			k = k%len(crlThisUpdates) + len(crlThisUpdates)*(k/len(crlThisUpdates))
			// ext shape cycles through the three scope shapes, entries fixed
			ti, li := k%len(crlThisUpdates), k/len(crlThisUpdates)
			return crlBuild(ti, li, (ti+li)%3, 0)
		}
		k = int((uint64(k)*2654435761 + uint64(c.Seed)*97) % uint64(len(crlThisUpdates)*len(crlLives)*len(crlExtShapes)*len(crlEntryShapes)))
	}
	ti := k % len(crlThisUpdates)
	k /= len(crlThisUpdates)
	li := k % len(crlLives)
	k /= len(crlLives)
	xi := k % len(crlExtShapes)
	k /= len(crlExtShapes)
	return crlBuild(ti, li, xi, k%len(crlEntryShapes))
}

func crlBuild(ti, li, xi, ei int) (*mon.Obj, string) {
	tu := crlThisUpdates[ti]
	s := gen.BasicCRL(tu)
	s.NextUpdate = crlLives[li].next(tu)
	s.Revoked = crlEntryShapes[ei].mk(tu)
	s.Exts = append(s.Exts, crlExtShapes[xi].exts()...)
	how := fmt.Sprintf("thisUpdate %s, %s, %s, %s", tu.Format(time.RFC3339), crlLives[li].label, crlExtShapes[xi].label, crlEntryShapes[ei].label)
	o, _ := mon.ParseObj(corpus.CRL, "gen/crlshape/"+how, s.DER())
	return o, how
}

func init() {
	dirFams = append(dirFams, dirFam{name: "crl-shapes", rank: 5, n: crlShapeSize, gen: crlShapeCase})
}
