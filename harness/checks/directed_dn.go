package checks

import (
	"fmt"
	"strings"
	"unicode/utf16"

	"verif/der"
	"verif/gen"
	"verif/mon"
)

// ---- DN-text family ----
//
// Lints that scan the text of distinguished-name attributes (HTML entities, placeholder values, blanks, control
// characters, length limits, country codes, organisation identifiers, host names in the common name ...) decide on
// shapes of TEXT, and their rarely taken paths are "near misses": text that almost has the shape. This family is
// the product  attribute type x near-miss text x string type x placement (replaces the template's value / is a
// second value of the type / sits in a multi-valued RDN / is the ISSUER's value) x template.  Quick takes two
// seeded variants per (attribute, text), thorough enumerates all.

var dnOIDs = []string{
	gen.OIDCN, gen.OIDSurname, gen.OIDSerial, gen.OIDC, gen.OIDL, gen.OIDST, gen.OIDStreet, gen.OIDO, gen.OIDOU, gen.OIDTitle,
	"2.5.4.13", gen.OIDBizCat, gen.OIDPostal, "2.5.4.41", gen.OIDGiven, "2.5.4.43", "2.5.4.44", "2.5.4.46", "2.5.4.65", gen.OIDOrgID,
	gen.OIDEmail, gen.OIDDC, "0.9.2342.19200300.100.1.1", "1.3.6.1.4.1.311.60.2.1.1", "1.3.6.1.4.1.311.60.2.1.2", gen.OIDJurC, "2.5.4.54",
}

var dnTexts = func() []string {
	t := []string{
		// entities and look-alikes
		"Ben &amp; Jerry", "Dolce &Gabbana; SpA", "R &D; Labs", "Saint &#xZZ; sur Mer", "A &#38; B", "A &#x26; B", "A &; B", "A &amp B", "A & ; B", "A&nbsp;B", "&#;", "a&b;c", "&lt;b&gt;", "AT&T", "&", ";",
		// blanks
		" Leading", "Trailing ", "  ", " ", "a  b", "\tTab", "x\n", "\u00a0nbsp", "a b", "",
		// placeholders / meta-data only
		"-", ".", "?", "*", "n/a", "N/A", "null", "NULL", "Default City", "Some-State", "Internet Widgits Pty Ltd", "Unknown", "--", "...", "-.-", "_", "x", "0",
		// control / invisible characters
		"a\x00b", "a\x1fb", "a\x7fb", "a\u0085b", "a\u200bb", "\u202eevil", "a\x1b[31mb", "a\rb", "\ufeffbom",
		// country-like
		"US", "us", "XX", "USA", "U", "ZZ", "EU", "UK", "GB", "DE", "de", "U S",
		// host-like, address-like
		"www.example.com", "*.example.com", "192.168.1.1", "10.0.0.1", "8.8.8.8", "2001:db8::1", "1.0.0.10.in-addr.arpa", "4.4.8.8.in-addr.arpa", "x.ip6.arpa", "example.onion",
		"pg6mmjiyjmcrsslvykfwnntlaru7p5svn6y2ymmju6nubxndf4pscryd.onion", "EXAMPLE.COM", "localhost", "server.local", "http://www.example.com", "https://example.com/x", "alice@example.com", "Alice <alice@example.com>",
		"xn--zz--.example.com", "xn--bcher-kva.example.com", "www.exa_mple.com", "www.example.invalidtldzz", "a..b", "www.example.com.", "com", "co.uk", "*.co.uk", "bücher.example.com",
		// organisation identifiers and near misses
		"VATDE-123456789", "NTRUS+CA-12345", "PSDES-BDE-3DFD21", "LEIXG-529900T8BM49AURSDO55", "GOVUS+CA-1", "VATXX-1", "vatde-123", "NTRDE-", "INT-XX", "VATDE123", "NTRUS+C-12345", "NTRUS+CAL-1", "VATEL-123", "VATGR-123", "LEIXG-123", "NTRGB-", "VAT-DE-1", "PSDDE-BAFIN-1", "GOVUS", "INTXG-1",
		// scripts, normalisation
		"Ünïcode", "株式会社", "école", "école", "ﬁ", "Ω", "straße", "İ", "\U0001f600",
		// numbers, punctuation
		"12345", "94105", "94105-1234", "SW1A 1AA", "00000", "+1 555 0100", "(none)", "a,b", "a=b", "a+b", "\"quoted\"", "a\\b", "#hash", "a/b",
	}
	for _, n := range []int{16, 17, 40, 41, 64, 65, 128, 129, 200, 201, 255, 256, 257} {
		t = append(t, strings.Repeat("a", n), strings.Repeat("é", n))
	}
	t = append(t, strings.Repeat("b", 32768), strings.Repeat("b", 32769), strings.Repeat("c", 64)+".example.com", "www."+strings.Repeat("d", 250)+".com")
	return t
}()

const dnPlacements = 5
const dnVariants = 4 * dnPlacements * 3 // template x placement x string type

// dnHome: the template on which the lints about an attribute type actually run (organisation identifier, given name,
// surname, e-mail: S/MIME; jurisdiction, business category, serial number: EV; everything else: TLS)
func dnHome(oid string) int {
	switch oid {
	case gen.OIDOrgID, gen.OIDGiven, gen.OIDSurname, gen.OIDEmail, "2.5.4.65", "2.5.4.12":
		return 1
	case gen.OIDJurC, "1.3.6.1.4.1.311.60.2.1.1", "1.3.6.1.4.1.311.60.2.1.2", gen.OIDBizCat, gen.OIDSerial:
		return 3
	}
	return 0
}

func dnTextSize(c *mon.Ctx) int {
	if c.Thorough() {
		return len(dnOIDs) * len(dnTexts) * dnVariants
	}
	return len(dnOIDs) * len(dnTexts) * 3
}

func printableSafe(s string) bool {
	for _, r := range s {
		switch {
		case r >= 'a' && r <= 'z', r >= 'A' && r <= 'Z', r >= '0' && r <= '9':
		case strings.ContainsRune(" '()+,-./:=?", r):
		default:
			return false
		}
	}
	return true
}

func bmpOf(s string) []byte {
	var out []byte
	for _, u := range utf16.Encode([]rune(s)) {
		out = append(out, byte(u>>8), byte(u))
	}
	return out
}

func dnTextCase(c *mon.Ctx, k int) (*mon.Obj, string) {
	oi := k % len(dnOIDs)
	k /= len(dnOIDs)
	ti := k % len(dnTexts)
	k /= len(dnTexts)
	v := k
	if !c.Thorough() {
		// three variants per (attribute, text): the attribute's home template with the text replacing the template's
		// value, the home template with the text in front of the template's value, and one seeded variant
		switch k {
		case 0:
			v = dnHome(dnOIDs[oi])
		case 1:
			v = dnHome(dnOIDs[oi]) + 4*4
		default:
			v = int(uint64(c.Seed*2654435761+int64(oi*7919+ti*104729+k*15485863)) % dnVariants)
		}
	}
	tmpl, place, st := v%4, (v/4)%dnPlacements, v/(4*dnPlacements)
	oid, text := dnOIDs[oi], dnTexts[ti]
	// string type: 0 = the usual one for the value, 1 = the other of UTF8/Printable (IA5 for e-mail, DC), 2 = BMP / T61 alternating
	a := gen.A(oid, text)
	switch st {
	case 1:
		switch a.Tag {
		case der.TagUTF8:
			a.Tag = der.TagPrintable
		case der.TagPrintable:
			a.Tag = der.TagUTF8
		default:
			a.Tag = der.TagUTF8
		}
	case 2:
		if ti%2 == 0 {
			a = gen.AT(oid, der.TagBMP, bmpOf(text))
		} else {
			a.Tag = der.TagT61
		}
	default:
		if a.Tag == der.TagUTF8 && printableSafe(text) && ti%3 == 0 {
			a.Tag = der.TagPrintable
		}
	}
	nb := gen.D(2024, 3, 1)
	var s *gen.Spec
	var base []gen.ATV
	switch tmpl {
	case 0:
		s = gen.TLSLeaf(nb, "www.example.com")
		base = []gen.ATV{gen.A(gen.OIDC, "US"), gen.A(gen.OIDST, "California"), gen.A(gen.OIDL, "San Francisco"), gen.A(gen.OIDO, "Example Org"), gen.A(gen.OIDCN, "www.example.com")}
	case 1:
		s = gen.SMIMELeaf(nb, "alice@example.com")
		s.ReplaceExt(gen.ExtPolicies("2.23.140.1.5.3.2")) // sponsor-validated multipurpose: personal and organisation attributes are both in play
		base = []gen.ATV{gen.A(gen.OIDC, "US"), gen.A(gen.OIDO, "Example Org"), gen.A(gen.OIDOrgID, "NTRUS+CA-12345"), gen.A(gen.OIDGiven, "Alice"), gen.A(gen.OIDSurname, "Example"), gen.A(gen.OIDCN, "Alice Example"), gen.A(gen.OIDEmail, "alice@example.com")}
	case 2:
		s = gen.SubCA(nb)
		base = []gen.ATV{gen.A(gen.OIDC, "US"), gen.A(gen.OIDO, "Verif Test CA Org"), gen.A(gen.OIDCN, "Verif Issuing CA R1")}
	default: // EV server certificate
		s = gen.TLSLeaf(nb, "www.example.com")
		s.ReplaceExt(gen.ExtPolicies(gen.OIDPolEV))
		base = []gen.ATV{gen.A(gen.OIDJurC, "US"), gen.A(gen.OIDBizCat, "Private Organization"), gen.A(gen.OIDSerial, "C1234567"), gen.A(gen.OIDC, "US"), gen.A(gen.OIDST, "California"), gen.A(gen.OIDL, "San Francisco"), gen.A(gen.OIDO, "Example Org"), gen.A(gen.OIDCN, "www.example.com")}
	}
	var name *der.Node
	switch place {
	case 0, 3: // replaces the template's value of that type (appended when the template has none)
		var out []gen.ATV
		done := false
		for _, b := range base {
			if b.OID == oid && !done {
				out = append(out, a)
				done = true
			} else {
				out = append(out, b)
			}
		}
		if !done {
			out = append(out, a)
		}
		name = gen.Name(out...)
	case 1: // a second value of the type, after the template's attributes
		name = gen.Name(append(append([]gen.ATV{}, base...), a)...)
	case 4: // a second value of the type, directly IN FRONT of the template's own value of that type
		var out []gen.ATV
		done := false
		for _, b := range base {
			if b.OID == oid && !done {
				out = append(out, a)
				done = true
			}
			out = append(out, b)
		}
		if !done {
			out = append([]gen.ATV{a}, out...)
		}
		name = gen.Name(out...)
	default: // in one multi-valued RDN with the last template attribute
		var rdns [][]gen.ATV
		for i, b := range base {
			if i == len(base)-1 {
				rdns = append(rdns, []gen.ATV{b, a})
			} else {
				rdns = append(rdns, []gen.ATV{b})
			}
		}
		name = gen.NameRDNs(rdns...)
	}
	if place == 3 {
		s.Issuer = name // the text sits in the ISSUER name
	} else {
		s.Subject = name
	}
	o, _ := mon.ParseObj(0, fmt.Sprintf("gen/dntext/%s/%d", oid, ti), s.DER())
	return o, fmt.Sprintf("attribute %s text #%d %q template %d placement %d string-type %d", oid, ti, clipS(text, 40), tmpl, place, st)
}

func init() {
	dirFams = append(dirFams, dirFam{
		name: "dn-text", rank: 1,
		n:   dnTextSize,
		gen: dnTextCase,
	})
}
