package checks

import (
	"fmt"

	"verif/corpus"
	"verif/gen"
	"verif/mon"
)

// ---- subject attribute values under every tag number ----
//
// The value of a subject attribute is "a string"; which universal tag it carries is up to the issuer. Lints that name
// or classify the encoding index tables by tag NUMBER. Family: each of the 27 attribute types with a value tagged with
// every universal tag number 0..33, then 63, 127, 128, 255 and 16383 (from 31 on the identifier uses the
// high-tag-number form, `1F 1F` for 31), next to an ordinary organisation attribute; TLS subscriber template dated
// after every effective date. The parser keeps values it cannot decode as raw attributes, so most of these are accepted.

var dnTagNumbers = func() []int {
	var out []int
	for t := 0; t <= 33; t++ {
		out = append(out, t)
	}
	return append(out, 63, 127, 128, 255, 16383)
}()

func dnTagSize(c *mon.Ctx) int { return len(dnOIDs) * len(dnTagNumbers) }

func dnTagCase(c *mon.Ctx, k int) (*mon.Obj, string) {
	oid := dnOIDs[k%len(dnOIDs)]
	tag := dnTagNumbers[k/len(dnOIDs)%len(dnTagNumbers)]
	s := gen.TLSLeaf(gen.D(2024, 3, 1), "www.example.com")
	val := []byte("Example")
	if oid == gen.OIDC || oid == gen.OIDJurC {
		val = []byte("US")
	}
	attrs := []gen.ATV{gen.A(gen.OIDC, "US"), gen.A(gen.OIDO, "Example Org"), gen.AT(oid, tag, val), gen.A(gen.OIDCN, "www.example.com")}
	if oid == gen.OIDC {
		attrs = attrs[1:]
	}
	s.Subject = gen.Name(attrs...)
	how := fmt.Sprintf("subject attribute %s with a value under universal tag number %d", oid, tag)
	var o *mon.Obj
	func() {
		defer func() { _ = recover() }() // a tag number the tree writer cannot encode: no such member
		o, _ = mon.ParseObj(corpus.Cert, "gen/dntag/"+how, s.DER())
	}()
	return o, how
}

func init() {
	dirFams = append(dirFams, dirFam{name: "dn-value-tags", rank: 13, n: dnTagSize, gen: dnTagCase})
}
