package checks

import (
	"fmt"
	"strings"
	"time"
	"verif/corpus"

	"verif/der"
	"verif/gen"
	"verif/mon"
)

// ---- extension-shape family ----
//
// Extensions whose payload the lints decode THEMSELVES (QC statements, certificate-policy qualifiers, authority key
// identifier, CRL distribution points, the LEI extensions) in every legal and near-legal shape, on the templates in
// whose scope the lints run. Blind mutation of the few corpus certificates that carry such extensions reaches
// these decoders only shallowly; this family enumerates the shapes (found with bin/reach: the statement-coverage
// report of the union workload listed their return paths as never executed).

type extShape struct {
	label string
	exts  func() []*der.Node // extensions added to (or replacing those of) the template
}

const (
	oidQcCompliance = "0.4.0.1862.1.1"
	oidQcLimit      = "0.4.0.1862.1.2"
	oidQcRetention  = "0.4.0.1862.1.3"
	oidQcSSCD       = "0.4.0.1862.1.4"
	oidQcPDS        = "0.4.0.1862.1.5"
	oidQcType       = "0.4.0.1862.1.6"
	oidQcLegisl     = "0.4.0.1862.1.7"
	oidPSD2         = "0.4.0.19495.2"
	oidQcSyntaxV2   = "1.3.6.1.5.5.7.11.2"
	oidCPS          = "1.3.6.1.5.5.7.2.1"
	oidUNotice      = "1.3.6.1.5.5.7.2.2"
	oidLEI          = "1.3.6.1.4.1.52266.1"
	oidLEIRole      = "1.3.6.1.4.1.52266.2"
	oidFreshestCRL  = "2.5.29.46"
)

func qcExt(stmts ...*der.Node) []*der.Node {
	return []*der.Node{der.MakeExt(gen.OIDExtQC, false, der.Seq(stmts...))}
}

func qcStmt(oid string, info ...*der.Node) *der.Node {
	return der.Seq(append([]*der.Node{der.OID(oid)}, info...)...)
}

func polExt(infos ...*der.Node) []*der.Node {
	return []*der.Node{der.MakeExt(gen.OIDExtPol, false, der.Seq(infos...))}
}

func polInfo(oid string, quals ...*der.Node) *der.Node {
	if len(quals) == 0 {
		return der.Seq(der.OID(oid))
	}
	return der.Seq(der.OID(oid), der.Seq(quals...))
}

func userNotice(noticeRef *der.Node, text *der.Node) *der.Node {
	n := der.Seq()
	if noticeRef != nil {
		n.Children = append(n.Children, noticeRef)
	}
	if text != nil {
		n.Children = append(n.Children, text)
	}
	return der.Seq(der.OID(oidUNotice), n)
}

var extShapes = func() []extShape {
	var out []extShape
	add := func(label string, f func() []*der.Node) { out = append(out, extShape{label, f}) }
	P := func(s string) *der.Node { return der.Str(der.TagPrintable, s) }
	I := func(s string) *der.Node { return der.Str(der.TagIA5, s) }
	U := func(s string) *der.Node { return der.Str(der.TagUTF8, s) }

	// --- QC statements ---
	add("qc compliance only", func() []*der.Node { return qcExt(qcStmt(oidQcCompliance)) })
	add("qc compliance with unexpected info", func() []*der.Node { return qcExt(qcStmt(oidQcCompliance, der.Null())) })
	add("qc sscd", func() []*der.Node { return qcExt(qcStmt(oidQcCompliance), qcStmt(oidQcSSCD)) })
	add("qc sscd with info", func() []*der.Node { return qcExt(qcStmt(oidQcSSCD, der.Int64(1))) })
	for _, cur := range []struct {
		l string
		n *der.Node
	}{{"EUR", P("EUR")}, {"eur", P("eur")}, {"EURO", P("EURO")}, {"EU", P("EU")}, {"E1R", P("E1R")}, {"utf8 EUR", U("EUR")}, {"978", der.Int64(978)}, {"0", der.Int64(0)}, {"1", der.Int64(1)}, {"999", der.Int64(999)}, {"1000", der.Int64(1000)}, {"-5", der.Int64(-5)}} {
		cur := cur
		for _, ae := range [][2]int64{{100, 3}, {0, 0}, {-1, 2}, {5, -2}} {
			ae := ae
			add(fmt.Sprintf("qc limit value %s amount %d exponent %d", cur.l, ae[0], ae[1]), func() []*der.Node {
				return qcExt(qcStmt(oidQcCompliance), qcStmt(oidQcLimit, der.Seq(cur.n.Clone(), der.Int64(ae[0]), der.Int64(ae[1]))))
			})
		}
	}
	add("qc limit value not a sequence", func() []*der.Node { return qcExt(qcStmt(oidQcLimit, der.Int64(5))) })
	add("qc limit value empty sequence", func() []*der.Node { return qcExt(qcStmt(oidQcLimit, der.Seq())) })
	add("qc limit value without info", func() []*der.Node { return qcExt(qcStmt(oidQcLimit)) })
	for _, v := range []int64{0, 1, 10, -1, 1 << 40} {
		v := v
		add(fmt.Sprintf("qc retention period %d", v), func() []*der.Node { return qcExt(qcStmt(oidQcRetention, der.Int64(v))) })
	}
	add("qc retention period as string", func() []*der.Node { return qcExt(qcStmt(oidQcRetention, P("10"))) })
	add("qc retention period without info", func() []*der.Node { return qcExt(qcStmt(oidQcRetention)) })
	for _, pds := range []struct {
		l    string
		locs [][2]string
	}{{"https en", [][2]string{{"https://pds.example.com/en", "en"}}}, {"http en", [][2]string{{"http://pds.example.com/en", "en"}}}, {"https EN", [][2]string{{"https://pds.example.com/en", "EN"}}},
		{"https eng", [][2]string{{"https://pds.example.com/en", "eng"}}}, {"https e", [][2]string{{"https://pds.example.com/en", "e"}}}, {"two languages", [][2]string{{"https://pds.example.com/en", "en"}, {"https://pds.example.com/de", "DE"}}},
		{"same language twice", [][2]string{{"https://pds.example.com/en", "en"}, {"https://pds.example.com/en2", "en"}}}, {"empty url", [][2]string{{"", "en"}}}, {"ftp", [][2]string{{"ftp://pds.example.com/en", "en"}}}, {"empty list", nil}} {
		pds := pds
		add("qc pds "+pds.l, func() []*der.Node {
			l := der.Seq()
			for _, x := range pds.locs {
				l.Children = append(l.Children, der.Seq(I(x[0]), P(x[1])))
			}
			return qcExt(qcStmt(oidQcCompliance), qcStmt(oidQcPDS, l))
		})
	}
	add("qc pds language as utf8", func() []*der.Node {
		return qcExt(qcStmt(oidQcPDS, der.Seq(der.Seq(I("https://pds.example.com/en"), U("en")))))
	})
	add("qc pds entry without language", func() []*der.Node { return qcExt(qcStmt(oidQcPDS, der.Seq(der.Seq(I("https://pds.example.com/en"))))) })
	add("qc pds not a sequence", func() []*der.Node { return qcExt(qcStmt(oidQcPDS, I("https://pds.example.com/en"))) })
	add("qc pds without info", func() []*der.Node { return qcExt(qcStmt(oidQcPDS)) })
	for _, ty := range [][]string{{oidQcType + ".1"}, {oidQcType + ".2"}, {oidQcType + ".3"}, {oidQcType + ".1", oidQcType + ".2"}, {oidQcType + ".3", oidQcType + ".1"}, {oidQcType + ".4"}, {"1.2.3.4"}, {}} {
		ty := ty
		add(fmt.Sprintf("qc type %v", ty), func() []*der.Node {
			l := der.Seq()
			for _, o := range ty {
				l.Children = append(l.Children, der.OID(o))
			}
			return qcExt(qcStmt(oidQcCompliance), qcStmt(oidQcType, l))
		})
	}
	// the same QC types on a DUAL-USE certificate - serverAuth and emailProtection in one extKeyUsage, an S/MIME policy
	// next to the template's own, a dNSName and an rfc822Name - where the rules for web and for e-mail certificates meet
	for _, ty := range [][]string{{oidQcType + ".1"}, {oidQcType + ".2"}, {oidQcType + ".3"}, {oidQcType + ".1", oidQcType + ".2"}, {oidQcType + ".3", oidQcType + ".1"}, {}} {
		ty := ty
		for _, pol := range []string{"2.23.140.1.5.1.1", "2.23.140.1.5.3.2"} {
			pol := pol
			add(fmt.Sprintf("qc type %v on a dual-use certificate (serverAuth + emailProtection, policy %s)", ty, pol), func() []*der.Node {
				l := der.Seq()
				for _, o := range ty {
					l.Children = append(l.Children, der.OID(o))
				}
				return append(qcExt(qcStmt(oidQcCompliance), qcStmt(oidQcType, l)),
					gen.ExtEKU(false, gen.OIDEkuServer, gen.OIDEkuEmail),
					gen.ExtPolicies(pol),
					gen.ExtSAN(false, gen.GNDNS("www.example.com"), gen.GNEmail("alice@example.com")))
			})
		}
	}
	add("qc type not a sequence", func() []*der.Node { return qcExt(qcStmt(oidQcType, der.OID(oidQcType+".3"))) })
	add("qc type without info", func() []*der.Node { return qcExt(qcStmt(oidQcType)) })
	add("qc type without compliance", func() []*der.Node { return qcExt(qcStmt(oidQcType, der.Seq(der.OID(oidQcType+".3")))) })
	for _, cc := range [][]string{{"DE"}, {"de"}, {"DEU"}, {"DE", "FR"}, {}} {
		cc := cc
		add(fmt.Sprintf("qc legislation %v", cc), func() []*der.Node {
			l := der.Seq()
			for _, x := range cc {
				l.Children = append(l.Children, P(x))
			}
			return qcExt(qcStmt(oidQcCompliance), qcStmt(oidQcLegisl, l))
		})
	}
	add("qc psd2", func() []*der.Node {
		return qcExt(qcStmt(oidQcCompliance), qcStmt(oidPSD2, der.Seq(der.Seq(der.Seq(der.OID("0.4.0.19495.1.1"), U("PSP_AS"))), U("Example NCA"), U("XX-EXNCA"))))
	})
	add("qc psd2 empty roles", func() []*der.Node { return qcExt(qcStmt(oidPSD2, der.Seq(der.Seq(), U("Example NCA"), U("XX-EXNCA")))) })
	add("qc psd2 wrong shape", func() []*der.Node { return qcExt(qcStmt(oidPSD2, U("PSP_AS"))) })
	add("qc syntax v2 with semantics", func() []*der.Node {
		return qcExt(qcStmt(oidQcSyntaxV2, der.Seq(der.OID("0.4.0.194121.1.2"))), qcStmt(oidQcCompliance))
	})
	add("qc syntax v2 with name registration authorities", func() []*der.Node {
		return qcExt(qcStmt(oidQcSyntaxV2, der.Seq(der.OID("0.4.0.194121.1.1"), der.Seq(gen.GNURI("https://nra.example.com")))))
	})
	add("qc syntax v2 empty", func() []*der.Node { return qcExt(qcStmt(oidQcSyntaxV2, der.Seq())) })
	add("qc empty statement list", func() []*der.Node { return qcExt() })
	add("qc statement without id", func() []*der.Node { return qcExt(der.Seq()) })
	add("qc statement id not an oid", func() []*der.Node { return qcExt(der.Seq(der.Int64(1))) })
	add("qc unknown statement", func() []*der.Node { return qcExt(qcStmt("1.2.3.4.5", U("x"))) })
	add("qc every statement", func() []*der.Node {
		return qcExt(qcStmt(oidQcCompliance), qcStmt(oidQcLimit, der.Seq(P("EUR"), der.Int64(1), der.Int64(6))), qcStmt(oidQcRetention, der.Int64(10)), qcStmt(oidQcSSCD),
			qcStmt(oidQcPDS, der.Seq(der.Seq(I("https://pds.example.com/en"), P("en")))), qcStmt(oidQcType, der.Seq(der.OID(oidQcType+".3"))), qcStmt(oidQcLegisl, der.Seq(P("DE"))))
	})
	for _, dup := range []string{oidQcCompliance, oidQcSSCD} {
		dup := dup
		add("qc duplicated statement "+dup, func() []*der.Node { return qcExt(qcStmt(dup), qcStmt(dup)) })
	}
	add("qc duplicated limit value", func() []*der.Node {
		lv := func() *der.Node { return qcStmt(oidQcLimit, der.Seq(P("EUR"), der.Int64(1), der.Int64(6))) }
		return qcExt(lv(), lv())
	})
	add("qc duplicated pds", func() []*der.Node {
		p := func() *der.Node { return qcStmt(oidQcPDS, der.Seq(der.Seq(I("https://pds.example.com/en"), P("en")))) }
		return qcExt(p(), p())
	})
	add("qc duplicated type", func() []*der.Node {
		p := func() *der.Node { return qcStmt(oidQcType, der.Seq(der.OID(oidQcType+".3"))) }
		return qcExt(qcStmt(oidQcCompliance), p(), p())
	})
	add("qc duplicated retention", func() []*der.Node {
		return qcExt(qcStmt(oidQcRetention, der.Int64(10)), qcStmt(oidQcRetention, der.Int64(10)))
	})
	// the same statement twice with DIFFERENT content, in both orders: which occurrence a lint judges must not depend
	// on what else looked at the extension before
	type twice struct {
		l    string
		a, b func() *der.Node
	}
	for _, tw := range []twice{
		{"type esign/web", func() *der.Node { return qcStmt(oidQcType, der.Seq(der.OID(oidQcType+".1"))) }, func() *der.Node { return qcStmt(oidQcType, der.Seq(der.OID(oidQcType+".3"))) }},
		{"type web/unknown", func() *der.Node { return qcStmt(oidQcType, der.Seq(der.OID(oidQcType+".3"))) }, func() *der.Node { return qcStmt(oidQcType, der.Seq(der.OID("1.2.3.4"))) }},
		{"type eseal/empty", func() *der.Node { return qcStmt(oidQcType, der.Seq(der.OID(oidQcType+".2"))) }, func() *der.Node { return qcStmt(oidQcType, der.Seq()) }},
		{"limit EUR/eur", func() *der.Node { return qcStmt(oidQcLimit, der.Seq(P("EUR"), der.Int64(1), der.Int64(6))) }, func() *der.Node { return qcStmt(oidQcLimit, der.Seq(P("eur"), der.Int64(-1), der.Int64(2))) }},
		{"limit EUR/978", func() *der.Node { return qcStmt(oidQcLimit, der.Seq(P("EUR"), der.Int64(10), der.Int64(3))) }, func() *der.Node { return qcStmt(oidQcLimit, der.Seq(der.Int64(978), der.Int64(0), der.Int64(0))) }},
		{"retention 10/-1", func() *der.Node { return qcStmt(oidQcRetention, der.Int64(10)) }, func() *der.Node { return qcStmt(oidQcRetention, der.Int64(-1)) }},
		{"pds https en/http EN", func() *der.Node { return qcStmt(oidQcPDS, der.Seq(der.Seq(I("https://pds.example.com/en"), P("en")))) }, func() *der.Node { return qcStmt(oidQcPDS, der.Seq(der.Seq(I("http://pds.example.com/en"), P("EN")))) }},
		{"legislation DE/xx", func() *der.Node { return qcStmt(oidQcLegisl, der.Seq(P("DE"))) }, func() *der.Node { return qcStmt(oidQcLegisl, der.Seq(P("xx"), P("D"))) }},
		{"compliance plain/with info", func() *der.Node { return qcStmt(oidQcCompliance) }, func() *der.Node { return qcStmt(oidQcCompliance, der.Null()) }},
		{"sscd plain/with info", func() *der.Node { return qcStmt(oidQcSSCD) }, func() *der.Node { return qcStmt(oidQcSSCD, der.Int64(1)) }},
	} {
		tw := tw
		add("qc repeated statement "+tw.l, func() []*der.Node { return qcExt(qcStmt(oidQcCompliance), tw.a(), tw.b()) })
		add("qc repeated statement (reversed) "+tw.l, func() []*der.Node { return qcExt(qcStmt(oidQcCompliance), tw.b(), tw.a()) })
		add("qc repeated statement around others "+tw.l, func() []*der.Node {
			return qcExt(tw.a(), qcStmt(oidQcCompliance), qcStmt(oidQcRetention, der.Int64(7)), tw.b())
		})
	}
	add("qc good then malformed pds", func() []*der.Node {
		return qcExt(qcStmt(oidQcPDS, der.Seq(der.Seq(I("https://pds.example.com/en"), P("en")))), qcStmt(oidQcPDS, I("x")))
	})

	// --- certificate policies with qualifiers ---
	texts := []struct {
		l string
		n *der.Node
	}{{"utf8", U("Issued under the Example CPS")}, {"ia5", I("Issued under the Example CPS")}, {"visible", der.Str(der.TagVisible, "Issued under the Example CPS")}, {"bmp", der.Prim(der.TagBMP, bmpOf("Issued under the Example CPS"))},
		{"utf8 200", U(strings.Repeat("t", 200))}, {"utf8 201", U(strings.Repeat("t", 201))}, {"utf8 200 two-byte", U(strings.Repeat("é", 200))}, {"bmp 201", der.Prim(der.TagBMP, bmpOf(strings.Repeat("t", 201)))},
		{"utf8 control", U("line\x07bell\x1funit")}, {"utf8 c1 control", U("a\u0085b\u009fc")}, {"utf8 not nfc", U("école")}, {"utf8 nfc", U("école")}, {"utf8 empty", U("")}, {"utf8 lone lead byte", der.Prim(der.TagUTF8, []byte("abc\xc2"))},
		{"utf8 truncated 3-byte", der.Prim(der.TagUTF8, []byte("abc\xe2\x82"))}, {"utf8 truncated 4-byte", der.Prim(der.TagUTF8, []byte("abc\xf0\x9f\x98"))}, {"printable", P("Issued under the Example CPS")},
		{"bmp ending in a high surrogate", der.Prim(der.TagBMP, []byte{0, 'H', 0, 'i', 0xd8, 0x3d})}, {"bmp ending in a low surrogate", der.Prim(der.TagBMP, []byte{0, 'H', 0, 'i', 0xde, 0x00})},
		{"bmp lone surrogate in the middle", der.Prim(der.TagBMP, []byte{0, 'H', 0xd8, 0x3d, 0, 'i'})}, {"bmp complete surrogate pair", der.Prim(der.TagBMP, []byte{0, 'H', 0xd8, 0x3d, 0xde, 0x00})},
		{"bmp only a high surrogate", der.Prim(der.TagBMP, []byte{0xdb, 0xff})}, {"bmp odd length", der.Prim(der.TagBMP, []byte{0, 'H', 0})}, {"bmp empty", der.Prim(der.TagBMP, nil)},
		{"bmp control", der.Prim(der.TagBMP, []byte{0, 'a', 0, 7, 0, 0x85, 0, 'b'})}, {"bmp ffff fffe", der.Prim(der.TagBMP, []byte{0xff, 0xff, 0xff, 0xfe, 0, 0})},
		{"visible control", der.Str(der.TagVisible, "a\x07b")}, {"ia5 control", I("a\x1fb\x7f")}, {"utf8 4 KiB", U(strings.Repeat("long text ", 420))}}
	for _, pol := range []string{gen.OIDPolOV, gen.OIDPolAny, "1.3.6.1.4.1.55555.1.1"} {
		pol := pol
		for _, t := range texts {
			t := t
			add("policy "+pol+" explicitText "+t.l, func() []*der.Node { return polExt(polInfo(pol, userNotice(nil, t.n.Clone())), polInfo(gen.OIDPolDV)) })
		}
	}
	add("policy noticeRef with organization", func() []*der.Node {
		return polExt(polInfo(gen.OIDPolOV, userNotice(der.Seq(U("Example Org"), der.Seq(der.Int64(1), der.Int64(2))), U("text"))))
	})
	add("policy noticeRef with empty organization", func() []*der.Node {
		return polExt(polInfo(gen.OIDPolOV, userNotice(der.Seq(U(""), der.Seq()), nil)))
	})
	add("policy noticeRef with organization and no numbers", func() []*der.Node {
		return polExt(polInfo(gen.OIDPolOV, userNotice(der.Seq(U("Example Org"), der.Seq()), nil)))
	})
	add("policy noticeRef only", func() []*der.Node {
		return polExt(polInfo(gen.OIDPolOV, userNotice(der.Seq(I("Example Org"), der.Seq(der.Int64(1))), nil)))
	})
	add("policy empty user notice", func() []*der.Node { return polExt(polInfo(gen.OIDPolOV, userNotice(nil, nil))) })
	for _, cps := range []struct {
		l string
		n *der.Node
	}{{"ia5 http", I("http://cps.example.com")}, {"ia5 https", I("https://cps.example.com/cps")}, {"utf8", U("https://cps.example.com/cps")}, {"ia5 empty", I("")}, {"ia5 not a url", I("see our website")}, {"ia5 ldap", I("ldap://cps.example.com")}} {
		cps := cps
		add("policy cps "+cps.l, func() []*der.Node { return polExt(polInfo(gen.OIDPolOV, der.Seq(der.OID(oidCPS), cps.n.Clone()))) })
		add("anyPolicy cps "+cps.l, func() []*der.Node {
			return polExt(polInfo(gen.OIDPolAny, der.Seq(der.OID(oidCPS), cps.n.Clone())), polInfo(gen.OIDPolOV))
		})
	}
	add("anyPolicy with unknown qualifier", func() []*der.Node {
		return polExt(polInfo(gen.OIDPolAny, der.Seq(der.OID("1.3.6.1.5.5.7.2.3"), U("x"))), polInfo(gen.OIDPolOV))
	})
	add("policy with unknown qualifier", func() []*der.Node { return polExt(polInfo(gen.OIDPolOV, der.Seq(der.OID("1.2.3.4"), der.Int64(1)))) })
	add("policy qualifier without value", func() []*der.Node { return polExt(polInfo(gen.OIDPolOV, der.Seq(der.OID(oidCPS)))) })
	add("policy duplicated", func() []*der.Node { return polExt(polInfo(gen.OIDPolOV), polInfo(gen.OIDPolOV)) })
	add("policy duplicated with qualifiers", func() []*der.Node {
		return polExt(polInfo(gen.OIDPolOV, der.Seq(der.OID(oidCPS), I("http://cps.example.com"))), polInfo(gen.OIDPolDV), polInfo(gen.OIDPolOV))
	})
	add("policy empty list", func() []*der.Node { return polExt() })
	add("policy two user notices", func() []*der.Node {
		return polExt(polInfo(gen.OIDPolOV, userNotice(nil, U("one")), userNotice(nil, der.Prim(der.TagBMP, bmpOf("two")))))
	})
	add("policies critical", func() []*der.Node {
		return []*der.Node{der.MakeExt(gen.OIDExtPol, true, der.Seq(polInfo(gen.OIDPolOV)))}
	})

	// --- authority key identifier shapes ---
	kid := []byte{1, 2, 3, 4, 5, 6, 7, 8, 9, 10, 11, 12, 13, 14, 15, 16, 17, 18, 19, 20}
	dirName := func() *der.Node {
		return der.Ctx(1, gen.GNDir(gen.Name(gen.A(gen.OIDC, "US"), gen.A(gen.OIDO, "Verif Test CA Org"))))
	}
	add("aki key id only", func() []*der.Node {
		return []*der.Node{der.MakeExt(gen.OIDExtAKI, false, der.Seq(der.CtxPrim(0, kid)))}
	})
	add("aki critical", func() []*der.Node { return []*der.Node{der.MakeExt(gen.OIDExtAKI, true, der.Seq(der.CtxPrim(0, kid)))} })
	add("aki key id + issuer + serial", func() []*der.Node {
		return []*der.Node{der.MakeExt(gen.OIDExtAKI, false, der.Seq(der.CtxPrim(0, kid), dirName(), der.CtxPrim(2, []byte{0x12, 0x34})))}
	})
	add("aki issuer + serial only", func() []*der.Node {
		return []*der.Node{der.MakeExt(gen.OIDExtAKI, false, der.Seq(dirName(), der.CtxPrim(2, []byte{0x12, 0x34})))}
	})
	add("aki key id + serial", func() []*der.Node {
		return []*der.Node{der.MakeExt(gen.OIDExtAKI, false, der.Seq(der.CtxPrim(0, kid), der.CtxPrim(2, []byte{1})))}
	})
	add("aki empty sequence", func() []*der.Node { return []*der.Node{der.MakeExt(gen.OIDExtAKI, false, der.Seq())} })
	add("aki empty key id", func() []*der.Node {
		return []*der.Node{der.MakeExt(gen.OIDExtAKI, false, der.Seq(der.CtxPrim(0, nil)))}
	})
	add("aki absent", func() []*der.Node { return []*der.Node{nil, der.OID(gen.OIDExtAKI)} })

	// --- CRL distribution points ---
	dp := func(parts ...*der.Node) *der.Node { return der.Seq(parts...) }
	full := func(gns ...*der.Node) *der.Node { return der.Ctx(0, der.Ctx(0, gns...)) }
	add("crldp http", func() []*der.Node {
		return []*der.Node{der.MakeExt(gen.OIDExtCRLDP, false, der.Seq(dp(full(gen.GNURI("http://crl.example.net/r1.crl")))))}
	})
	add("crldp https", func() []*der.Node {
		return []*der.Node{der.MakeExt(gen.OIDExtCRLDP, false, der.Seq(dp(full(gen.GNURI("https://crl.example.net/r1.crl")))))}
	})
	add("crldp ldap only", func() []*der.Node {
		return []*der.Node{der.MakeExt(gen.OIDExtCRLDP, false, der.Seq(dp(full(gen.GNURI("ldap://ldap.example.net/cn=crl")))))}
	})
	add("crldp ldap and http", func() []*der.Node {
		return []*der.Node{der.MakeExt(gen.OIDExtCRLDP, false, der.Seq(dp(full(gen.GNURI("ldap://ldap.example.net/cn=crl"), gen.GNURI("http://crl.example.net/r1.crl")))))}
	})
	add("crldp two points", func() []*der.Node {
		return []*der.Node{der.MakeExt(gen.OIDExtCRLDP, false, der.Seq(dp(full(gen.GNURI("http://crl.example.net/r1.crl"))), dp(full(gen.GNURI("ftp://crl.example.net/r1.crl")))))}
	})
	add("crldp with reasons", func() []*der.Node {
		return []*der.Node{der.MakeExt(gen.OIDExtCRLDP, false, der.Seq(dp(full(gen.GNURI("http://crl.example.net/r1.crl")), der.CtxPrim(1, []byte{1, 0x60}))))}
	})
	add("crldp reasons only", func() []*der.Node {
		return []*der.Node{der.MakeExt(gen.OIDExtCRLDP, false, der.Seq(dp(der.CtxPrim(1, []byte{1, 0x60}))))}
	})
	add("crldp with crl issuer", func() []*der.Node {
		return []*der.Node{der.MakeExt(gen.OIDExtCRLDP, false, der.Seq(dp(full(gen.GNURI("http://crl.example.net/r1.crl")), der.Ctx(2, gen.GNDir(gen.Name(gen.A(gen.OIDO, "Other CRL Issuer")))))))}
	})
	add("crldp crl issuer only", func() []*der.Node {
		return []*der.Node{der.MakeExt(gen.OIDExtCRLDP, false, der.Seq(dp(der.Ctx(2, gen.GNDir(gen.Name(gen.A(gen.OIDO, "Other CRL Issuer")))))))}
	})
	add("crldp relative name", func() []*der.Node {
		return []*der.Node{der.MakeExt(gen.OIDExtCRLDP, false, der.Seq(dp(der.Ctx(0, der.Ctx(1, der.Seq(der.OID(gen.OIDCN), U("crl1")))))))}
	})
	add("crldp empty point", func() []*der.Node { return []*der.Node{der.MakeExt(gen.OIDExtCRLDP, false, der.Seq(dp()))} })
	add("crldp empty list", func() []*der.Node { return []*der.Node{der.MakeExt(gen.OIDExtCRLDP, false, der.Seq())} })
	add("crldp critical", func() []*der.Node {
		return []*der.Node{der.MakeExt(gen.OIDExtCRLDP, true, der.Seq(dp(full(gen.GNURI("http://crl.example.net/r1.crl")))))}
	})
	add("crldp directory name", func() []*der.Node {
		return []*der.Node{der.MakeExt(gen.OIDExtCRLDP, false, der.Seq(dp(full(gen.GNDir(gen.Name(gen.A(gen.OIDCN, "CRL1")))))))}
	})
	add("crldp absent", func() []*der.Node { return []*der.Node{nil, der.OID(gen.OIDExtCRLDP)} })
	add("freshest crl", func() []*der.Node {
		return []*der.Node{der.MakeExt(oidFreshestCRL, false, der.Seq(dp(full(gen.GNURI("http://crl.example.net/delta.crl")))))}
	})
	add("freshest crl critical", func() []*der.Node {
		return []*der.Node{der.MakeExt(oidFreshestCRL, true, der.Seq(dp(full(gen.GNURI("http://crl.example.net/delta.crl")))))}
	})

	// --- LEI extensions ---
	add("lei", func() []*der.Node { return []*der.Node{der.MakeExt(oidLEI, false, P("529900T8BM49AURSDO55"))} })
	add("lei critical", func() []*der.Node { return []*der.Node{der.MakeExt(oidLEI, true, P("529900T8BM49AURSDO55"))} })
	add("lei + role", func() []*der.Node {
		return []*der.Node{der.MakeExt(oidLEI, false, P("529900T8BM49AURSDO55")), der.MakeExt(oidLEIRole, false, P("CEO"))}
	})
	add("lei + critical role", func() []*der.Node {
		return []*der.Node{der.MakeExt(oidLEI, false, P("529900T8BM49AURSDO55")), der.MakeExt(oidLEIRole, true, P("CEO"))}
	})
	add("lei role only", func() []*der.Node { return []*der.Node{der.MakeExt(oidLEIRole, false, P("CEO"))} })
	return out
}()

// templates the shapes are put on: TLS OV, EV (2017 and 2024), each of the twelve S/MIME policies (rotating), code
// signing, sub-CA
const extTemplates = 8

func extShapeSize(c *mon.Ctx) int { return len(extShapes) * c.Pick(3, extTemplates) }

func extShapeCase(c *mon.Ctx, k int) (*mon.Obj, string) {
	sh := extShapes[k%len(extShapes)]
	t := k / len(extShapes)
	if !c.Thorough() {
		t = (t*3 + k + int(c.Seed)) % extTemplates
	}
	nb := gen.D(2024, 3, 1)
	var s *gen.Spec
	var tl string
	switch t {
	case 0:
		s, tl = gen.TLSLeaf(nb, "www.example.com"), "tls-ov"
	case 1:
		s, tl = gen.TLSLeaf(gen.D(2017, 3, 1), "www.example.com"), "tls-ev-2017"
		s.ReplaceExt(gen.ExtPolicies(gen.OIDPolEV))
	case 2:
		s, tl = gen.TLSLeaf(nb, "www.example.com"), "tls-ev-2024"
		s.ReplaceExt(gen.ExtPolicies(gen.OIDPolEV))
		s.Subject = gen.Name(gen.A(gen.OIDJurC, "US"), gen.A(gen.OIDBizCat, "Private Organization"), gen.A(gen.OIDSerial, "C1234567"), gen.A(gen.OIDC, "US"), gen.A(gen.OIDST, "California"), gen.A(gen.OIDL, "San Francisco"), gen.A(gen.OIDO, "Example Org"), gen.A(gen.OIDCN, "www.example.com"))
	case 3, 4, 5:
		pol := fmt.Sprintf("2.23.140.1.5.%d.%d", 1+(k+t)%4, 1+(k/3+t)%3)
		s, tl = gen.SMIMELeaf(nb, "alice@example.com"), "smime "+pol
		s.ReplaceExt(gen.ExtPolicies(pol))
		if (k+t)%4 != 0 {
			s.Subject = gen.Name(gen.A(gen.OIDC, "US"), gen.A(gen.OIDO, "Example Org"), gen.A(gen.OIDOrgID, "NTRUS+CA-12345"), gen.A(gen.OIDGiven, "Alice"), gen.A(gen.OIDSurname, "Example"), gen.A(gen.OIDCN, "Alice Example"), gen.A(gen.OIDEmail, "alice@example.com"))
		}
	case 6:
		s, tl = gen.CSLeaf(nb), "code-signing"
	default:
		s, tl = gen.SubCA(nb), "sub-ca"
	}
	exts := sh.exts()
	for i := 0; i < len(exts); i++ {
		if exts[i] == nil && i+1 < len(exts) { // (nil, OID): remove that extension
			s.RemoveExt(exts[i+1].OIDString())
			i++
			continue
		}
		// a policies shape on a template keeps the template's scope policy alongside
		if der.ExtOID(exts[i]) == gen.OIDExtPol && t >= 1 && t <= 6 {
			if old := tmplPolicy(s); old != "" {
				if v := der.ExtValue(exts[i]); v != nil && v.Wrapped != nil {
					v.Wrapped.Children = append(v.Wrapped.Children, der.Seq(der.OID(old)))
				}
			}
		}
		s.ReplaceExt(exts[i])
	}
	o, _ := mon.ParseObj(0, "gen/extshape/"+sh.label+"/"+tl, s.DER())
	return o, sh.label + " on " + tl
}

// tmplPolicy returns the first policy OID of the template's certificatePolicies extension.
func tmplPolicy(s *gen.Spec) string {
	for _, e := range s.Exts {
		if der.ExtOID(e) == gen.OIDExtPol {
			if v := der.ExtValue(e); v != nil && v.Wrapped != nil && len(v.Wrapped.Children) > 0 && len(v.Wrapped.Children[0].Children) > 0 {
				return v.Wrapped.Children[0].Children[0].OIDString()
			}
		}
	}
	return ""
}

func init() {
	dirFams = append(dirFams, dirFam{name: "ext-shapes", rank: 4, n: extShapeSize, gen: extShapeCase})
}

// ---- Tor service descriptor shapes ----

type torShape struct {
	label string
	names []string
	ext   func() *der.Node // nil = no extension
}

func torHash(uri, algOID string, hashLen int, i int) *der.Node {
	hash := make([]byte, hashLen)
	for k := range hash {
		hash[k] = byte(k*7 + i)
	}
	return der.Seq(der.Str(der.TagUTF8, uri), der.Seq(der.OID(algOID)), der.Bits(hash, 0))
}

var torShapes = func() []torShape {
	const sha256, sha384, sha512, sha1 = "2.16.840.1.101.3.4.2.1", "2.16.840.1.101.3.4.2.2", "2.16.840.1.101.3.4.2.3", "1.3.14.3.2.26"
	ext := func(hs ...*der.Node) func() *der.Node {
		return func() *der.Node { return der.MakeExt("2.23.140.1.31", false, der.Seq(hs...)) }
	}
	h, v2, v3 := c17DescH, c17V2, c17V3
	return []torShape{
		{"descriptor for the only onion name", []string{h}, ext(torHash("https://"+h, sha256, 32, 0))},
		{"descriptor sha384", []string{h}, ext(torHash("https://"+h, sha384, 48, 0))},
		{"descriptor sha512", []string{h}, ext(torHash("https://"+h, sha512, 64, 0))},
		{"descriptor with too few hash bits", []string{h}, ext(torHash("https://"+h, sha256, 20, 0))},
		{"descriptor with unknown hash algorithm", []string{h}, ext(torHash("https://"+h, sha1, 20, 0))},
		{"descriptor with http scheme", []string{h}, ext(torHash("http://"+h, sha256, 32, 0))},
		{"descriptor without host", []string{h}, ext(torHash("https:///path", sha256, 32, 0))},
		{"descriptor with unparseable URI", []string{h}, ext(torHash("https://[::1", sha256, 32, 0))},
		{"descriptor with path and port", []string{h}, ext(torHash("https://"+h+":8443/x", sha256, 32, 0))},
		{"descriptor for upper-case host", []string{h}, ext(torHash("https://"+strings.ToUpper(h), sha256, 32, 0))},
		{"two descriptors for one host", []string{h}, ext(torHash("https://"+h, sha256, 32, 0), torHash("https://"+h+"/b", sha256, 32, 1))},
		{"descriptor for a name that is not a subject", []string{h}, ext(torHash("https://"+h, sha256, 32, 0), torHash("https://other2host77777.onion", sha256, 32, 1))},
		{"second onion name without descriptor", []string{h, v2}, ext(torHash("https://"+h, sha256, 32, 0))},
		{"descriptors for both onion names", []string{h, v2}, ext(torHash("https://"+h, sha256, 32, 0), torHash("https://"+v2, sha256, 32, 1))},
		{"sub-label of the described host", []string{"www." + h, h}, ext(torHash("https://"+h, sha256, 32, 0))},
		{"v3 name next to a described v2 name", []string{h, v3}, ext(torHash("https://"+h, sha256, 32, 0))},
		{"v3 name only, with descriptor", []string{v3}, ext(torHash("https://"+v3, sha256, 32, 0))},
		{"bare onion label", []string{h, "onion"}, ext(torHash("https://"+h, sha256, 32, 0))},
		{"empty descriptor list", []string{h}, ext()},
		{"onion v2 name without the extension", []string{h, "www.example.com", v2}, nil},
		{"onion v3 name without the extension", []string{v3, "www.example.com", "www." + v3}, nil},
		{"extension without any onion name", []string{"www.example.com"}, ext(torHash("https://"+h, sha256, 32, 0))},
	}
}()

func torShapeSize(c *mon.Ctx) int { return len(torShapes) * 3 }

func torShapeCase(c *mon.Ctx, k int) (*mon.Obj, string) {
	sh := torShapes[k%len(torShapes)]
	v := k / len(torShapes)
	nb := []time.Time{gen.D(2016, 3, 1), gen.D(2019, 3, 1), gen.D(2024, 3, 1)}[v%3]
	s := gen.TLSLeaf(nb, sh.names...)
	s.Subject = gen.Name(gen.A(gen.OIDC, "US"), gen.A(gen.OIDO, "Example Org"), gen.A(gen.OIDCN, sh.names[0]))
	if v != 2 {
		s.ReplaceExt(gen.ExtPolicies(gen.OIDPolEV))
	}
	if sh.ext != nil {
		s.Exts = append(s.Exts, sh.ext())
	}
	o, _ := mon.ParseObj(0, "gen/tor/"+sh.label, s.DER())
	return o, fmt.Sprintf("%s, issued %d, EV=%v", sh.label, nb.Year(), v != 2)
}

func init() {
	dirFams = append(dirFams, dirFam{name: "tor-descriptors", rank: 8, n: torShapeSize, gen: torShapeCase})
}

// ---- SCT-list family ----
//
// The embedded SCT list is a TLS-encoded blob inside two OCTET STRINGs; blind DER mutation cannot grow it. Lints
// count SCTs / distinct logs against the certificate's lifetime, so the family is (number of SCTs 0..12) x (how many
// distinct logs among them) x lifetime.

var sctLifetimes = []int{30, 90, 180, 181, 398, 399, 456, 457, 825, 826, 1186, 1187}

type sctShape struct{ n, logs int }

var sctShapes = func() []sctShape {
	var out []sctShape
	for n := 0; n <= 12; n++ {
		for _, l := range []int{n, 1, 2, n - 1} {
			if l >= 0 && l <= n && (n == 0 || l >= 1) {
				dup := false
				for _, x := range out {
					if x.n == n && x.logs == l {
						dup = true
					}
				}
				if !dup {
					out = append(out, sctShape{n, l})
				}
			}
		}
	}
	return out
}()

func sctListExt(n, logs int) *der.Node {
	var list []byte
	for i := 0; i < n; i++ {
		sct := []byte{0} // v1
		id := make([]byte, 32)
		lg := i
		if logs > 0 {
			lg = i % logs
		}
		for b := range id {
			id[b] = byte(lg*37 + b*11 + 1)
		}
		sct = append(sct, id...)
		sct = append(sct, 0, 0, 1, 0x6b, byte(i), 0, 0, 0) // timestamp
		sct = append(sct, 0, 0)                            // no extensions
		sig := make([]byte, 70)
		for b := range sig {
			sig[b] = byte(b*7 + i)
		}
		sct = append(sct, 4, 3, 0, byte(len(sig)))
		sct = append(sct, sig...)
		list = append(list, byte(len(sct)>>8), byte(len(sct)))
		list = append(list, sct...)
	}
	blob := append([]byte{byte(len(list) >> 8), byte(len(list))}, list...)
	return der.MakeExt(gen.OIDExtSCT, false, der.Octets(blob))
}

func sctShapeSize(c *mon.Ctx) int { return len(sctShapes) * len(sctLifetimes) }

func sctShapeCase(c *mon.Ctx, k int) (*mon.Obj, string) {
	sh := sctShapes[k%len(sctShapes)]
	days := sctLifetimes[k/len(sctShapes)%len(sctLifetimes)]
	nb := gen.D(2019, 3, 1)
	if days <= 398 {
		nb = gen.D(2024, 3, 1)
	}
	s := gen.TLSLeaf(nb, "www.example.com")
	s.NotAfter = nb.Add(time.Duration(days)*24*time.Hour - time.Second)
	s.ReplaceExt(sctListExt(sh.n, sh.logs))
	how := fmt.Sprintf("%d SCTs from %d logs, lifetime %d days", sh.n, sh.logs, days)
	o, _ := mon.ParseObj(0, "gen/sct/"+how, s.DER())
	return o, how
}

func init() {
	dirFams = append(dirFams, dirFam{name: "sct-lists", rank: 6, n: sctShapeSize, gen: sctShapeCase})
}

// ---- big-list family ----
//
// Lints that LIST what they found return details that grow with the input. Certificates with hundreds of offending
// subjectAltName entries (bare public suffixes, underscores, wildcards on suffixes, repeats, reverse names) and
// hundreds of policies make rule bodies return many kilobytes of details; whatever sits between the rule body and
// the caller (result set, JSON, CLI) must carry them unaltered.

var bigKinds = []struct {
	label string
	name  func(i int) string
}{
	{"bare public suffixes", func(i int) string { return []string{"co.uk", "com", "org.uk", "com.au", "net", "co.jp"}[i%6] }},
	{"underscore names", func(i int) string { return fmt.Sprintf("h_%d.ex_ample%d.com", i, i%7) }},
	{"wildcards on suffixes", func(i int) string { return []string{"*.co.uk", "*.com", "*.org"}[i%3] }},
	{"case variants and repeats", func(i int) string { return []string{"www.example.com", "WWW.example.com", "Www.Example.Com"}[i%3] }},
	{"reserved reverse names", func(i int) string { return fmt.Sprintf("%d.%d.168.192.in-addr.arpa", i%250, i%200) }},
	{"invalid top-level domains", func(i int) string { return fmt.Sprintf("host%d.example.invalidtld%d", i, i%9) }},
}

var bigSizes = []int{120, 300, 700, 1500}

var bigCRLSizes = []int{300, 4097, 5000}

func bigSize(c *mon.Ctx) int { return len(bigKinds)*len(bigSizes) + len(bigCRLSizes)*4 }

// bigCRL: thousands of entries whose serial numbers are NOT in ascending order, with different kinds of offending
// reason codes (explicit unspecified(0), the unassigned 7, removeFromCRL(8), out-of-range 11) at positions that a
// re-ordering of the list would exchange, and a few repeated serial numbers
func bigCRL(n, variant int) (*mon.Obj, string) {
	tu := gen.D(2024, 3, 1)
	s := gen.BasicCRL(tu)
	s.Revoked = nil
	for i := 0; i < n; i++ {
		var serial int64
		switch variant % 2 {
		case 0:
			serial = int64(1000000 - i*7) // descending
		default:
			serial = int64((uint64(i)*2654435761)%1000003 + 1) // scattered
		}
		var exts []*der.Node
		switch {
		case i == 3:
			exts = []*der.Node{gen.ExtReason(0)}
		case i == n-2:
			exts = []*der.Node{gen.ExtReason(7)}
		case i == n/2:
			exts = []*der.Node{gen.ExtReason(11)}
		case i == n/3 && variant >= 2:
			exts = []*der.Node{gen.ExtReason(8)}
		case i%5 == 0:
			exts = []*der.Node{gen.ExtReason(int64(1 + i%6))}
		}
		if variant >= 2 && (i == 10 || i == n-10) {
			serial = 424242 // the same serial twice, far apart
		}
		s.Revoked = append(s.Revoked, gen.Revoked(serial, tu.Add(-time.Duration(i+1)*time.Minute), exts...))
	}
	how := fmt.Sprintf("CRL with %d entries, serial numbers not ascending (variant %d)", n, variant)
	o, _ := mon.ParseObj(corpus.CRL, "gen/bigcrl/"+how, s.DER())
	return o, how
}

func bigCase(c *mon.Ctx, k int) (*mon.Obj, string) {
	if k >= len(bigKinds)*len(bigSizes) {
		k -= len(bigKinds) * len(bigSizes)
		return bigCRL(bigCRLSizes[k%len(bigCRLSizes)], k/len(bigCRLSizes))
	}
	kd := bigKinds[k%len(bigKinds)]
	n := bigSizes[k/len(bigKinds)%len(bigSizes)]
	var gns []*der.Node
	for i := 0; i < n; i++ {
		gns = append(gns, gen.GNDNS(kd.name(i)))
	}
	s := gen.TLSLeaf(gen.D(2024, 3, 1), "www.example.com")
	s.ReplaceExt(gen.ExtSAN(false, gns...))
	if k%2 == 1 {
		pol := der.Seq()
		for i := 0; i < n/3; i++ {
			pol.Children = append(pol.Children, der.Seq(der.OID(fmt.Sprintf("1.3.6.1.4.1.55555.%d.%d", i%40, i))))
		}
		pol.Children = append(pol.Children, der.Seq(der.OID(gen.OIDPolOV)))
		s.ReplaceExt(der.MakeExt(gen.OIDExtPol, false, pol))
	}
	how := fmt.Sprintf("%d SAN entries: %s", n, kd.label)
	o, _ := mon.ParseObj(0, "gen/big/"+how, s.DER())
	return o, how
}

func init() {
	dirFams = append(dirFams, dirFam{name: "big-lists", rank: 7, n: bigSize, gen: bigCase})
}
