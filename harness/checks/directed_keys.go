package checks

import (
	"fmt"
	"math/big"
	"strings"
	"sync"

	"verif/corpus"
	"verif/der"
	"verif/gen"
	"verif/mon"
)

// ---- key-shape family ----
//
// Public keys whose NUMBERS are unusual while their encoding is perfectly fine: DSA public values outside [2, P-2]
// (1, P-1, P, P+1, Y+P, Y+2P: the parser only refuses non-positive numbers), generators 1 / P-1 / G+P, subgroup orders
// next to the real one, parameters with a leading zero octet; EC points in compressed form, the point at infinity,
// off-curve and short / long encodings, unused bits in the key's BIT STRING; Ed25519 keys of the wrong length. Lints
// that do arithmetic on a key (and may normalise it on the way) are only driven down their unusual branches by such
// keys; a random mutant reaches them by luck at best. Bases: every DSA and EC certificate of the seed pool plus the
// generated templates carrying each variant key.

type keyShape struct {
	base int // index into W.Objs
	how  string
	edit func(spki *der.Node) bool
}

var (
	keyShapesOnce sync.Once
	keyShapes     []keyShape
)

func dsaParts(spki *der.Node) (p, q, g, y *der.Node) {
	defer func() { _ = recover() }()
	params := spki.Children[0].Children[1]
	if !params.Is(der.TagSequence) || len(params.Children) != 3 {
		return nil, nil, nil, nil
	}
	bs := spki.Children[1]
	if bs.Wrapped == nil { // the tree reader leaves a BIT STRING that holds a bare INTEGER alone: open it here
		if len(bs.Content) < 3 {
			return nil, nil, nil, nil
		}
		inner, err := der.Parse(bs.Content[1:])
		if err != nil || !inner.Is(der.TagInteger) {
			return nil, nil, nil, nil
		}
		bs.Wrapped, bs.Content = inner, nil
	}
	return params.Children[0], params.Children[1], params.Children[2], bs.Wrapped
}

func nodeInt(n *der.Node) *big.Int {
	v := new(big.Int).SetBytes(n.Content)
	return v
}

func keyShapesBuild() {
	keyShapesOnce.Do(func() {
		setInt := func(n *der.Node, v *big.Int) { *n = *der.Int(v) }
		one, two := big.NewInt(1), big.NewInt(2)
		nEC := 0
		for _, idx := range W.ByKind[corpus.Cert] {
			o := W.Objs[idx]
			dc, err := der.ParseCert(o.DER)
			if err != nil {
				continue
			}
			var oid string
			func() {
				defer func() { _ = recover() }()
				oid = dc.SPKI().Children[0].Children[0].OIDString()
			}()
			switch oid {
			case gen.OIDDsaPub:
				if p, _, _, _ := dsaParts(dc.SPKI()); p == nil {
					continue
				}
				type ed struct {
					how string
					f   func(p, q, g, y *der.Node)
				}
				for _, e := range []ed{
					{"Y = 1", func(p, q, g, y *der.Node) { setInt(y, one) }},
					{"Y = 2", func(p, q, g, y *der.Node) { setInt(y, two) }},
					{"Y = P-2", func(p, q, g, y *der.Node) { setInt(y, new(big.Int).Sub(nodeInt(p), two)) }},
					{"Y = P-1", func(p, q, g, y *der.Node) { setInt(y, new(big.Int).Sub(nodeInt(p), one)) }},
					{"Y = P", func(p, q, g, y *der.Node) { setInt(y, nodeInt(p)) }},
					{"Y = P+1", func(p, q, g, y *der.Node) { setInt(y, new(big.Int).Add(nodeInt(p), one)) }},
					{"Y = Y+P", func(p, q, g, y *der.Node) { setInt(y, new(big.Int).Add(nodeInt(y), nodeInt(p))) }},
					{"Y = Y+2P", func(p, q, g, y *der.Node) {
						setInt(y, new(big.Int).Add(nodeInt(y), new(big.Int).Lsh(nodeInt(p), 1)))
					}},
					{"Y = G", func(p, q, g, y *der.Node) { setInt(y, nodeInt(g)) }},
					{"Y = Y^2 mod P", func(p, q, g, y *der.Node) { setInt(y, new(big.Int).Exp(nodeInt(y), two, nodeInt(p))) }},
					{"G = 1", func(p, q, g, y *der.Node) { setInt(g, one) }},
					{"G = P-1", func(p, q, g, y *der.Node) { setInt(g, new(big.Int).Sub(nodeInt(p), one)) }},
					{"G = G+P", func(p, q, g, y *der.Node) { setInt(g, new(big.Int).Add(nodeInt(g), nodeInt(p))) }},
					{"Q = Q+2", func(p, q, g, y *der.Node) { setInt(q, new(big.Int).Add(nodeInt(q), two)) }},
					{"Q = 1", func(p, q, g, y *der.Node) { setInt(q, one) }},
					{"Q = P", func(p, q, g, y *der.Node) { setInt(q, nodeInt(p)) }},
					{"P = P+2", func(p, q, g, y *der.Node) { setInt(p, new(big.Int).Add(nodeInt(p), two)) }},
					{"P even", func(p, q, g, y *der.Node) { setInt(p, new(big.Int).Add(nodeInt(p), one)) }},
					{"Y with a leading zero octet too many", func(p, q, g, y *der.Node) { y.Content = append([]byte{0}, y.Content...) }},
					{"P, Q, G, Y = 1", func(p, q, g, y *der.Node) { setInt(p, one); setInt(q, one); setInt(g, one); setInt(y, one) }},
				} {
					e := e
					keyShapes = append(keyShapes, keyShape{idx, "DSA " + e.how, func(spki *der.Node) bool {
						p, q, g, y := dsaParts(spki)
						if p == nil {
							return false
						}
						e.f(p, q, g, y)
						return true
					}})
				}
			case gen.OIDEcPub:
				if nEC++; nEC > 8 { // the first eight EC seeds (they carry the different curves)
					continue
				}
				for _, e := range []struct {
					how string
					f   func(pt []byte) []byte
				}{
					{"compressed point (02)", func(pt []byte) []byte { return append([]byte{2}, pt[1:1+(len(pt)-1)/2]...) }},
					{"compressed point (03)", func(pt []byte) []byte { return append([]byte{3}, pt[1:1+(len(pt)-1)/2]...) }},
					{"point at infinity", func(pt []byte) []byte { return []byte{0} }},
					{"empty point", func(pt []byte) []byte { return []byte{} }},
					{"off-curve point", func(pt []byte) []byte { b := append([]byte{}, pt...); b[len(b)-1] ^= 1; return b }},
					{"hybrid form (06)", func(pt []byte) []byte { b := append([]byte{}, pt...); b[0] = 6; return b }},
					{"point one octet short", func(pt []byte) []byte { return pt[:len(pt)-1] }},
					{"point one octet long", func(pt []byte) []byte { return append(append([]byte{}, pt...), 0) }},
					{"all-zero coordinates", func(pt []byte) []byte { b := make([]byte, len(pt)); b[0] = 4; return b }},
				} {
					e := e
					keyShapes = append(keyShapes, keyShape{idx, "EC " + e.how, func(spki *der.Node) bool {
						bs := spki.Children[1]
						if bs.Wrapped != nil || len(bs.Content) < 3 {
							return false
						}
						bs.Content = append([]byte{bs.Content[0]}, e.f(bs.Content[1:])...)
						return true
					}})
				}
				keyShapes = append(keyShapes, keyShape{idx, "EC key BIT STRING with 4 unused bits", func(spki *der.Node) bool {
					bs := spki.Children[1]
					if bs.Wrapped != nil || len(bs.Content) < 3 {
						return false
					}
					bs.Content[0] = 4
					bs.Content[len(bs.Content)-1] &= 0xf0
					return true
				}}, keyShape{idx, "EC named curve replaced by an unknown OID", func(spki *der.Node) bool {
					a := spki.Children[0]
					if len(a.Children) < 2 {
						return false
					}
					a.Children[1] = der.OID("1.3.132.0.99")
					return true
				}}, keyShape{idx, "EC parameters absent", func(spki *der.Node) bool {
					a := spki.Children[0]
					if len(a.Children) < 2 {
						return false
					}
					a.Children = a.Children[:1]
					return true
				}}, keyShape{idx, "EC parameters NULL", func(spki *der.Node) bool {
					a := spki.Children[0]
					if len(a.Children) < 2 {
						return false
					}
					a.Children[1] = der.Null()
					return true
				}})
			}
		}
	})
}

func keyShapeSize(c *mon.Ctx) int { keyShapesBuild(); return len(keyShapes) }

func keyShapeCase(c *mon.Ctx, k int) (o *mon.Obj, how string) {
	keyShapesBuild()
	defer func() {
		if recover() != nil {
			o = nil
		}
	}()
	ks := keyShapes[k]
	base := W.Objs[ks.base]
	dc, err := der.ParseCert(base.DER)
	if err != nil {
		return nil, ""
	}
	if !ks.edit(dc.SPKI()) {
		return nil, ""
	}
	flipSig(dc)
	how = fmt.Sprintf("%s: %s", strings.TrimPrefix(base.Name, "cert/"), ks.how)
	o, _ = mon.ParseObj(corpus.Cert, "gen/keyshape/"+how, dc.Encode())
	return o, how
}

func init() {
	dirFams = append(dirFams, dirFam{name: "key-shapes", rank: 11, n: keyShapeSize, gen: keyShapeCase})
}

