package checks

import (
	"fmt"
	"math/bits"

	"verif/corpus"
	"verif/gen"
	"verif/mon"
)

// ---- key usage x extended key usage lattice ----
//
// Subscriber certificates with every key-usage bit set of up to three bits (130 sets of the nine bits) under every
// ordered pair and a few triples of the extended key usages that have consistency rules (server, client, code
// signing, e-mail, time stamping, OCSP signing) and one unknown purpose. A rule that combines per-purpose tables
// decides differently for almost every cell; the 96 random members of the seed-pool family cover 1 % of it.
// Big family (sampled by the universal monitors); C05 runs it completely with repetitions.

var kuekuPurposes = []string{gen.OIDEkuServer, gen.OIDEkuClient, gen.OIDEkuCode, gen.OIDEkuEmail, gen.OIDEkuTime, gen.OIDEkuOCSP, "1.3.6.1.4.1.99999.1"}

var (
	kuekuSets  [][]int
	kuekuLists [][]string
)

func init() {
	for m := 1; m < 1<<9; m++ {
		if bits.OnesCount(uint(m)) > 3 {
			continue
		}
		var s []int
		for b := 0; b < 9; b++ {
			if m&(1<<b) != 0 {
				s = append(s, b)
			}
		}
		kuekuSets = append(kuekuSets, s)
	}
	n := len(kuekuPurposes)
	for a := 0; a < n; a++ {
		for b := 0; b < n; b++ {
			if a != b {
				kuekuLists = append(kuekuLists, []string{kuekuPurposes[a], kuekuPurposes[b]})
			}
		}
	}
	for a := 0; a < n-1; a++ { // triples: three neighbours in both directions
		b, c := (a+1)%n, (a+2)%n
		kuekuLists = append(kuekuLists, []string{kuekuPurposes[a], kuekuPurposes[b], kuekuPurposes[c]}, []string{kuekuPurposes[c], kuekuPurposes[b], kuekuPurposes[a]})
	}
	dirFams = append(dirFams, dirFam{name: "ku-eku-lattice", rank: 1, n: func(*mon.Ctx) int { return kuekuSize() }, gen: func(c *mon.Ctx, k int) (*mon.Obj, string) { return kuekuCase(k) }})
}

func kuekuSize() int { return len(kuekuSets) * len(kuekuLists) }

func kuekuCase(k int) (*mon.Obj, string) {
	set := kuekuSets[k%len(kuekuSets)]
	list := kuekuLists[k/len(kuekuSets)%len(kuekuLists)]
	s := gen.TLSLeaf(gen.D(2024, 3, 1), "www.example.com")
	s.ReplaceExt(gen.ExtEKU(false, list...))
	s.ReplaceExt(gen.ExtKU(true, set...))
	how := fmt.Sprintf("key usage bits %v under extended key usages %v", set, list)
	o, _ := mon.ParseObj(corpus.Cert, "gen/kueku-lattice/"+how, s.DER())
	return o, how
}
