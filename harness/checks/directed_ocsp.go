package checks

import (
	"fmt"
	"time"

	"verif/corpus"
	"verif/der"
	"verif/mon"
)

// ---- OCSP-shape family ----
//
// The corpus has two OCSP responses; an OCSP lint decides on how thisUpdate, producedAt and nextUpdate relate. The
// family re-dates the first SingleResponse of each corpus response (the parser does not verify signatures without an
// issuer): thisUpdate at producedAt plus a lattice of offsets (hours, seconds - at, just below and just above small
// tolerances, exactly equal), nextUpdate at thisUpdate plus a lattice of lifetimes (incl. before thisUpdate and before
// every lint's effective date).

var ocspOffsets = []time.Duration{-24 * time.Hour, -time.Hour, -61 * time.Second, -6 * time.Second, -5 * time.Second, -time.Second, 0, time.Second, 2 * time.Second, 4 * time.Second, 5 * time.Second, 6 * time.Second,
	10 * time.Second, 59 * time.Second, 60 * time.Second, 61 * time.Second, 5 * time.Minute, time.Hour, 24 * time.Hour}

var ocspLives = []time.Duration{time.Second, 8 * time.Hour, 4 * 24 * time.Hour, 7 * 24 * time.Hour, 10 * 24 * time.Hour, 10*24*time.Hour + time.Second, -time.Second, -20 * 365 * 24 * time.Hour}

func ocspSeeds() []*mon.Obj {
	var out []*mon.Obj
	for _, i := range W.ByKind[corpus.OCSP] {
		out = append(out, W.Objs[i])
	}
	return out
}

func ocspShapeSize(c *mon.Ctx) int { return len(ocspSeeds()) * len(ocspOffsets) * len(ocspLives) }

func ocspShapeCase(c *mon.Ctx, k int) (*mon.Obj, string) {
	seeds := ocspSeeds()
	if len(seeds) == 0 {
		return nil, ""
	}
	li := k % len(ocspLives)
	k /= len(ocspLives)
	oi := k % len(ocspOffsets)
	base := seeds[k/len(ocspOffsets)%len(seeds)]
	root, err := der.Parse(base.DER)
	if err != nil {
		return nil, ""
	}
	tu := base.OCSP.ProducedAt.Add(ocspOffsets[oi])
	nu := tu.Add(ocspLives[li])
	if !der.OCSPSetThisUpdate(root, der.GenTime(tu)) || !der.OCSPSetNextUpdate(root, der.GenTime(nu)) {
		return nil, ""
	}
	how := fmt.Sprintf("%s: thisUpdate = producedAt %+v, nextUpdate = thisUpdate %+v", base.Name, ocspOffsets[oi], ocspLives[li])
	o, _ := mon.ParseObj(corpus.OCSP, "gen/ocspshape/"+how, root.Encode())
	return o, how
}

func init() {
	dirFams = append(dirFams, dirFam{name: "ocsp-shapes", rank: 10, n: ocspShapeSize, gen: ocspShapeCase})
}
