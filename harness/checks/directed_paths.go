package checks

import (
	"crypto/elliptic"
	"fmt"
	"math/big"
	"time"

	"verif/corpus"
	"verif/der"
	"verif/gen"
	"verif/mon"
)

// ---- return-path family ----
//
// Shapes chosen from the statement-reach report of the union workload (bin/reach): each aims at a `return
// &lint.LintResult{...}` statement that corpus, mutants and the other directed families had never executed although a
// parser-accepted input can get there - name-constraint subtrees with minimum / maximum for every GeneralName type on
// both sides, authority key identifier forms on S/MIME templates, Ed25519 S/MIME key usages, non-HTTP and unparseable
// AIA locations under the strict / multipurpose S/MIME policies, redacted names, CRL distribution point forms on
// code-signing templates, DSA keys without parameters, curves other than P-256, RSA exponent 1 and odd modulus
// lengths outside C16, root basic constraints forms, organisation-identifier extension mismatches, QC type lists with
// several unknown OIDs, notice references with an organisation only, 5- and 6-byte UTF-8 lead bytes, GeneralizedTime
// forms, CRLs with an empty revokedCertificates element. "Every return path" (C06) and "every lint" (C02) are only as
// good as this reach, so the family feeds every universal monitor. What the parser refuses is counted, not judged.

type pathShape struct {
	label string
	kind  corpus.Kind
	mk    func() []byte
}

func ncSubtree(gn *der.Node, min, max int64) *der.Node {
	s := der.Seq(gn)
	if min >= 0 {
		s.Children = append(s.Children, der.CtxPrim(0, der.Int64(min).Content))
	}
	if max >= 0 {
		s.Children = append(s.Children, der.CtxPrim(1, der.Int64(max).Content))
	}
	return s
}

func ecPointSPKI(curveOID string, c elliptic.Curve) *der.Node {
	p := c.Params()
	pt := elliptic.Marshal(c, p.Gx, p.Gy)
	return der.Seq(der.Seq(der.OID(gen.OIDEcPub), der.OID(curveOID)), der.Bits(pt, 0))
}

var pathShapes = func() []pathShape {
	var out []pathShape
	nb := gen.D(2024, 3, 1)
	cert := func(label string, mk func() *gen.Spec) {
		out = append(out, pathShape{label, corpus.Cert, func() []byte { return mk().DER() }})
	}

	// name constraints: type x side x bound
	gnTypes := []struct {
		name string
		mk   func() *der.Node
	}{
		{"dns", func() *der.Node { return gen.GNDNS("example.com") }},
		{"email", func() *der.Node { return gen.GNEmail("example.com") }},
		{"ip4", func() *der.Node { return gen.GNIP([]byte{192, 0, 2, 0, 255, 255, 255, 0}) }},
		{"ip6", func() *der.Node { return gen.GNIP(append(append([]byte{0x20, 0x01, 0x0d, 0xb8}, make([]byte, 12)...), append([]byte{255, 255, 255, 255}, make([]byte, 12)...)...)) }},
		{"dir", func() *der.Node { return gen.GNDir(gen.Name(gen.A(gen.OIDC, "US"), gen.A(gen.OIDO, "Example Org"))) }},
		{"edi", func() *der.Node { return der.Ctx(5, der.Ctx(1, der.Str(der.TagUTF8, "party"))) }},
		{"uri", func() *der.Node { return gen.GNURI(".example.com") }},
		{"rid", func() *der.Node { return gen.GNRID("1.3.6.1.4.1.99999.1") }},
		{"x400", func() *der.Node { return gen.GNX400() }},
		{"other", func() *der.Node { return gen.GNOther("1.3.6.1.5.5.7.8.9", der.Str(der.TagUTF8, "x@example.com")) }},
	}
	bounds := []struct {
		name     string
		min, max int64
	}{{"min 1", 1, -1}, {"max 5", -1, 5}, {"min 0 explicit", 0, -1}, {"min 2 max 9", 2, 9}, {"max 0", -1, 0}}
	for _, g := range gnTypes {
		for side := 0; side < 2; side++ {
			for _, b := range bounds {
				g, side, b := g, side, b
				cert(fmt.Sprintf("name constraints %s %s %s", []string{"permitted", "excluded"}[side], g.name, b.name), func() *gen.Spec {
					s := gen.SubCA(nb)
					st := []*der.Node{ncSubtree(g.mk(), b.min, b.max)}
					other := []*der.Node{gen.Subtree(gen.GNDNS("other.example"))}
					if side == 0 {
						s.Exts = append(s.Exts, gen.ExtNC(true, st, other))
					} else {
						s.Exts = append(s.Exts, gen.ExtNC(true, other, st))
					}
					return s
				})
			}
		}
	}

	// authority key identifier forms on S/MIME (and TLS) templates
	akiForms := []struct {
		name string
		mk   func() *der.Node
	}{
		{"critical", func() *der.Node { return der.MakeExt(gen.OIDExtAKI, true, der.Seq(der.CtxPrim(0, []byte{1, 2, 3, 4}))) }},
		{"key id + issuer + serial", func() *der.Node {
			return der.MakeExt(gen.OIDExtAKI, false, der.Seq(der.CtxPrim(0, []byte{1, 2, 3, 4}), der.Ctx(1, gen.GNDir(gen.Name(gen.A(gen.OIDCN, "Root")))), der.CtxPrim(2, []byte{7})))
		}},
		{"issuer + serial only", func() *der.Node {
			return der.MakeExt(gen.OIDExtAKI, false, der.Seq(der.Ctx(1, gen.GNDir(gen.Name(gen.A(gen.OIDCN, "Root")))), der.CtxPrim(2, []byte{7})))
		}},
		{"key id + serial", func() *der.Node {
			return der.MakeExt(gen.OIDExtAKI, false, der.Seq(der.CtxPrim(0, []byte{1, 2, 3, 4}), der.CtxPrim(2, []byte{7})))
		}},
		{"empty sequence", func() *der.Node { return der.MakeExt(gen.OIDExtAKI, false, der.Seq()) }},
		{"empty key id", func() *der.Node { return der.MakeExt(gen.OIDExtAKI, false, der.Seq(der.CtxPrim(0, nil))) }},
		{"absent", func() *der.Node { return nil }},
	}
	smimePols := []string{"2.23.140.1.5.1.1", "2.23.140.1.5.2.3", "2.23.140.1.5.3.2", "2.23.140.1.5.4.3"}
	for _, a := range akiForms {
		for pi, pol := range smimePols {
			a, pol, pi := a, pol, pi
			cert("aki "+a.name+" on smime "+pol, func() *gen.Spec {
				s := gen.SMIMELeaf(nb, "alice@example.com")
				s.ReplaceExt(gen.ExtPolicies(pol))
				if pi > 0 {
					s.Subject = gen.Name(gen.A(gen.OIDC, "US"), gen.A(gen.OIDO, "Example Org"), gen.A(gen.OIDOrgID, "NTRUS+CA-12345"), gen.A(gen.OIDGiven, "Alice"), gen.A(gen.OIDSurname, "Example"), gen.A(gen.OIDCN, "Alice Example"), gen.A(gen.OIDEmail, "alice@example.com"))
				}
				if e := a.mk(); e != nil {
					s.ReplaceExt(e)
				} else {
					s.RemoveExt(gen.OIDExtAKI)
				}
				return s
			})
		}
		a := a
		cert("aki "+a.name+" on tls", func() *gen.Spec {
			s := gen.TLSLeaf(nb, "www.example.com")
			if e := a.mk(); e != nil {
				s.ReplaceExt(e)
			} else {
				s.RemoveExt(gen.OIDExtAKI)
			}
			return s
		})
	}

	// Ed25519 S/MIME key usages
	for _, ku := range [][]int{{0}, {1}, {0, 1}, {0, 2}, {2}, {0, 4}, {3}, {0, 1, 8}, {}} {
		for _, pol := range []string{"2.23.140.1.5.1.3", "2.23.140.1.5.3.2"} {
			ku, pol := ku, pol
			cert(fmt.Sprintf("ed25519 smime %s key usage %v", pol, ku), func() *gen.Spec {
				s := gen.SMIMELeaf(nb, "alice@example.com")
				s.ReplaceExt(gen.ExtPolicies(pol))
				s.SPKI = gen.Ed25519SPKI()
				s.SigOID, s.SigNull, s.SigLen = gen.OIDEd25519, false, 64
				s.ReplaceExt(gen.ExtKU(true, ku...))
				return s
			})
		}
	}

	// AIA locations under the strict / multipurpose / legacy S/MIME policies
	aiaURLs := []string{"ldap://ldap.example.net/cn=ca", "https://ocsp.example.net", "http://[::1", "%zz://ocsp.example.net", "HTTP://ocsp.example.net", "ftp://ca.example.net/r1.crt", "http://ocsp.example.net/\x7f", "://", ""}
	for _, u := range aiaURLs {
		for _, pol := range []string{"2.23.140.1.5.1.3", "2.23.140.1.5.2.2", "2.23.140.1.5.4.1"} {
			for where := 0; where < 3; where++ {
				u, pol, where := u, pol, where
				cert(fmt.Sprintf("smime %s aia %q in %s", pol, u, []string{"ocsp", "issuers", "second ocsp"}[where]), func() *gen.Spec {
					s := gen.SMIMELeaf(nb, "alice@example.com")
					s.ReplaceExt(gen.ExtPolicies(pol))
					ocsp, iss := gen.AD(gen.OIDAdOCSP, gen.GNURI("http://ocsp.example.net")), gen.AD(gen.OIDAdIssuers, gen.GNURI("http://ca.example.net/r1.crt"))
					switch where {
					case 0:
						s.ReplaceExt(gen.ExtAIA(gen.AD(gen.OIDAdOCSP, gen.GNURI(u)), iss))
					case 1:
						s.ReplaceExt(gen.ExtAIA(ocsp, gen.AD(gen.OIDAdIssuers, gen.GNURI(u))))
					default:
						s.ReplaceExt(gen.ExtAIA(ocsp, gen.AD(gen.OIDAdOCSP, gen.GNURI(u)), iss))
					}
					return s
				})
			}
		}
	}

	// redacted names
	for _, n := range []string{"?.example.com", "*.?.example.com", "?.?.example.com", "?", "?.", "a.?.example.com"} {
		n := n
		cert("redacted dNSName "+n, func() *gen.Spec { return gen.TLSLeaf(nb, "www.example.com", n) })
		cert("redacted common name "+n, func() *gen.Spec {
			s := gen.TLSLeaf(nb, "www.example.com")
			s.Subject = gen.Name(gen.A(gen.OIDC, "US"), gen.A(gen.OIDO, "Example Org"), gen.A(gen.OIDCN, n))
			return s
		})
	}

	// CRL distribution points on code-signing templates
	cdps := []struct {
		name string
		mk   func() *der.Node
	}{
		{"absent", func() *der.Node { return nil }},
		{"critical", func() *der.Node {
			e := gen.ExtCRLDP("http://crl.example.net/r1.crl")
			return der.MakeExt(gen.OIDExtCRLDP, true, der.ExtValue(e).Wrapped)
		}},
		{"ldap", func() *der.Node { return gen.ExtCRLDP("ldap://crl.example.net/cn=r1") }},
		{"https", func() *der.Node { return gen.ExtCRLDP("https://crl.example.net/r1.crl") }},
		{"http then ldap", func() *der.Node { return gen.ExtCRLDP("http://crl.example.net/r1.crl", "ldap://crl.example.net/cn=r1") }},
		{"upper-case scheme", func() *der.Node { return gen.ExtCRLDP("HTTP://crl.example.net/r1.crl") }},
		{"empty uri", func() *der.Node { return gen.ExtCRLDP("") }},
	}
	for _, d := range cdps {
		for t := 0; t < 2; t++ {
			d, t := d, t
			cert("code signing "+[]string{"leaf", "sub-ca"}[t]+" crl distribution points "+d.name, func() *gen.Spec {
				var s *gen.Spec
				if t == 0 {
					s = gen.CSLeaf(nb)
				} else {
					s = gen.SubCA(nb)
					s.ReplaceExt(gen.ExtPolicies(gen.OIDPolCS))
					s.ReplaceExt(gen.ExtEKU(false, gen.OIDEkuCode))
				}
				if e := d.mk(); e != nil {
					s.ReplaceExt(e)
				} else {
					s.RemoveExt(gen.OIDExtCRLDP)
				}
				return s
			})
		}
	}

	// DSA keys: parameters absent / zero-valued
	dsaY := der.BitWrap(der.Int(big.NewInt(123456789)))
	dsaParams := []struct {
		name string
		alg  func() *der.Node
	}{
		{"no parameters", func() *der.Node { return der.Seq(der.OID(gen.OIDDsaPub)) }},
		{"null parameters", func() *der.Node { return der.Seq(der.OID(gen.OIDDsaPub), der.Null()) }},
		{"zero p", func() *der.Node { return der.Seq(der.OID(gen.OIDDsaPub), der.Seq(der.Int64(0), der.Int64(7), der.Int64(2))) }},
		{"zero q", func() *der.Node { return der.Seq(der.OID(gen.OIDDsaPub), der.Seq(der.Int64(23), der.Int64(0), der.Int64(2))) }},
		{"zero g", func() *der.Node { return der.Seq(der.OID(gen.OIDDsaPub), der.Seq(der.Int64(23), der.Int64(11), der.Int64(0))) }},
		{"empty parameters", func() *der.Node { return der.Seq(der.OID(gen.OIDDsaPub), der.Seq()) }},
	}
	for _, p := range dsaParams {
		for t := 0; t < 2; t++ {
			p, t := p, t
			cert("dsa key "+p.name+[]string{" 2024", " 2010"}[t], func() *gen.Spec {
				s := gen.TLSLeaf([]time.Time{nb, gen.D(2010, 3, 1)}[t], "www.example.com")
				s.SPKI = der.Seq(p.alg(), dsaY.Clone())
				return s
			})
		}
	}

	// elliptic curves other than P-256, AlgorithmIdentifier forms
	curves := []struct {
		name, oid string
		c         elliptic.Curve
	}{{"P-224", "1.3.132.0.33", elliptic.P224()}, {"P-384", gen.OIDP384, elliptic.P384()}, {"P-521", "1.3.132.0.35", elliptic.P521()}, {"P-256", gen.OIDP256, elliptic.P256()}}
	for _, cv := range curves {
		for t := 0; t < 3; t++ {
			cv, t := cv, t
			cert("ec key "+cv.name+[]string{" tls", " smime", " sub-ca"}[t], func() *gen.Spec {
				var s *gen.Spec
				switch t {
				case 0:
					s = gen.TLSLeaf(nb, "www.example.com")
				case 1:
					s = gen.SMIMELeaf(nb, "alice@example.com")
				default:
					s = gen.SubCA(nb)
				}
				s.SPKI = ecPointSPKI(cv.oid, cv.c)
				return s
			})
		}
	}
	cert("ec key P-256 with null after the curve", func() *gen.Spec {
		s := gen.TLSLeaf(nb, "www.example.com")
		p := elliptic.P256().Params()
		s.SPKI = der.Seq(der.Seq(der.OID(gen.OIDEcPub), der.OID(gen.OIDP256), der.Null()), der.Bits(elliptic.Marshal(elliptic.P256(), p.Gx, p.Gy), 0))
		return s
	})
	cert("ec key P-256 compressed point", func() *gen.Spec {
		s := gen.TLSLeaf(nb, "www.example.com")
		p := elliptic.P256().Params()
		s.SPKI = der.Seq(der.Seq(der.OID(gen.OIDEcPub), der.OID(gen.OIDP256)), der.Bits(elliptic.MarshalCompressed(elliptic.P256(), p.Gx, p.Gy), 0))
		return s
	})

	// RSA arithmetic outside C16's templates (Mozilla lints apply to every certificate)
	k := gen.DefaultKey()
	rsaForms := []struct {
		name string
		n, e *big.Int
	}{
		{"exponent 1", k.N, big.NewInt(1)},
		{"exponent 3", k.N, big.NewInt(3)},
		{"exponent 2", k.N, big.NewInt(2)},
		{"modulus 2047 bits", new(big.Int).Rsh(k.N, uint(k.N.BitLen()-2047)), big.NewInt(65537)},
		{"modulus 2041 bits", new(big.Int).SetBit(new(big.Int).Rsh(k.N, uint(k.N.BitLen()-2041)), 0, 1), big.NewInt(65537)},
		{"modulus 1024 bits", new(big.Int).SetBit(new(big.Int).Rsh(k.N, uint(k.N.BitLen()-1024)), 0, 1), big.NewInt(65537)},
		{"even modulus", new(big.Int).SetBit(new(big.Int).Set(k.N), 0, 0), big.NewInt(65537)},
		{"exponent 2^256+1", k.N, new(big.Int).Add(new(big.Int).Lsh(big.NewInt(1), 256), big.NewInt(1))},
	}
	for _, f := range rsaForms {
		for t := 0; t < 4; t++ {
			f, t := f, t
			cert("rsa "+f.name+[]string{" tls", " smime", " sub-ca", " code signing"}[t], func() *gen.Spec {
				var s *gen.Spec
				switch t {
				case 0:
					s = gen.TLSLeaf(nb, "www.example.com")
				case 1:
					s = gen.SMIMELeaf(nb, "alice@example.com")
				case 2:
					s = gen.SubCA(nb)
				default:
					s = gen.CSLeaf(nb)
				}
				s.SPKI = gen.RSASPKI(f.n, f.e)
				return s
			})
		}
	}
	// RSA AlgorithmIdentifier forms in the key and in the signature fields
	for i, alg := range []func() *der.Node{
		func() *der.Node { return der.Seq(der.OID(gen.OIDRsaEnc)) },
		func() *der.Node { return der.Seq(der.OID(gen.OIDRsaEnc), der.Seq()) },
		func() *der.Node { return der.Seq(der.OID(gen.OIDRsaEnc), der.Null(), der.Null()) },
		func() *der.Node { return der.Seq(der.OID(gen.OIDRsaEnc), der.Int64(0)) },
		func() *der.Node { return der.Seq(der.OID("1.2.840.113549.1.1.10")) },
		func() *der.Node { return der.Seq(der.OID("1.2.840.113549.1.1.10"), der.Seq()) },
		func() *der.Node { return der.Seq(der.OID("1.2.840.113549.1.1.7"), der.Null()) },
	} {
		alg := alg
		cert(fmt.Sprintf("rsa key algorithm identifier form %d", i), func() *gen.Spec {
			s := gen.TLSLeaf(nb, "www.example.com")
			s.SPKI = der.Seq(alg(), der.BitWrap(der.Seq(der.Int(k.N), der.Int64(65537))))
			return s
		})
	}

	// root basic constraints forms (really self-signed)
	for i, bc := range []func() *der.Node{
		func() *der.Node { return der.MakeExt(gen.OIDExtBC, true, der.Seq()) },
		func() *der.Node { return gen.ExtBC(true, true, 0) },
		func() *der.Node { return gen.ExtBC(true, true, 3) },
		func() *der.Node { return gen.ExtBC(false, true, -1) },
		func() *der.Node { return der.MakeExt(gen.OIDExtBC, true, der.Seq(der.Bool(false))) },
		func() *der.Node { return der.MakeExt(gen.OIDExtBC, true, der.Seq(der.Bool(true), der.Int64(-1))) },
	} {
		bc := bc
		cert(fmt.Sprintf("root basic constraints form %d", i), func() *gen.Spec {
			s := gen.RootCA(gen.D(2020, 1, 1), k)
			s.ReplaceExt(bc())
			return s
		})
	}

	// EV: organisation identifier attribute vs CABF organisation identifier extension
	orgExt := func(scheme, country, state, ref string) *der.Node {
		q := der.Seq(der.Str(der.TagPrintable, scheme), der.Str(der.TagPrintable, country))
		if state != "" {
			q.Children = append(q.Children, der.CtxPrim(0, []byte(state)))
		}
		q.Children = append(q.Children, der.Str(der.TagUTF8, ref))
		return der.MakeExt("2.23.140.3.1", false, q)
	}
	orgCases := []struct {
		name, attr string
		ext        func() *der.Node
	}{
		{"consistent NTR", "NTRUS-12345", func() *der.Node { return orgExt("NTR", "US", "", "12345") }},
		{"reference differs", "NTRUS-12345", func() *der.Node { return orgExt("NTR", "US", "", "99999") }},
		{"country differs", "NTRUS-12345", func() *der.Node { return orgExt("NTR", "DE", "", "12345") }},
		{"state in attribute only", "NTRUS+CA-12345", func() *der.Node { return orgExt("NTR", "US", "", "12345") }},
		{"state consistent", "NTRUS+CA-12345", func() *der.Node { return orgExt("NTR", "US", "CA", "12345") }},
		// the two places spell ONE registration differently: letter case, surrounding blanks, the state as a full
		// ISO 3166-2 code (country prefix repeated), lower-case country / state / scheme
		{"reference differs in case only", "NTRIT-HRB4567890", func() *der.Node { return orgExt("NTR", "IT", "", "hrb4567890") }},
		{"reference differs in case only (upper in extension)", "NTRIT-hrb4567890", func() *der.Node { return orgExt("NTR", "IT", "", "HRB4567890") }},
		{"reference padded with blanks", "NTRUS-12345", func() *der.Node { return orgExt("NTR", "US", "", " 12345 ") }},
		{"state as full ISO 3166-2 code", "NTRUS+CA-12345", func() *der.Node { return orgExt("NTR", "US", "US-CA", "12345") }},
		{"state as country prefix only", "NTRUS+CA-12345", func() *der.Node { return orgExt("NTR", "US", "US-", "12345") }},
		{"state in lower case", "NTRUS+CA-12345", func() *der.Node { return orgExt("NTR", "US", "ca", "12345") }},
		{"country in lower case", "NTRUS-12345", func() *der.Node { return orgExt("NTR", "us", "", "12345") }},
		{"scheme in lower case", "NTRUS-12345", func() *der.Node { return orgExt("ntr", "US", "", "12345") }},
		{"VAT reference differs in case only", "VATDE-ab123456789", func() *der.Node { return orgExt("VAT", "DE", "", "AB123456789") }},
		{"PSD consistent", "PSDDE-BAFIN-123456", func() *der.Node { return orgExt("PSD", "DE", "", "BAFIN-123456") }},
		{"PSD reference differs", "PSDDE-BAFIN-123456", func() *der.Node { return orgExt("PSD", "DE", "", "BAFIN-999999") }},
		{"PSD attribute unparseable as PSD", "PSDDE-123456", func() *der.Node { return orgExt("PSD", "DE", "", "X-123456") }},
		{"PSD scheme in extension differs", "PSDDE-BAFIN-123456", func() *der.Node { return orgExt("NTR", "DE", "", "BAFIN-123456") }},
		{"attribute unparseable", "??", func() *der.Node { return orgExt("NTR", "US", "", "12345") }},
		{"attribute empty", "", func() *der.Node { return orgExt("NTR", "US", "", "12345") }},
		{"extension absent", "VATDE-123456789", func() *der.Node { return nil }},
		{"LEI scheme", "LEIXG-529900T8BM49AURSDO55", func() *der.Node { return orgExt("LEI", "XG", "", "529900T8BM49AURSDO55") }},
		{"INT scheme", "INTXG-12345", func() *der.Node { return orgExt("INT", "XG", "", "12345") }},
		{"GOV scheme", "GOVUS-12345", func() *der.Node { return orgExt("GOV", "US", "", "12345") }},
	}
	for _, oc := range orgCases {
		oc := oc
		cert("ev organisation identifier "+oc.name, func() *gen.Spec {
			s := gen.TLSLeaf(nb, "www.example.com")
			s.ReplaceExt(gen.ExtPolicies(gen.OIDPolEV))
			s.Subject = gen.Name(gen.A(gen.OIDJurC, "US"), gen.A(gen.OIDBizCat, "Private Organization"), gen.A(gen.OIDSerial, "C1234567"), gen.A(gen.OIDC, "US"), gen.A(gen.OIDST, "California"), gen.A(gen.OIDL, "San Francisco"), gen.A(gen.OIDO, "Example Org"), gen.A(gen.OIDOrgID, oc.attr), gen.A(gen.OIDCN, "www.example.com"))
			if e := oc.ext(); e != nil {
				s.Exts = append(s.Exts, e)
			}
			return s
		})
	}

	// QC type lists and limit values
	qcTypes := [][]string{{"0.4.0.1862.1.6.9", "0.4.0.1862.1.6.8"}, {"0.4.0.1862.1.6.1", "1.2.3"}, {"1.2.3", "0.4.0.1862.1.6.2", "1.2.4"}, {"0.4.0.1862.1.6.3"}, {"0.4.0.1862.1.6.1", "0.4.0.1862.1.6.1"}, {}}
	for _, tl := range qcTypes {
		for t := 0; t < 2; t++ {
			tl, t := tl, t
			cert(fmt.Sprintf("qc types %v on %s", tl, []string{"tls", "smime"}[t]), func() *gen.Spec {
				var s *gen.Spec
				if t == 0 {
					s = gen.TLSLeaf(nb, "www.example.com")
				} else {
					s = gen.SMIMELeaf(nb, "alice@example.com")
				}
				l := der.Seq()
				for _, o := range tl {
					l.Children = append(l.Children, der.OID(o))
				}
				s.Exts = append(s.Exts, qcExt(qcStmt(oidQcCompliance), qcStmt(oidQcType, l))...)
				return s
			})
		}
	}
	for i, info := range []func() *der.Node{
		func() *der.Node { return der.Str(der.TagPrintable, "EUR") },
		func() *der.Node { return der.Seq(der.OID("1.2.3")) },
		func() *der.Node { return der.Int64(7) },
		func() *der.Node { return der.Seq(der.Str(der.TagPrintable, "EUR")) },
	} {
		for t := 0; t < 2; t++ {
			info, t := info, t
			cert(fmt.Sprintf("qc type / limit statement with foreign info %d on %s", i, []string{"tls", "smime"}[t]), func() *gen.Spec {
				var s *gen.Spec
				if t == 0 {
					s = gen.TLSLeaf(nb, "www.example.com")
				} else {
					s = gen.SMIMELeaf(nb, "alice@example.com")
				}
				s.Exts = append(s.Exts, qcExt(qcStmt(oidQcCompliance), qcStmt(oidQcType, info()))...)
				return s
			})
			cert(fmt.Sprintf("qc limit statement with foreign info %d on %s", i, []string{"tls", "smime"}[t]), func() *gen.Spec {
				var s *gen.Spec
				if t == 0 {
					s = gen.TLSLeaf(nb, "www.example.com")
				} else {
					s = gen.SMIMELeaf(nb, "alice@example.com")
				}
				s.Exts = append(s.Exts, qcExt(qcStmt(oidQcCompliance), qcStmt(oidQcLimit, info()))...)
				return s
			})
		}
	}

	// notice references: organisation only / numbers only / both empty; explicit text with 5- and 6-byte lead bytes
	notices := []struct {
		name string
		mk   func() *der.Node
	}{
		{"organisation only", func() *der.Node { return userNotice(der.Seq(der.Str(der.TagUTF8, "Example Org"), der.Seq()), nil) }},
		{"numbers only", func() *der.Node { return userNotice(der.Seq(der.Str(der.TagUTF8, ""), der.Seq(der.Int64(1), der.Int64(2))), nil) }},
		{"empty organisation, no numbers", func() *der.Node { return userNotice(der.Seq(der.Str(der.TagUTF8, ""), der.Seq()), nil) }},
		{"organisation IA5", func() *der.Node { return userNotice(der.Seq(der.Str(der.TagIA5, "Example Org"), der.Seq()), der.Str(der.TagUTF8, "text")) }},
		{"explicit text 5-byte lead", func() *der.Node { return userNotice(nil, der.Str(der.TagUTF8, "a\xf8\x88\x80\x80\x80b")) }},
		{"explicit text 6-byte lead", func() *der.Node { return userNotice(nil, der.Str(der.TagUTF8, "a\xfc\x84\x80\x80\x80\x80b")) }},
		{"explicit text 5-byte lead then control", func() *der.Node { return userNotice(nil, der.Str(der.TagUTF8, "\xf8\x88\x80\x80\x80\x01")) }},
		{"explicit text 6-byte lead cut", func() *der.Node { return userNotice(nil, der.Str(der.TagUTF8, "ab\xfc\x84\x80")) }},
		{"explicit text 4-byte lead cut", func() *der.Node { return userNotice(nil, der.Str(der.TagUTF8, "ab\xf0\x9f")) }},
		{"explicit text 3-byte lead cut", func() *der.Node { return userNotice(nil, der.Str(der.TagUTF8, "ab\xe2\x82")) }},
		{"explicit text C2 80", func() *der.Node { return userNotice(nil, der.Str(der.TagUTF8, "ab\xc2\x80")) }},
		{"explicit text C2 9F then text", func() *der.Node { return userNotice(nil, der.Str(der.TagUTF8, "\xc2\x9fab")) }},
	}
	for _, nt := range notices {
		for t := 0; t < 2; t++ {
			nt, t := nt, t
			cert("user notice "+nt.name+[]string{" tls", " sub-ca"}[t], func() *gen.Spec {
				var s *gen.Spec
				if t == 0 {
					s = gen.TLSLeaf(nb, "www.example.com")
				} else {
					s = gen.SubCA(nb)
				}
				s.ReplaceExt(der.MakeExt(gen.OIDExtPol, false, der.Seq(der.Seq(der.OID(gen.OIDPolOV), der.Seq(nt.mk())))))
				return s
			})
		}
	}

	// key type x signature algorithm x issue date x template: rules about algorithms exist in several sources
	// (Mozilla, BRs, RFC) and look at the key, at the signature algorithm, or at both
	keys := []struct {
		name string
		mk   func() *der.Node
	}{
		{"rsa", func() *der.Node { return gen.DefaultSPKI() }},
		{"p256", func() *der.Node { return gen.ECSPKI() }},
		{"p384", func() *der.Node { return ecPointSPKI(gen.OIDP384, elliptic.P384()) }},
		{"dsa2048", func() *der.Node { return gen.DSASPKI(2048, 256) }},
		{"dsa1024", func() *der.Node { return gen.DSASPKI(1024, 160) }},
		{"ed25519", func() *der.Node { return gen.Ed25519SPKI() }},
	}
	sigs := []struct {
		name, oid string
		null      bool
		siglen    int
	}{
		{"sha256-rsa", gen.OIDSha256RSA, true, 256}, {"sha1-rsa", gen.OIDSha1RSA, true, 256}, {"md5-rsa", gen.OIDMd5RSA, true, 256}, {"sha384-rsa", gen.OIDSha384RSA, true, 384},
		{"ecdsa-sha256", gen.OIDEcdsaSha256, false, 71}, {"ecdsa-sha384", gen.OIDEcdsaSha384, false, 103}, {"dsa-sha1", gen.OIDDsaSha1, false, 46}, {"dsa-sha256", gen.OIDDsaSha256, false, 62},
		{"ed25519", gen.OIDEd25519, false, 64}, {"rsa-pss", "1.2.840.113549.1.1.10", false, 256}, {"sha256-rsa without null", gen.OIDSha256RSA, false, 256}, {"unknown", "1.2.3.4.5", false, 64},
	}
	dates := []time.Time{gen.D(2015, 3, 1), gen.D(2020, 8, 19), gen.D(2020, 8, 20), gen.D(2022, 3, 1), gen.D(2024, 3, 1)}
	for _, ky := range keys {
		for _, sg := range sigs {
			for di, dt := range dates {
				for t := 0; t < 3; t++ {
					ky, sg, dt, t := ky, sg, dt, t
					if t == 2 && di%2 == 1 {
						continue
					}
					cert(fmt.Sprintf("key %s signed %s issued %s on %s", ky.name, sg.name, dt.Format("2006-01-02"), []string{"tls", "sub-ca", "smime"}[t]), func() *gen.Spec {
						var s *gen.Spec
						switch t {
						case 0:
							s = gen.TLSLeaf(dt, "www.example.com")
						case 1:
							s = gen.SubCA(dt)
						default:
							s = gen.SMIMELeaf(dt, "alice@example.com")
						}
						s.SPKI = ky.mk()
						s.SigOID, s.SigNull, s.SigLen = sg.oid, sg.null, sg.siglen
						return s
					})
				}
			}
		}
	}

	// time encodings the parser may or may not take
	na := gen.D(2051, 6, 1)
	for i, tn := range []func() *der.Node{
		func() *der.Node { return der.Str(der.TagGenTime, na.Format("20060102150405")+".5Z") },
		func() *der.Node { return der.Str(der.TagGenTime, na.Format("200601021504")+"Z") },
		func() *der.Node { return der.Str(der.TagGenTime, na.Format("20060102150405")+"+0100") },
		func() *der.Node { return der.Str(der.TagGenTime, na.Format("20060102150405")+".000Z") },
		func() *der.Node { return der.Str(der.TagGenTime, na.Format("20060102150405")) },
		func() *der.Node { return der.Str(der.TagGenTime, gen.D(2030, 6, 1).Format("20060102150405")+"Z") },
		func() *der.Node { return der.Str(der.TagUTCTime, na.Format("0601021504")+"Z") },
		func() *der.Node { return der.Str(der.TagUTCTime, gen.D(2051, 6, 1).Format("060102150405")+"Z") },
		func() *der.Node { return der.Str(der.TagGenTime, na.Format("2006010215")+"Z") },
	} {
		tn := tn
		cert(fmt.Sprintf("notAfter time form %d", i), func() *gen.Spec {
			s := gen.TLSLeaf(nb, "www.example.com")
			s.NANode = tn()
			return s
		})
		cert(fmt.Sprintf("notBefore time form %d (sub-ca)", i), func() *gen.Spec {
			s := gen.SubCA(nb)
			s.NBNode = tn()
			s.NotAfter = gen.D(2060, 1, 1)
			return s
		})
	}

	// CRLs: empty revokedCertificates element, time forms
	crl := func(label string, mk func() *der.Node) {
		out = append(out, pathShape{label, corpus.CRL, func() []byte { return mk().Encode() }})
	}
	tu := gen.D(2024, 5, 1)
	crl("crl with an empty revokedCertificates element", func() *der.Node {
		s := gen.BasicCRL(tu)
		s.Revoked = nil
		t := s.Tree()
		tbs := t.Children[0]
		// insert SEQUENCE {} before the [0] extensions
		n := len(tbs.Children)
		tbs.Children = append(tbs.Children[:n-1:n-1], der.Seq(), tbs.Children[n-1])
		return t
	})
	crl("crl v1 with an empty revokedCertificates element", func() *der.Node {
		s := gen.BasicCRL(tu)
		s.Revoked, s.V1 = nil, true
		t := s.Tree()
		t.Children[0].Children = append(t.Children[0].Children, der.Seq())
		return t
	})
	crl("crl without revokedCertificates", func() *der.Node {
		s := gen.BasicCRL(tu)
		s.Revoked = nil
		return s.Tree()
	})
	for i, tn := range []func() *der.Node{
		func() *der.Node { return der.Str(der.TagGenTime, tu.Format("20060102150405")+"Z") },
		func() *der.Node { return der.Str(der.TagGenTime, tu.Format("20060102150405")+".5Z") },
		func() *der.Node { return der.Str(der.TagUTCTime, tu.Format("0601021504")+"Z") },
		func() *der.Node { return der.Str(der.TagGenTime, gen.D(2051, 1, 1).Format("20060102150405")+"Z") },
	} {
		tn := tn
		crl(fmt.Sprintf("crl thisUpdate time form %d", i), func() *der.Node {
			s := gen.BasicCRL(tu)
			s.TUNode = tn()
			if i == 3 {
				s.NextUpdate = gen.D(2051, 1, 5)
			}
			return s.Tree()
		})
	}
	return out
}()

func pathShapeSize(c *mon.Ctx) int { return len(pathShapes) }

func pathShapeCase(c *mon.Ctx, k int) (*mon.Obj, string) {
	sh := pathShapes[k]
	o, _ := mon.ParseObj(sh.kind, "gen/paths/"+sh.label, sh.mk())
	return o, sh.label
}

func init() {
	dirFams = append(dirFams, dirFam{name: "return-paths", rank: 9, n: pathShapeSize, gen: pathShapeCase})
}
