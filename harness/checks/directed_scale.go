package checks

import (
	"fmt"
	"math/big"
	"strings"
	"time"

	"verif/corpus"
	"verif/der"
	"verif/gen"
	"verif/mon"
)

// ---- scale family ----
//
// Thresholds and positions: code that is right for the lists of 1-5 elements real certificates carry can change
// behaviour at a size (a fast path for short lists, a cap, a pre-sized buffer, an index held in a byte, an early exit
// after N findings) or at a position (first, last, exactly the 256th). The family is "one offending element in a list of
// N compliant ones at position p" for the list-valued parts of certificates and CRLs, plus single values at and around
// the sizes that integer widths and ASN.1 limits suggest (serial number octets, string lengths, dates at the
// UTCTime / GeneralizedTime switch, the Unix epoch and leap days).

type scaleShape struct {
	label string
	kind  corpus.Kind
	mk    func() []byte
}

var scaleNeedles = []struct {
	label string
	gn    func(i int) *der.Node
}{
	{"underscore name", func(i int) *der.Node { return gen.GNDNS(fmt.Sprintf("bad_host%d.example.com", i)) }},
	{"bare public suffix", func(i int) *der.Node { return gen.GNDNS("co.uk") }},
	{"invalid top-level domain", func(i int) *der.Node { return gen.GNDNS(fmt.Sprintf("host%d.example.invalidtldzz", i)) }},
	{"reserved address", func(i int) *der.Node { return gen.GNIP([]byte{10, 1, 2, byte(i)}) }},
	{"wildcard on a suffix", func(i int) *der.Node { return gen.GNDNS("*.co.uk") }},
	{"repeat of the first name in other case", func(i int) *der.Node { return gen.GNDNS("HOST0.example.com") }},
	{"label of 64 octets", func(i int) *der.Node { return gen.GNDNS(strings.Repeat("a", 64) + ".example.com") }},
	{"e-mail address without domain", func(i int) *der.Node { return gen.GNEmail("postmaster") }},
}

var scaleSizes = []int{2, 16, 17, 64, 255, 256, 257, 1000}

func scalePositions(n int) []int {
	var out []int
	seen := map[int]bool{}
	for _, p := range []int{0, 1, n / 2, 15, 16, 254, 255, 256, n - 2, n - 1} {
		if p >= 0 && p < n && !seen[p] {
			seen[p] = true
			out = append(out, p)
		}
	}
	return out
}

var scaleShapes = func() []scaleShape {
	var out []scaleShape
	nb := gen.D(2024, 3, 1)
	cert := func(label string, mk func() *gen.Spec) {
		out = append(out, scaleShape{label, corpus.Cert, func() []byte { return mk().DER() }})
	}
	// 1. one offending SAN entry among n compliant ones, at position p
	for ni, n := range scaleSizes {
		for _, p := range scalePositions(n) {
			for ki, nd := range scaleNeedles {
				if n >= 255 && (ki+p+ni)%3 != 0 { // the long lists take a third of the needle kinds per position
					continue
				}
				n, p, nd := n, p, nd
				cert(fmt.Sprintf("san of %d entries, %s at position %d", n, nd.label, p), func() *gen.Spec {
					s := gen.TLSLeaf(nb, "host0.example.com")
					var gns []*der.Node
					for i := 0; i < n; i++ {
						if i == p {
							gns = append(gns, nd.gn(i))
						} else {
							gns = append(gns, gen.GNDNS(fmt.Sprintf("host%d.example.com", i)))
						}
					}
					s.ReplaceExt(gen.ExtSAN(false, gns...))
					return s
				})
			}
		}
	}
	// 2. policy lists: the TLS policy at the first / last place among n private ones
	for _, n := range []int{1, 2, 16, 255, 256, 257} {
		for _, last := range []bool{false, true} {
			n, last := n, last
			cert(fmt.Sprintf("%d private policies, the TLS policy last=%v", n, last), func() *gen.Spec {
				s := gen.TLSLeaf(nb, "www.example.com")
				s.RemoveExt(gen.OIDExtEKU) // in scope by policy or by the absent EKU extension
				var oids []string
				for i := 0; i < n; i++ {
					oids = append(oids, fmt.Sprintf("1.3.6.1.4.1.55555.7.%d", i+1))
				}
				if last {
					oids = append(oids, gen.OIDPolOV)
				} else {
					oids = append([]string{gen.OIDPolOV}, oids...)
				}
				s.ReplaceExt(gen.ExtPolicies(oids...))
				return s
			})
			cert(fmt.Sprintf("%d private policies with clientAuth only, the TLS policy last=%v", n, last), func() *gen.Spec {
				s := gen.TLSLeaf(nb, "www.example.com")
				s.ReplaceExt(gen.ExtEKU(false, gen.OIDEkuClient))
				var oids []string
				for i := 0; i < n; i++ {
					oids = append(oids, fmt.Sprintf("1.3.6.1.4.1.55555.7.%d", i+1))
				}
				if last {
					oids = append(oids, gen.OIDPolDV)
				} else {
					oids = append([]string{gen.OIDPolDV}, oids...)
				}
				s.ReplaceExt(gen.ExtPolicies(oids...))
				return s
			})
		}
	}
	// 3. extended key usages: serverAuth / emailProtection / codeSigning behind n unknown purposes
	for _, n := range []int{1, 8, 64, 256} {
		for _, eku := range []string{gen.OIDEkuServer, gen.OIDEkuEmail, gen.OIDEkuCode, gen.OIDEkuAny} {
			n, eku := n, eku
			cert(fmt.Sprintf("%d unknown key purposes, then %s", n, eku), func() *gen.Spec {
				var s *gen.Spec
				switch eku {
				case gen.OIDEkuEmail:
					s = gen.SMIMELeaf(nb, "alice@example.com")
				case gen.OIDEkuCode:
					s = gen.CSLeaf(nb)
				default:
					s = gen.TLSLeaf(nb, "www.example.com")
				}
				var oids []string
				for i := 0; i < n; i++ {
					oids = append(oids, fmt.Sprintf("1.3.6.1.4.1.55555.8.%d", i+1))
				}
				s.ReplaceExt(gen.ExtEKU(false, append(oids, eku)...))
				return s
			})
		}
	}
	// 4. many values of one subject attribute, one offending value at the end / in front
	for _, n := range []int{2, 10, 64, 256} {
		for _, front := range []bool{false, true} {
			for t := 0; t < 2; t++ {
				n, front, t := n, front, t
				cert(fmt.Sprintf("%d organisational units, an offending one in front=%v, template %d", n, front, t), func() *gen.Spec {
					var s *gen.Spec
					attrs := []gen.ATV{gen.A(gen.OIDC, "US"), gen.A(gen.OIDO, "Example Org")}
					bad := gen.A(gen.OIDOU, "R&amp;D "+strings.Repeat("x", 70))
					if front {
						attrs = append(attrs, bad)
					}
					for i := 0; i < n; i++ {
						attrs = append(attrs, gen.A(gen.OIDOU, fmt.Sprintf("Unit %d", i)))
					}
					if !front {
						attrs = append(attrs, bad)
					}
					if t == 0 {
						s = gen.TLSLeaf(gen.D(2021, 3, 1), "www.example.com")
						attrs = append(attrs, gen.A(gen.OIDCN, "www.example.com"))
					} else {
						s = gen.SubCA(nb)
						attrs = append(attrs, gen.A(gen.OIDCN, "Verif Issuing CA R1"))
					}
					s.Subject = gen.Name(attrs...)
					return s
				})
			}
		}
	}
	// 5. many unknown extensions around the known ones
	for _, n := range []int{8, 40, 200} {
		n := n
		cert(fmt.Sprintf("%d unknown extensions in front of the known ones", n), func() *gen.Spec {
			s := gen.TLSLeaf(nb, "www.example.com")
			var ex []*der.Node
			for i := 0; i < n; i++ {
				ex = append(ex, der.MakeExtRaw(fmt.Sprintf("1.3.6.1.4.1.55555.9.%d", i+1), false, []byte{0x05, 0x00}))
			}
			s.Exts = append(ex, s.Exts...)
			return s
		})
		cert(fmt.Sprintf("%d unknown extensions behind the known ones, one of them critical", n), func() *gen.Spec {
			s := gen.TLSLeaf(nb, "www.example.com")
			for i := 0; i < n; i++ {
				s.Exts = append(s.Exts, der.MakeExtRaw(fmt.Sprintf("1.3.6.1.4.1.55555.9.%d", i+1), i == n-1, []byte{0x05, 0x00}))
			}
			return s
		})
	}
	// 6. serial numbers by octet count and leading octet
	for _, sz := range []int{1, 8, 16, 19, 20, 21, 32} {
		for _, lead := range []byte{0x01, 0x7f, 0x80, 0xff} {
			sz, lead := sz, lead
			cert(fmt.Sprintf("serial number of %d octets leading %#02x", sz, lead), func() *gen.Spec {
				b := make([]byte, sz)
				for i := range b {
					b[i] = byte(0x11 + i)
				}
				b[0] = lead
				s := gen.TLSLeaf(nb, "www.example.com")
				s.Serial = new(big.Int).SetBytes(b) // a leading octet >= 0x80 gets a 00 in front: sz+1 content octets
				return s
			})
		}
	}
	// negative serial numbers by magnitude width (two's complement: the content octets differ from the magnitude's)
	for _, sz := range []int{8, 19, 20, 21, 22, 33} {
		for _, lead := range []byte{0x01, 0x7f, 0x80, 0x96, 0xff} {
			sz, lead := sz, lead
			cert(fmt.Sprintf("negative serial number, magnitude of %d octets leading %#02x", sz, lead), func() *gen.Spec {
				b := make([]byte, sz)
				for i := range b {
					b[i] = byte(0x23 + i)
				}
				b[0] = lead
				s := gen.TLSLeaf(nb, "www.example.com")
				s.Serial = new(big.Int).Neg(new(big.Int).SetBytes(b))
				return s
			})
		}
	}
	cert("serial number -2^159", func() *gen.Spec {
		s := gen.TLSLeaf(nb, "www.example.com")
		s.Serial = new(big.Int).Neg(new(big.Int).Lsh(big.NewInt(1), 159))
		return s
	})
	cert("serial number zero", func() *gen.Spec { s := gen.TLSLeaf(nb, "www.example.com"); s.Serial = big.NewInt(0); return s })
	cert("serial number negative", func() *gen.Spec { s := gen.TLSLeaf(nb, "www.example.com"); s.Serial = big.NewInt(-12345); return s })
	// 7. string lengths
	for _, n := range []int{1, 63, 64, 65, 255, 256, 4096, 65535, 65536, 70000} {
		for _, oid := range []string{gen.OIDCN, gen.OIDO, gen.OIDL} {
			n, oid := n, oid
			if n > 4096 && oid != gen.OIDO {
				continue
			}
			cert(fmt.Sprintf("attribute %s of %d characters", oid, n), func() *gen.Spec {
				s := gen.TLSLeaf(nb, "www.example.com")
				v := strings.Repeat("n", n)
				attrs := []gen.ATV{gen.A(gen.OIDC, "US"), gen.A(gen.OIDST, "California")}
				for _, o := range []string{gen.OIDL, gen.OIDO, gen.OIDCN} {
					if o == oid {
						attrs = append(attrs, gen.A(o, v))
					} else {
						attrs = append(attrs, gen.A(o, map[string]string{gen.OIDL: "San Francisco", gen.OIDO: "Example Org", gen.OIDCN: "www.example.com"}[o]))
					}
				}
				s.Subject = gen.Name(attrs...)
				return s
			})
		}
	}
	for _, n := range []int{1, 63, 64, 253, 254, 255, 256, 1000} {
		n := n
		cert(fmt.Sprintf("dNSName of %d octets", n), func() *gen.Spec {
			var sb strings.Builder
			for sb.Len() < n-12 {
				sb.WriteString("abcdefgh.")
			}
			name := sb.String() + "example.com"
			for len(name) < n {
				name = "a" + name
			}
			if len(name) > n {
				name = name[len(name)-n:]
			}
			return gen.TLSLeaf(nb, "www.example.com", name)
		})
	}
	// 8. dates
	type dt struct {
		label  string
		nb, na time.Time
	}
	T := func(y, m, d, hh, mm, ss int) time.Time { return time.Date(y, time.Month(m), d, hh, mm, ss, 0, time.UTC) }
	for _, d := range []dt{
		{"notBefore 1950-01-01", T(1950, 1, 1, 0, 0, 0), T(1951, 1, 1, 0, 0, 0)},
		{"notBefore one second before the epoch", T(1969, 12, 31, 23, 59, 59), T(1971, 1, 1, 0, 0, 0)},
		{"notBefore at the epoch", T(1970, 1, 1, 0, 0, 0), T(1971, 1, 1, 0, 0, 0)},
		{"notBefore 2000-02-29", T(2000, 2, 29, 12, 0, 0), T(2001, 2, 28, 12, 0, 0)},
		{"notBefore 2024-02-29, 398 days", T(2024, 2, 29, 0, 0, 0), T(2024, 2, 29, 0, 0, 0).Add(398*24*time.Hour - time.Second)},
		{"notBefore 2023-02-28, one year by calendar", T(2023, 2, 28, 0, 0, 0), T(2024, 2, 29, 0, 0, 0)},
		{"notAfter last second of 2049", T(2049, 1, 1, 0, 0, 0), T(2049, 12, 31, 23, 59, 59)},
		{"notAfter first second of 2050", T(2049, 1, 1, 0, 0, 0), T(2050, 1, 1, 0, 0, 0)},
		{"notBefore first second of 2050", T(2050, 1, 1, 0, 0, 0), T(2050, 6, 1, 0, 0, 0)},
		{"notAfter 9999-12-31T23:59:59", T(2024, 3, 1, 0, 0, 0), T(9999, 12, 31, 23, 59, 59)},
		{"notAfter before notBefore", T(2024, 3, 1, 0, 0, 0), T(2024, 2, 1, 0, 0, 0)},
		{"notAfter equal to notBefore", T(2024, 3, 1, 0, 0, 0), T(2024, 3, 1, 0, 0, 0)},
		{"validity of 2^31 seconds", T(2024, 3, 1, 0, 0, 0), T(2024, 3, 1, 0, 0, 0).Add(time.Duration(1<<31) * time.Second)},
		{"notBefore 2038-01-19T03:14:08", T(2038, 1, 19, 3, 14, 8), T(2038, 6, 1, 0, 0, 0)},
	} {
		for t := 0; t < 3; t++ {
			d, t := d, t
			cert(fmt.Sprintf("%s on %s", d.label, []string{"tls", "sub-ca", "smime"}[t]), func() *gen.Spec {
				var s *gen.Spec
				switch t {
				case 0:
					s = gen.TLSLeaf(d.nb, "www.example.com")
				case 1:
					s = gen.SubCA(d.nb)
				default:
					s = gen.SMIMELeaf(d.nb, "alice@example.com")
				}
				s.NotBefore, s.NotAfter = d.nb, d.na
				return s
			})
		}
	}
	// 8b. CRL entries whose serial numbers are wide (19 - 33 octets), negative, and listed once or twice
	for _, sz := range []int{19, 20, 21, 22, 26, 33} {
		for v := 0; v < 4; v++ {
			sz, v := sz, v
			out = append(out, scaleShape{fmt.Sprintf("crl with revoked serial numbers of %d octets (variant %d: 0 distinct, 1 repeated, 2 negative, 3 negative repeated)", sz, v), corpus.CRL, func() []byte {
				tu := gen.D(2024, 3, 1)
				s := gen.BasicCRL(tu)
				s.Revoked = nil
				mk := func(k int) *der.Node {
					b := make([]byte, sz)
					for i := range b {
						b[i] = byte(0x31 + i + k)
					}
					b[0] = 0x01
					n := new(big.Int).SetBytes(b)
					if v >= 2 {
						n.Neg(n)
					}
					return der.Seq(der.Int(n), der.Time(tu.Add(-time.Hour)))
				}
				s.Revoked = append(s.Revoked, gen.Revoked(7, tu.Add(-time.Hour)), mk(0), mk(1))
				if v%2 == 1 {
					s.Revoked = append(s.Revoked, mk(0))
				}
				return s.DER()
			}})
		}
	}
	// 9. CRL entry counts, one offending entry at the end
	for _, n := range []int{0, 1, 2, 255, 256, 257, 4095, 4096, 65537} {
		for v := 0; v < 2; v++ {
			n, v := n, v
			out = append(out, scaleShape{fmt.Sprintf("crl of %d entries, offending entry last (variant %d)", n, v), corpus.CRL, func() []byte {
				tu := gen.D(2024, 3, 1)
				s := gen.BasicCRL(tu)
				s.Revoked = nil
				for i := 0; i < n; i++ {
					var exts []*der.Node
					if i == n-1 {
						exts = []*der.Node{gen.ExtReason([]int64{0, 7}[v])}
					} else if i%3 == 0 {
						exts = []*der.Node{gen.ExtReason(1)}
					}
					serial := int64(i + 1)
					if v == 1 && i == n-1 && n > 1 {
						serial = 1 // the last entry repeats the first serial number
					}
					s.Revoked = append(s.Revoked, gen.Revoked(serial, tu.Add(-time.Hour), exts...))
				}
				return s.DER()
			}})
		}
	}
	return out
}()

func scaleSize(c *mon.Ctx) int { return len(scaleShapes) }

func scaleCase(c *mon.Ctx, k int) (*mon.Obj, string) {
	sh := scaleShapes[k]
	o, _ := mon.ParseObj(sh.kind, "gen/scale/"+sh.label, sh.mk())
	return o, sh.label
}

func init() {
	dirFams = append(dirFams, dirFam{name: "scale", rank: 11, n: scaleSize, gen: scaleCase})
}
