package checks

import (
	"bytes"
	"fmt"
	"strings"
	"sync"

	"verif/corpus"
	"verif/der"
	"verif/mon"
)

// ---- signature-shape family ----
//
// The parser never looks inside signatureValue; lints that inspect its ENCODING (ECDSA-Sig-Value, lengths) get whatever
// an issuer - or an attacker - put there. Shapes: SEQUENCE{r, s} with an empty / zero / negative / over-long / padded
// integer on either side, one or three integers, an empty SEQUENCE, trailing octets, a bare INTEGER, NULL, an empty BIT
// STRING, unused bits, 4 KiB of octets. Bases: the first two non-self-issued seeds of every signature algorithm.

type sigShape struct {
	name string
	bits func() ([]byte, byte) // BIT STRING contents and unused-bit count
}

func derInt(content ...byte) []byte { return append([]byte{0x02, byte(len(content))}, content...) }
func derSeq(parts ...[]byte) []byte {
	body := bytes.Join(parts, nil)
	if len(body) < 128 {
		return append([]byte{0x30, byte(len(body))}, body...)
	}
	return append([]byte{0x30, 0x81, byte(len(body))}, body...)
}

var sigShapes = func() []sigShape {
	r32 := bytes.Repeat([]byte{0x5a}, 32)
	out := []sigShape{}
	add := func(n string, b []byte, unused byte) {
		out = append(out, sigShape{n, func() ([]byte, byte) { return append([]byte{}, b...), unused }})
	}
	add("SEQUENCE{r, s} ordinary", derSeq(derInt(r32...), derInt(r32...)), 0)
	add("SEQUENCE{empty INTEGER, s}", derSeq(derInt(), derInt(r32...)), 0)
	add("SEQUENCE{r, empty INTEGER}", derSeq(derInt(r32...), derInt()), 0)
	add("SEQUENCE{empty, empty}", derSeq(derInt(), derInt()), 0)
	add("SEQUENCE{0, 0}", derSeq(derInt(0), derInt(0)), 0)
	add("SEQUENCE{negative r, s}", derSeq(derInt(append([]byte{0x80}, r32...)...), derInt(r32...)), 0)
	add("SEQUENCE{r with two leading zero octets, s}", derSeq(derInt(append([]byte{0, 0}, r32...)...), derInt(r32...)), 0)
	add("SEQUENCE{r of 49 octets, s of 1}", derSeq(derInt(bytes.Repeat([]byte{0x11}, 49)...), derInt(1)), 0)
	add("SEQUENCE{r of 67 octets, s of 67}", derSeq(derInt(bytes.Repeat([]byte{0x11}, 67)...), derInt(bytes.Repeat([]byte{0x22}, 67)...)), 0)
	add("SEQUENCE{r}", derSeq(derInt(r32...)), 0)
	add("SEQUENCE{r, s, t}", derSeq(derInt(r32...), derInt(r32...), derInt(7)), 0)
	add("empty SEQUENCE", derSeq(), 0)
	add("SEQUENCE{r, s} followed by octets", append(derSeq(derInt(r32...), derInt(r32...)), 0xde, 0xad), 0)
	add("SEQUENCE{OCTET STRING, NULL}", derSeq([]byte{0x04, 0x02, 1, 2}, []byte{0x05, 0x00}), 0)
	add("SEQUENCE with a length beyond the value", []byte{0x30, 0x50, 0x02, 0x01, 0x01}, 0)
	add("bare INTEGER", derInt(r32...), 0)
	add("NULL", []byte{0x05, 0x00}, 0)
	add("empty BIT STRING", nil, 0)
	add("one octet", []byte{0x30}, 0)
	add("one octet with 7 unused bits", []byte{0x80}, 7)
	add("256 octets with 3 unused bits", append(bytes.Repeat([]byte{0xa5}, 255), 0xa8), 3)
	add("4 KiB of octets", bytes.Repeat([]byte{0x30, 0x82}, 2048), 0)
	return out
}()

var (
	sigBasesOnce sync.Once
	sigBases     []int
)

func sigBasesBuild() {
	sigBasesOnce.Do(func() {
		per := map[string]int{}
		for _, idx := range W.ByKind[corpus.Cert] {
			o := W.Objs[idx]
			if bytes.Equal(o.Cert.RawIssuer, o.Cert.RawSubject) {
				continue
			}
			a := o.Cert.SignatureAlgorithm.String()
			if per[a] >= 2 {
				continue
			}
			per[a]++
			sigBases = append(sigBases, idx)
		}
	})
}

func sigShapeSize(c *mon.Ctx) int { sigBasesBuild(); return len(sigBases) * len(sigShapes) }

func sigShapeCase(c *mon.Ctx, k int) (o *mon.Obj, how string) {
	sigBasesBuild()
	defer func() {
		if recover() != nil {
			o = nil
		}
	}()
	sh := sigShapes[k%len(sigShapes)]
	base := W.Objs[sigBases[k/len(sigShapes)%len(sigBases)]]
	dc, err := der.ParseCert(base.DER)
	if err != nil {
		return nil, ""
	}
	b, unused := sh.bits()
	n := dc.SigBits()
	n.Wrapped = nil
	n.Content = append([]byte{unused}, b...)
	how = fmt.Sprintf("%s (%s): signature value %s", strings.TrimPrefix(base.Name, "cert/"), base.Cert.SignatureAlgorithm, sh.name)
	o, _ = mon.ParseObj(corpus.Cert, "gen/sigshape/"+how, dc.Encode())
	return o, how
}

func init() {
	dirFams = append(dirFams, dirFam{name: "signature-shapes", rank: 14, n: sigShapeSize, gen: sigShapeCase})
}
