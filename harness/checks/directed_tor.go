package checks

import (
	"fmt"
	"net/url"
	"strings"

	"verif/corpus"
	"verif/der"
	"verif/gen"
	"verif/mon"
)

// ---- Tor-service-descriptor family ----
//
// The TorServiceDescriptor extension (2.23.140.1.31) carries, per hidden service, an onion URI, a hash algorithm and a
// hash. The lints re-parse the URI themselves. Shapes: URIs without a host (only a port, an empty IP literal, only
// userinfo, no authority at all), with a port, userinfo, path, query, upper case, a trailing dot, sub-labels, other
// schemes, not URIs at all; hash algorithms SHA-256 / 384 / 512 / unknown with matching, short and long hashes and
// unused bits; one descriptor, or a good one in front of / behind the odd one. EV subscriber template (the onion lints
// only run there) whose SAN holds the URI's host name when it has one.

var torURIs = []string{"https://descriptor2host7.onion", "https://:443/onion", "https://[]/a.onion", "https:///descriptor2host7.onion", "https://", "https://user@/", "https://user:pw@descriptor2host7.onion",
	"http://descriptor2host7.onion", "https://descriptor2host7.onion:443", "https://descriptor2host7.onion:", "https://DESCRIPTOR2HOST7.ONION", "descriptor2host7.onion", "https://descriptor2host7.onion/path?x=1#y",
	"https://%zz/", "https://[::1]:443/", "https://descriptor2host7.onion:abc", "//descriptor2host7.onion", "https:descriptor2host7.onion", "", " https://descriptor2host7.onion", "https://descriptor2host7.onion.",
	"https://www.descriptor2host7.onion", "HTTPS://descriptor2host7.onion", "https://descriptor2host7.onion\x00", "https://xn--h-oeb.onion", "https://descriptor2host7.onion:65536", "https://.onion", "https://onion",
	"https://a b.onion", "https://descriptor2host7.onion/%", "mailto:descriptor2host7.onion", "https://[fe80::1%25eth0]/", "https://descriptor2host7.onion@evil.example.com"}

type torHashSpec struct {
	how    string
	oid    string
	n      int
	unused byte
}

var torHashSpecs = []torHashSpec{{"sha256/256", "2.16.840.1.101.3.4.2.1", 32, 0}, {"sha384/384", "2.16.840.1.101.3.4.2.2", 48, 0}, {"sha512/512", "2.16.840.1.101.3.4.2.3", 64, 0},
	{"sha256 with a 31-octet hash", "2.16.840.1.101.3.4.2.1", 31, 0}, {"sha256 with a 33-octet hash", "2.16.840.1.101.3.4.2.1", 33, 0}, {"unknown algorithm", "1.2.3.4.5", 32, 0},
	{"sha256 with 3 unused bits", "2.16.840.1.101.3.4.2.1", 32, 3}, {"sha1/160", "1.3.14.3.2.26", 20, 0}, {"empty hash", "2.16.840.1.101.3.4.2.1", 0, 0}}

func torURIShapeSize(c *mon.Ctx) int { return len(torURIs) * len(torHashSpecs) * 3 }

func torDesc(uri string, h torHashSpec, salt int) *der.Node {
	hash := make([]byte, h.n)
	for k := range hash {
		hash[k] = byte(k*7 + salt)
	}
	if h.unused > 0 && len(hash) > 0 {
		hash[len(hash)-1] &^= 1<<h.unused - 1
	}
	return der.Seq(der.Str(der.TagUTF8, uri), der.Seq(der.OID(h.oid)), der.Bits(hash, h.unused))
}

func torURIShapeCase(c *mon.Ctx, k int) (*mon.Obj, string) {
	place := k % 3
	k /= 3
	h := torHashSpecs[k%len(torHashSpecs)]
	u := torURIs[k/len(torHashSpecs)%len(torURIs)]
	host := "descriptor2host7.onion"
	if pu, err := url.Parse(u); err == nil && strings.HasSuffix(strings.ToLower(pu.Hostname()), ".onion") && !strings.ContainsAny(pu.Hostname(), " \x00") {
		host = pu.Hostname()
	}
	good := torDesc("https://"+c17V2, torHashSpecs[0], 1)
	list := der.Seq(torDesc(u, h, 0))
	switch place {
	case 1:
		list = der.Seq(good, torDesc(u, h, 0))
	case 2:
		list = der.Seq(torDesc(u, h, 0), good)
	}
	spec := gen.TLSLeaf(gen.D(2019, 3, 1), host, c17V2)
	spec.Subject = gen.Name(gen.A(gen.OIDC, "US"), gen.A(gen.OIDO, "Example Org"), gen.A(gen.OIDCN, "www.example.com"))
	spec.ReplaceExt(gen.ExtPolicies(gen.OIDPolEV))
	spec.Exts = append(spec.Exts, der.MakeExt("2.23.140.1.31", false, list))
	how := fmt.Sprintf("Tor descriptor URI %q, %s, placement %d", u, h.how, place)
	o, _ := mon.ParseObj(corpus.Cert, "gen/tor/"+how, spec.DER())
	return o, how
}

func init() {
	dirFams = append(dirFams, dirFam{name: "tor-descriptor-uris", rank: 12, n: torURIShapeSize, gen: torURIShapeCase})
}
