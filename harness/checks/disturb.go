package checks

import (
	"sync"

	"github.com/zmap/zlint/v3/lint"

	"verif/mon"
)

// disturb: an exact verdict ("exactly the arithmetic predicate", "exactly the table", "exactly the documented set")
// holds whatever this process linted before. Before its first case, and again between cases, every worker of the
// checks with an exact reference (C16, C18, C19) lints objects that have nothing to do with RSA arithmetic - the whole seed pool
// and the small directed families (qualified-certificate statements with limit values, name constraints, CRLs, OCSP
// responses, SCT lists ...): shared package-level values that such a run leaves changed (a big.Int constant written
// through, a table re-sliced) would falsify the verdicts judged afterwards, and the arithmetic reference sees it.
var (
	disturbOnce sync.Once
	disturbObjs []*mon.Obj
)

func disturb(c *mon.Ctx, i int) {
	g := lint.GlobalRegistry()
	disturbOnce.Do(func() {
		disturbObjs = append(disturbObjs, W.Objs...)
		dC, tail := directedCount(c), directedSmallTail(c)
		for k := dC - tail; k < dC; k++ {
			if o, _ := directedCase(c, k); o != nil {
				disturbObjs = append(disturbObjs, o)
			}
		}
		for _, o := range disturbObjs {
			o.Lint(g)
			c.R.Count("disturbance_objects_linted", 1)
		}
	})
	if i%61 == 0 && len(disturbObjs) > 0 {
		for k := 0; k < 12; k++ {
			disturbObjs[(i/61*12+k)%len(disturbObjs)].Lint(g)
			c.R.Count("disturbance_objects_linted", 1)
		}
	}
}

