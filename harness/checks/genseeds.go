package checks

import (
	"verif/corpus"
	"verif/gen"
	"verif/mon"
)

// addGenSeeds adds generated seeds (scopes the repository corpus is thin on)
// to the mutation pool.
func addGenSeeds(w *mon.Workload) {
	nb := gen.D(2024, 3, 1)
	w.Extra(corpus.Cert, "gen/tls", gen.TLSLeaf(nb, "www.example.com", "example.org").DER())
	w.Extra(corpus.Cert, "gen/smime", gen.SMIMELeaf(nb, "alice@example.com").DER())
	w.Extra(corpus.Cert, "gen/cs", gen.CSLeaf(nb).DER())
	w.Extra(corpus.Cert, "gen/subca", gen.SubCA(nb).DER())
	w.Extra(corpus.Cert, "gen/root", gen.RootCA(gen.D(2010, 1, 1), gen.DefaultKey()).DER())
	w.Extra(corpus.CRL, "gen/crl", gen.BasicCRL(nb).DER())
}
