package checks

import (
	"fmt"
	"math/rand"

	"verif/corpus"
	"verif/der"
	"verif/gen"
	"verif/mon"
)

// FamilyStart is the index in W.Objs of the first generated-family member
// (everything before it is the frozen corpus).
var FamilyStart, FamilyEnd int

var familyEKUs = []string{gen.OIDEkuServer, gen.OIDEkuClient, gen.OIDEkuCode, gen.OIDEkuEmail, gen.OIDEkuTime, gen.OIDEkuOCSP, gen.OIDEkuAny,
	"2.16.840.1.113730.4.1" /* nsSGC */, "1.3.6.1.4.1.311.10.3.3" /* msSGC */, "1.3.6.1.5.5.7.3.5" /* ipsecEndSystem */, "1.3.6.1.4.1.99999.1"}

// addGenSeeds adds generated seeds (scopes and combinations the repository
// corpus is thin on) to the seed pool.
func addGenSeeds(w *mon.Workload) {
	nb := gen.D(2024, 3, 1)
	FamilyStart = len(w.Objs)
	w.Extra(corpus.Cert, "gen/tls", gen.TLSLeaf(nb, "www.example.com", "example.org").DER())
	w.Extra(corpus.Cert, "gen/smime", gen.SMIMELeaf(nb, "alice@example.com").DER())
	w.Extra(corpus.Cert, "gen/cs", gen.CSLeaf(nb).DER())
	w.Extra(corpus.Cert, "gen/subca", gen.SubCA(nb).DER())
	w.Extra(corpus.Cert, "gen/root", gen.RootCA(gen.D(2010, 1, 1), gen.DefaultKey()).DER())
	w.Extra(corpus.CRL, "gen/crl", gen.BasicCRL(nb).DER())
	// key-usage x extended-key-usage combinations on subscriber certificates (fixed generator seed:
	// the family is part of the seed pool, identical for every VERIF_SEED)
	rng := rand.New(rand.NewSource(20240301))
	for k := 0; k < 96; k++ {
		var s *gen.Spec
		switch k % 3 {
		case 0:
			s = gen.TLSLeaf(nb, "www.example.com")
		case 1:
			s = gen.SMIMELeaf(nb, "alice@example.com")
		default:
			s = gen.CSLeaf(nb)
		}
		n := 1 + rng.Intn(3)
		var ekus []string
		for j := 0; j < n; j++ {
			ekus = append(ekus, familyEKUs[rng.Intn(len(familyEKUs))])
		}
		var bits []int
		for b := 0; b < 9; b++ {
			if rng.Intn(3) == 0 {
				bits = append(bits, b)
			}
		}
		if len(bits) == 0 {
			bits = []int{0}
		}
		s.ReplaceExt(gen.ExtEKU(false, ekus...))
		s.ReplaceExt(gen.ExtKU(k%4 != 0, bits...))
		w.Extra(corpus.Cert, fmt.Sprintf("gen/kueku/%d:ku%v:eku%d", k, bits, len(ekus)), s.DER())
	}
	// SAN shapes: mixed-case names shared with the common name, 3 / 5 entries (spare slice capacity after parsing)
	for k, names := range [][]string{
		{"WWW.Example.com", "example.com", "api.example.com"},
		{"Mail.Example.ORG", "www.example.org", "example.org", "a.example.org", "B.example.org"},
		{"xn--Bcher-kva.example.com", "www.example.com", "EXAMPLE.com"},
		{"abc.Onion", "www.example.com", "x.example.com"},
	} {
		s := gen.TLSLeaf(nb, names...)
		var gns []*der.Node
		for _, n := range names {
			gns = append(gns, gen.GNDNS(n))
		}
		s.ReplaceExt(gen.ExtSAN(false, gns...))
		w.Extra(corpus.Cert, fmt.Sprintf("gen/mixedcase/%d", k), s.DER())
	}
	FamilyEnd = len(w.Objs)
}
