//go:build race

package checks

const raceEnabled = true
