package checks

import (
	"time"

	"verif/corpus"
	"verif/der"
	"verif/mon"
)

// redate returns o with its window date (certificate notBefore, CRL
// thisUpdate, OCSP nextUpdate) moved to target; the companion date (notAfter,
// nextUpdate, thisUpdate) is shifted by the same amount so that durations are
// kept. offMin != 0 encodes the same instant in a +hhmm zone. nil when the
// parser does not accept the result.
// GenTimeForm as offMin selects the GeneralizedTime "Z" encoding of the date.
const GenTimeForm = 99999

func redate(o *mon.Obj, target time.Time, offMin int) *mon.Obj {
	return redateX(o, target, offMin, false)
}

// redateX with keep leaves the companion date where it is.
func redateX(o *mon.Obj, target time.Time, offMin int, keep bool) *mon.Obj {
	switch o.Kind {
	case corpus.Cert:
		dc, err := der.ParseCert(o.DER)
		if err != nil {
			return nil
		}
		delta := target.Sub(o.Cert.NotBefore)
		na := o.Cert.NotAfter.Add(delta)
		if na.Year() > 9999 || na.Year() < 0 {
			na = target.Add(24 * time.Hour)
		}
		if keep {
			na = o.Cert.NotAfter
		}
		nbNode := der.TimeOffset(target, offMin)
		if offMin == GenTimeForm {
			nbNode = der.GenTime(target) // GeneralizedTime even where DER prescribes UTCTime: parsers often accept it
		}
		dc.SetValidity(nbNode, der.Time(na))
		n, _ := mon.ParseObj(o.Kind, o.Name, dc.Encode())
		return n
	case corpus.CRL:
		dr, err := der.ParseCRL(o.DER)
		if err != nil {
			return nil
		}
		delta := target.Sub(o.CRL.ThisUpdate)
		tuNode := der.TimeOffset(target, offMin)
		if offMin == GenTimeForm {
			tuNode = der.GenTime(target)
		}
		dr.SetThisUpdate(tuNode)
		if !keep && dr.NextUpdate() != nil && !o.CRL.NextUpdate.IsZero() {
			nu := o.CRL.NextUpdate.Add(delta)
			if nu.Year() <= 9999 && nu.Year() >= 0 {
				dr.SetNextUpdate(der.Time(nu))
			}
		}
		n, _ := mon.ParseObj(o.Kind, o.Name, dr.Encode())
		return n
	default:
		root, err := der.Parse(o.DER)
		if err != nil {
			return nil
		}
		var nu *der.Node
		if offMin == 0 || offMin == GenTimeForm {
			nu = der.GenTime(target)
		} else {
			nu = der.GenTimeOffset(target, offMin)
		}
		if !der.OCSPSetNextUpdate(root, nu) {
			return nil
		}
		if !keep && !o.OCSP.NextUpdate.IsZero() {
			delta := target.Sub(o.OCSP.NextUpdate)
			tu := o.OCSP.ThisUpdate.Add(delta)
			if tu.Year() <= 9999 && tu.Year() >= 0 {
				der.OCSPSetThisUpdate(root, der.GenTime(tu))
			}
		}
		n, _ := mon.ParseObj(o.Kind, o.Name, root.Encode())
		return n
	}
}
