//go:build !verifshim

package checks

const shimBuilt = false

func shimInstall(now func(), env func(op, key string)) {}
