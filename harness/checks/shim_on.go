//go:build verifshim

package checks

import (
	"syscall"
	"time"
)

// Built only with the std-library overlay (stdshim/mkoverlay).
const shimBuilt = true

func shimInstall(now func(), env func(op, key string)) {
	time.VerifNowHook = now
	syscall.VerifEnvHook = env
}
