package checks

import (
	"math/rand"

	"github.com/zmap/zlint/v3/lint"
	"verif/der"

	"verif/mon"
)

// unionCase maps a case index onto the shared union workload: indices below
// len(W.Objs) are the frozen corpus + generated seeds, the rest are seeded
// structure-aware mutants (nil when the parser rejects the mutant).
func unionCase(c *mon.Ctx, i int, st *mon.MutStats) (o *mon.Obj, desc string, isSeed bool) {
	if i < len(W.Objs) {
		return W.Objs[i], "seed", true
	}
	rng := c.Rng(i, 0)
	o, desc = W.Mutant(rng, st)
	c.R.Count("mutants_tried", 1)
	if o == nil {
		c.R.Count("parser_rejected", 1)
		return nil, desc, false
	}
	c.R.Count("mutants_accepted", 1)
	return o, desc, false
}

// observeCross records what the universal monitors see for properties other
// than the running check's own (never a VIOLATION of this check).
func observeCross(c *mon.Ctx, own string, s mon.Snap) {
	for name, sd := range s {
		if own != "C02" && mon.IsRecoveredPanic(sd) {
			c.R.CrossObs("C02:recovered-panic:" + name)
		}
		if own != "C06" {
			if p := mon.SeverityProblem(name, lint.LintStatus(sd.Status)); p != "" {
				c.R.CrossObs("C06:" + name + ":" + p)
			}
		}
	}
}

func nontrivial(s mon.Snap) bool {
	for _, sd := range s {
		if sd.Status > int(lint.NA) {
			return true
		}
	}
	return false
}

// mutGate is the common minimum-observation gate on the mutation workload.
func mutGate(r *mon.Report, min int64) []string {
	if r.Counters["mutants_accepted"] < min {
		return []string{"too few parser-accepted mutants observed"}
	}
	return nil
}

// mutateTree returns the encoded bytes of a mutant of seed idx without parsing it.
func mutateTree(idx int, rng interface {
	Intn(int) int
}) ([]byte, string) {
	r, ok := rng.(*rand.Rand)
	if !ok {
		return nil, ""
	}
	t, desc := der.Mutate(W.Trees[idx], r, []*der.Node{W.Trees[idx]})
	return t.Encode(), desc
}
