// Command mutgen writes single-point semantic mutants of one Go source file (operator swaps, negations dropped,
// boolean and integer literals changed, statements and defers deleted, continue/break swapped, returned errors
// dropped). It is a development tool of the verification harness: bin/mutants applies each mutant to a scratch copy
// of zlint, keeps those that build and pass the repository's own tests, and asks which property checks notice.
package main

import (
	"bytes"
	"fmt"
	"go/ast"
	"go/parser"
	"go/printer"
	"go/token"
	"math/rand"
	"os"
	"path/filepath"
	"strconv"
)

type point struct {
	desc  string
	apply func()
	undo  func()
}

func main() {
	if len(os.Args) < 5 {
		fmt.Fprintln(os.Stderr, "usage: mutgen <file.go> <seed> <max> <outdir>")
		os.Exit(2)
	}
	file := os.Args[1]
	seed, _ := strconv.ParseInt(os.Args[2], 10, 64)
	max, _ := strconv.Atoi(os.Args[3])
	out := os.Args[4]
	fset := token.NewFileSet()
	f, err := parser.ParseFile(fset, file, nil, parser.ParseComments)
	if err != nil {
		fmt.Fprintln(os.Stderr, err)
		os.Exit(1)
	}
	var pts []point
	pos := func(n ast.Node) string { return fmt.Sprintf("line %d", fset.Position(n.Pos()).Line) }
	swaps := map[token.Token][]token.Token{
		token.EQL: {token.NEQ}, token.NEQ: {token.EQL}, token.LSS: {token.LEQ, token.GEQ}, token.LEQ: {token.LSS}, token.GTR: {token.GEQ, token.LEQ}, token.GEQ: {token.GTR},
		token.LAND: {token.LOR}, token.LOR: {token.LAND}, token.ADD: {token.SUB}, token.SUB: {token.ADD},
	}
	inFunc := ""
	ast.Inspect(f, func(n ast.Node) bool {
		switch x := n.(type) {
		case *ast.FuncDecl:
			inFunc = x.Name.Name
		case *ast.BinaryExpr:
			for _, to := range swaps[x.Op] {
				x, from, to := x, x.Op, to
				if from == token.ADD { // string concatenation stays
					if bl, ok := x.X.(*ast.BasicLit); ok && bl.Kind == token.STRING {
						continue
					}
					if bl, ok := x.Y.(*ast.BasicLit); ok && bl.Kind == token.STRING {
						continue
					}
				}
				pts = append(pts, point{fmt.Sprintf("%s in %s: %s -> %s", pos(x), inFunc, from, to), func() { x.Op = to }, func() { x.Op = from }})
			}
		case *ast.UnaryExpr:
			if x.Op == token.NOT {
				x := x
				pts = append(pts, point{fmt.Sprintf("%s in %s: negation dropped", pos(x), inFunc), func() { x.Op = token.ADD; x.Op = token.ILLEGAL }, func() { x.Op = token.NOT }})
			}
		case *ast.Ident:
			if x.Name == "true" || x.Name == "false" {
				x, old := x, x.Name
				nw := "true"
				if old == "true" {
					nw = "false"
				}
				pts = append(pts, point{fmt.Sprintf("%s in %s: %s -> %s", pos(x), inFunc, old, nw), func() { x.Name = nw }, func() { x.Name = old }})
			}
		case *ast.BasicLit:
			if x.Kind == token.INT {
				if v, err := strconv.ParseInt(x.Value, 0, 64); err == nil && v < 100000 {
					x, old := x, x.Value
					pts = append(pts, point{fmt.Sprintf("%s in %s: %s -> %d", pos(x), inFunc, old, v+1), func() { x.Value = strconv.FormatInt(v+1, 10) }, func() { x.Value = old }})
				}
			}
		case *ast.BranchStmt:
			if x.Label == nil && (x.Tok == token.CONTINUE || x.Tok == token.BREAK) {
				x, old := x, x.Tok
				nw := token.BREAK
				if old == token.BREAK {
					nw = token.CONTINUE
				}
				pts = append(pts, point{fmt.Sprintf("%s in %s: %s -> %s", pos(x), inFunc, old, nw), func() { x.Tok = nw }, func() { x.Tok = old }})
			}
		case *ast.BlockStmt:
			for i, st := range x.List {
				i, st, blk := i, st, x
				del := false
				what := ""
				switch s := st.(type) {
				case *ast.ExprStmt:
					del, what = true, "call statement deleted"
				case *ast.IncDecStmt:
					del, what = true, "inc/dec deleted"
				case *ast.DeferStmt:
					del, what = true, "defer deleted"
				case *ast.AssignStmt:
					if s.Tok != token.DEFINE {
						del, what = true, "assignment deleted"
					}
				case *ast.ReturnStmt:
					for ri, r := range s.Results {
						if id, ok := r.(*ast.Ident); ok && id.Name == "err" {
							ri, s, id := ri, s, id
							pts = append(pts, point{fmt.Sprintf("%s in %s: returned err -> nil", pos(s), inFunc), func() { s.Results[ri] = ast.NewIdent("nil") }, func() { s.Results[ri] = id }})
						}
					}
				}
				if del {
					pts = append(pts, point{fmt.Sprintf("%s in %s: %s", pos(st), inFunc, what), func() { blk.List[i] = &ast.EmptyStmt{Semicolon: st.Pos(), Implicit: false} }, func() { blk.List[i] = st }})
				}
			}
		}
		return true
	})
	rng := rand.New(rand.NewSource(seed))
	rng.Shuffle(len(pts), func(i, j int) { pts[i], pts[j] = pts[j], pts[i] })
	if len(pts) > max {
		pts = pts[:max]
	}
	_ = os.MkdirAll(out, 0o755)
	n := 0
	for _, p := range pts {
		p.apply()
		var buf bytes.Buffer
		err := printer.Fprint(&buf, fset, f)
		p.undo()
		if err != nil {
			continue
		}
		// a dropped negation is printed by replacing "!x" textually: the printer cannot print ILLEGAL, so patch here
		b := buf.Bytes()
		b = bytes.ReplaceAll(b, []byte("ILLEGAL"), []byte(""))
		_ = os.WriteFile(filepath.Join(out, fmt.Sprintf("%03d.go", n)), b, 0o644)
		_ = os.WriteFile(filepath.Join(out, fmt.Sprintf("%03d.txt", n)), []byte(p.desc+"\n"), 0o644)
		n++
	}
	fmt.Printf("%s: %d mutation points, %d written\n", file, len(pts), n)
}
