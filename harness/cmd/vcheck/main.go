// Command vcheck runs one property's runtime monitor (driver or worker).
package main

import (
	_ "verif/checks"
	"verif/mon"
)

func main() { mon.Main() }
