// Package corpus loads the frozen seed corpus under $VERIF_HOME/corpus.
package corpus

import (
	"encoding/base64"
	"encoding/pem"
	"os"
	"path/filepath"
	"sort"
	"strings"
)

type Kind int

const (
	Cert Kind = iota
	CRL
	OCSP
)

func (k Kind) String() string { return [...]string{"cert", "crl", "ocsp"}[k] }

type Item struct {
	Name string
	Kind Kind
	DER  []byte
}

// Load reads every seed; order is deterministic (sorted by path).
func Load(home string) ([]Item, error) {
	root := filepath.Join(home, "corpus")
	var paths []string
	err := filepath.Walk(root, func(p string, info os.FileInfo, err error) error {
		if err != nil {
			return err
		}
		if !info.IsDir() {
			paths = append(paths, p)
		}
		return nil
	})
	if err != nil {
		return nil, err
	}
	sort.Strings(paths)
	var out []Item
	for _, p := range paths {
		rel, _ := filepath.Rel(root, p)
		b, err := os.ReadFile(p)
		if err != nil {
			return nil, err
		}
		switch {
		case strings.HasPrefix(rel, "ocsp/"):
			d, err := base64.StdEncoding.DecodeString(strings.Join(strings.Fields(string(b)), ""))
			if err != nil {
				continue
			}
			out = append(out, Item{rel, OCSP, d})
		case strings.HasPrefix(rel, "crl/"):
			if blk, _ := pem.Decode(b); blk != nil {
				out = append(out, Item{rel, CRL, blk.Bytes})
			}
		case strings.HasPrefix(rel, "cert/"):
			if blk, _ := pem.Decode(b); blk != nil {
				out = append(out, Item{rel, Cert, blk.Bytes})
			}
		}
	}
	return out, nil
}
