package der

import (
	"errors"
)

// Cert is a view over the TLV tree of a Certificate.
type Cert struct{ Root *Node }

// ParseCert parses DER and checks the outer Certificate shape.
func ParseCert(b []byte) (*Cert, error) {
	n, err := Parse(b)
	if err != nil {
		return nil, err
	}
	c := &Cert{Root: n}
	if !c.ok() {
		return nil, errors.New("der: not a certificate shape")
	}
	return c, nil
}

func (c *Cert) ok() bool {
	r := c.Root
	if !r.Is(TagSequence) || len(r.Children) != 3 || !r.Children[0].Is(TagSequence) {
		return false
	}
	t := r.Children[0]
	off := c.off()
	return len(t.Children) >= off+6
}

func (c *Cert) off() int {
	t := c.Root.Children[0]
	if len(t.Children) > 0 && t.Children[0].IsCtx(0) && t.Children[0].Constructed {
		return 1
	}
	return 0
}

func (c *Cert) Clone() *Cert       { return &Cert{Root: c.Root.Clone()} }
func (c *Cert) Encode() []byte     { return c.Root.Encode() }
func (c *Cert) TBS() *Node         { return c.Root.Children[0] }
func (c *Cert) Serial() *Node      { return c.TBS().Children[c.off()] }
func (c *Cert) InnerAlg() *Node    { return c.TBS().Children[c.off()+1] }
func (c *Cert) Issuer() *Node      { return c.TBS().Children[c.off()+2] }
func (c *Cert) Validity() *Node    { return c.TBS().Children[c.off()+3] }
func (c *Cert) Subject() *Node     { return c.TBS().Children[c.off()+4] }
func (c *Cert) SPKI() *Node        { return c.TBS().Children[c.off()+5] }
func (c *Cert) OuterAlg() *Node    { return c.Root.Children[1] }
func (c *Cert) SigBits() *Node     { return c.Root.Children[2] }
func (c *Cert) SetIssuer(n *Node)  { c.TBS().Children[c.off()+2] = n }
func (c *Cert) SetSubject(n *Node) { c.TBS().Children[c.off()+4] = n }
func (c *Cert) SetSPKI(n *Node)    { c.TBS().Children[c.off()+5] = n }

// SetValidity replaces notBefore / notAfter (nil keeps the existing one).
func (c *Cert) SetValidity(nb, na *Node) {
	v := c.Validity()
	if !v.Is(TagSequence) || len(v.Children) != 2 {
		c.TBS().Children[c.off()+3] = Seq(nb, na)
		return
	}
	if nb != nil {
		v.Children[0] = nb
	}
	if na != nil {
		v.Children[1] = na
	}
}

// ExtList returns the SEQUENCE OF Extension node (nil if absent).
func (c *Cert) ExtList() *Node {
	for _, ch := range c.TBS().Children[c.off()+6:] {
		if ch.IsCtx(3) && ch.Constructed && len(ch.Children) == 1 && ch.Children[0].Is(TagSequence) {
			return ch.Children[0]
		}
	}
	return nil
}

// EnsureExtList returns the extension list, creating [3] when absent (and
// forcing version v3).
func (c *Cert) EnsureExtList() *Node {
	if l := c.ExtList(); l != nil {
		return l
	}
	l := Seq()
	t := c.TBS()
	t.Children = append(t.Children, Ctx(3, l))
	if c.off() == 0 {
		t.Children = append([]*Node{Ctx(0, Int64(2))}, t.Children...)
	}
	return l
}

// Exts returns the Extension nodes.
func (c *Cert) Exts() []*Node {
	l := c.ExtList()
	if l == nil {
		return nil
	}
	return l.Children
}

// ExtOID returns the OID string of an Extension node.
func ExtOID(e *Node) string {
	if e.Is(TagSequence) && len(e.Children) >= 2 {
		return e.Children[0].OIDString()
	}
	return ""
}

// ExtValue returns the extnValue OCTET STRING node of an Extension.
func ExtValue(e *Node) *Node {
	if e.Is(TagSequence) && len(e.Children) >= 2 {
		return e.Children[len(e.Children)-1]
	}
	return nil
}

// FindExt returns the first extension with the OID (nil if none).
func (c *Cert) FindExt(oid string) *Node {
	for _, e := range c.Exts() {
		if ExtOID(e) == oid {
			return e
		}
	}
	return nil
}

// MakeExt builds an Extension whose value wraps inner.
func MakeExt(oid string, critical bool, inner *Node) *Node {
	ch := []*Node{OID(oid)}
	if critical {
		ch = append(ch, Bool(true))
	}
	ch = append(ch, OctetWrap(inner))
	return Seq(ch...)
}

// MakeExtRaw builds an Extension with raw value bytes.
func MakeExtRaw(oid string, critical bool, val []byte) *Node {
	ch := []*Node{OID(oid)}
	if critical {
		ch = append(ch, Bool(true))
	}
	ch = append(ch, Octets(val))
	return Seq(ch...)
}

// SetExt replaces the first extension with the OID or appends it.
func (c *Cert) SetExt(e *Node) {
	l := c.EnsureExtList()
	oid := ExtOID(e)
	for i, x := range l.Children {
		if ExtOID(x) == oid {
			l.Children[i] = e
			return
		}
	}
	l.Children = append(l.Children, e)
}

// RemoveExt drops all extensions with the OID.
func (c *Cert) RemoveExt(oid string) {
	l := c.ExtList()
	if l == nil {
		return
	}
	var keep []*Node
	for _, x := range l.Children {
		if ExtOID(x) != oid {
			keep = append(keep, x)
		}
	}
	l.Children = keep
}

// HasDuplicateExt reports a repeated extension OID.
func (c *Cert) HasDuplicateExt() bool {
	seen := map[string]bool{}
	for _, e := range c.Exts() {
		o := ExtOID(e)
		if seen[o] {
			return true
		}
		seen[o] = true
	}
	return false
}

// CRL is a view over the TLV tree of a CertificateList.
type CRL struct{ Root *Node }

func ParseCRL(b []byte) (*CRL, error) {
	n, err := Parse(b)
	if err != nil {
		return nil, err
	}
	r := &CRL{Root: n}
	if !n.Is(TagSequence) || len(n.Children) != 3 || !n.Children[0].Is(TagSequence) {
		return nil, errors.New("der: not a CRL shape")
	}
	if len(r.TBS().Children) < r.off()+3 {
		return nil, errors.New("der: short CRL")
	}
	return r, nil
}
func (r *CRL) Clone() *CRL    { return &CRL{Root: r.Root.Clone()} }
func (r *CRL) Encode() []byte { return r.Root.Encode() }
func (r *CRL) TBS() *Node     { return r.Root.Children[0] }
func (r *CRL) off() int {
	if ch := r.TBS().Children; len(ch) > 0 && ch[0].Is(TagInteger) {
		return 1
	}
	return 0
}
func (r *CRL) ThisUpdateIdx() int { return r.off() + 2 }

// SetThisUpdate replaces thisUpdate.
func (r *CRL) SetThisUpdate(n *Node) { r.TBS().Children[r.off()+2] = n }

// NextUpdate returns the nextUpdate node or nil.
func (r *CRL) NextUpdate() *Node {
	ch := r.TBS().Children
	i := r.off() + 3
	if i < len(ch) && (ch[i].Is(TagUTCTime) || ch[i].Is(TagGenTime)) {
		return ch[i]
	}
	return nil
}

// SetNextUpdate replaces nextUpdate when present.
func (r *CRL) SetNextUpdate(n *Node) bool {
	ch := r.TBS().Children
	i := r.off() + 3
	if i < len(ch) && (ch[i].Is(TagUTCTime) || ch[i].Is(TagGenTime)) {
		ch[i] = n
		return true
	}
	return false
}

// ---- OCSP ----

// OCSPSingleTimes locates, inside an OCSPResponse tree, the first
// SingleResponse's thisUpdate node and its [0] EXPLICIT nextUpdate wrapper
// (nil when absent). Returned as (parent, index of thisUpdate).
func OCSPSingleTimes(root *Node) (parent *Node, thisIdx int) {
	var fp *Node
	fi := -1
	root.Walk(func(n *Node) {
		if fp != nil || !n.Is(TagSequence) {
			return
		}
		for i, ch := range n.Children {
			if ch.Is(TagGenTime) && i >= 2 && n.Children[0].Is(TagSequence) {
				// SingleResponse ::= SEQUENCE { certID SEQUENCE, certStatus CHOICE, thisUpdate, [0] nextUpdate OPTIONAL, ...}
				if n.Children[1].Class == 2 {
					fp, fi = n, i
					return
				}
			}
		}
	})
	return fp, fi
}

// OCSPSetNextUpdate sets (or inserts) nextUpdate of the first SingleResponse.
func OCSPSetNextUpdate(root *Node, t *Node) bool {
	p, i := OCSPSingleTimes(root)
	if p == nil {
		return false
	}
	if i+1 < len(p.Children) && p.Children[i+1].IsCtx(0) && p.Children[i+1].Constructed {
		p.Children[i+1].Children = []*Node{t}
		return true
	}
	ch := append([]*Node{}, p.Children[:i+1]...)
	ch = append(ch, Ctx(0, t))
	p.Children = append(ch, p.Children[i+1:]...)
	return true
}

// OCSPSetThisUpdate sets thisUpdate of the first SingleResponse.
func OCSPSetThisUpdate(root *Node, t *Node) bool {
	p, i := OCSPSingleTimes(root)
	if p == nil {
		return false
	}
	p.Children[i] = t
	return true
}
