// Package der is a small TLV tree for DER: parse, structured edit, re-encode
// with recomputed lengths. It descends through OCTET STRING / BIT STRING
// wrappers so that extension payloads, SPKIs and signatures are trees too.
package der

import (
	"errors"
	"fmt"
	"math/big"
	"strconv"
	"strings"
	"time"
)

// Universal tags used here.
const (
	TagBoolean     = 1
	TagInteger     = 2
	TagBitString   = 3
	TagOctetString = 4
	TagNull        = 5
	TagOID         = 6
	TagEnum        = 10
	TagUTF8        = 12
	TagSequence    = 16
	TagSet         = 17
	TagNumeric     = 18
	TagPrintable   = 19
	TagT61         = 20
	TagIA5         = 22
	TagUTCTime     = 23
	TagGenTime     = 24
	TagVisible     = 26
	TagUniversal   = 28
	TagBMP         = 30
)

// Node is one TLV. Exactly one of Content / Children / Wrapped carries the
// value: Children for constructed nodes, Wrapped for a primitive OCTET or BIT
// STRING whose payload is itself a single TLV, Content otherwise.
type Node struct {
	Class       int // 0 universal, 1 application, 2 context, 3 private
	Constructed bool
	Tag         int
	Content     []byte
	Children    []*Node
	Wrapped     *Node
	// Unused is the leading "unused bits" octet of a wrapped BIT STRING.
	Unused byte
}

var errTrunc = errors.New("der: truncated")

// Parse parses exactly one TLV that must span all of data.
func Parse(data []byte) (*Node, error) {
	n, rest, err := parseOne(data, 0)
	if err != nil {
		return nil, err
	}
	if len(rest) != 0 {
		return nil, errors.New("der: trailing data")
	}
	return n, nil
}

func parseOne(data []byte, depth int) (*Node, []byte, error) {
	if depth > 40 {
		return nil, nil, errors.New("der: too deep")
	}
	if len(data) < 2 {
		return nil, nil, errTrunc
	}
	n := &Node{}
	b := data[0]
	n.Class = int(b >> 6)
	n.Constructed = b&0x20 != 0
	n.Tag = int(b & 0x1f)
	off := 1
	if n.Tag == 0x1f {
		n.Tag = 0
		for {
			if off >= len(data) {
				return nil, nil, errTrunc
			}
			c := data[off]
			off++
			n.Tag = n.Tag<<7 | int(c&0x7f)
			if n.Tag > 1<<24 {
				return nil, nil, errors.New("der: tag too large")
			}
			if c&0x80 == 0 {
				break
			}
		}
	}
	if off >= len(data) {
		return nil, nil, errTrunc
	}
	l := int(data[off])
	off++
	if l == 0x80 {
		return nil, nil, errors.New("der: indefinite length")
	}
	if l > 0x80 {
		k := l & 0x7f
		if k > 4 || off+k > len(data) {
			return nil, nil, errTrunc
		}
		l = 0
		for i := 0; i < k; i++ {
			l = l<<8 | int(data[off+i])
		}
		off += k
	}
	if l < 0 || off+l > len(data) {
		return nil, nil, errTrunc
	}
	body := data[off : off+l]
	rest := data[off+l:]
	if n.Constructed {
		for len(body) > 0 {
			c, r, err := parseOne(body, depth+1)
			if err != nil {
				return nil, nil, err
			}
			n.Children = append(n.Children, c)
			body = r
		}
		return n, rest, nil
	}
	n.Content = append([]byte(nil), body...)
	if n.Class == 0 && n.Tag == TagOctetString && len(body) >= 2 {
		if w, r, err := parseOne(body, depth+1); err == nil && len(r) == 0 && plausible(w) {
			n.Wrapped = w
			n.Content = nil
		}
	} else if n.Class == 0 && n.Tag == TagBitString && len(body) >= 3 && body[0] == 0 {
		if w, r, err := parseOne(body[1:], depth+1); err == nil && len(r) == 0 && w.Constructed && w.Class == 0 && w.Tag == TagSequence {
			n.Wrapped = w
			n.Content = nil
			n.Unused = 0
		}
	}
	return n, rest, nil
}

// plausible says whether a TLV found inside an OCTET STRING looks like a real
// nested encoding rather than an accident of random bytes.
func plausible(w *Node) bool {
	if w.Constructed {
		return w.Class == 0 && (w.Tag == TagSequence || w.Tag == TagSet) || w.Class == 2
	}
	if w.Class != 0 {
		return false
	}
	switch w.Tag {
	case TagBoolean, TagInteger, TagBitString, TagOctetString, TagNull, TagOID, TagEnum, TagUTF8, TagIA5, TagPrintable:
		return true
	}
	return false
}

// Encode serialises the tree with minimal definite lengths.
func (n *Node) Encode() []byte {
	var body []byte
	switch {
	case n.Constructed:
		for _, c := range n.Children {
			body = append(body, c.Encode()...)
		}
	case n.Wrapped != nil:
		if n.Class == 0 && n.Tag == TagBitString {
			body = append(body, n.Unused)
		}
		body = append(body, n.Wrapped.Encode()...)
	default:
		body = n.Content
	}
	out := make([]byte, 0, len(body)+6)
	id := byte(n.Class << 6)
	if n.Constructed {
		id |= 0x20
	}
	if n.Tag < 0x1f {
		out = append(out, id|byte(n.Tag))
	} else {
		out = append(out, id|0x1f)
		var tmp []byte
		t := n.Tag
		for {
			tmp = append([]byte{byte(t & 0x7f)}, tmp...)
			t >>= 7
			if t == 0 {
				break
			}
		}
		for i := range tmp {
			if i != len(tmp)-1 {
				tmp[i] |= 0x80
			}
		}
		out = append(out, tmp...)
	}
	l := len(body)
	switch {
	case l < 0x80:
		out = append(out, byte(l))
	case l < 0x100:
		out = append(out, 0x81, byte(l))
	case l < 0x10000:
		out = append(out, 0x82, byte(l>>8), byte(l))
	case l < 0x1000000:
		out = append(out, 0x83, byte(l>>16), byte(l>>8), byte(l))
	default:
		out = append(out, 0x84, byte(l>>24), byte(l>>16), byte(l>>8), byte(l))
	}
	return append(out, body...)
}

// Clone deep-copies the tree.
func (n *Node) Clone() *Node {
	if n == nil {
		return nil
	}
	c := *n
	if n.Content != nil {
		c.Content = append([]byte(nil), n.Content...)
	}
	if n.Children != nil {
		c.Children = make([]*Node, len(n.Children))
		for i, ch := range n.Children {
			c.Children[i] = ch.Clone()
		}
	}
	c.Wrapped = n.Wrapped.Clone()
	return &c
}

// Walk visits every node (parents before children, wrappers included).
func (n *Node) Walk(fn func(*Node)) {
	if n == nil {
		return
	}
	fn(n)
	for _, c := range n.Children {
		c.Walk(fn)
	}
	if n.Wrapped != nil {
		n.Wrapped.Walk(fn)
	}
}

// All returns all nodes in walk order.
func (n *Node) All() []*Node {
	var out []*Node
	n.Walk(func(x *Node) { out = append(out, x) })
	return out
}

// Is reports a universal tag match.
func (n *Node) Is(tag int) bool { return n != nil && n.Class == 0 && n.Tag == tag }

// IsCtx reports a context-specific tag match.
func (n *Node) IsCtx(tag int) bool { return n != nil && n.Class == 2 && n.Tag == tag }

// IsString reports whether n is a universal character-string type.
func (n *Node) IsString() bool {
	if n == nil || n.Class != 0 || n.Constructed {
		return false
	}
	switch n.Tag {
	case TagUTF8, TagNumeric, TagPrintable, TagT61, TagIA5, TagVisible, TagUniversal, TagBMP:
		return true
	}
	return false
}

// OIDString decodes an OBJECT IDENTIFIER node ("" when malformed).
func (n *Node) OIDString() string {
	if !n.Is(TagOID) || len(n.Content) == 0 {
		return ""
	}
	var arcs []uint64
	var v uint64
	for i, b := range n.Content {
		v = v<<7 | uint64(b&0x7f)
		if b&0x80 == 0 {
			arcs = append(arcs, v)
			v = 0
		} else if i == len(n.Content)-1 {
			return ""
		}
	}
	if len(arcs) == 0 {
		return ""
	}
	first := arcs[0]
	var parts []string
	switch {
	case first < 40:
		parts = []string{"0", strconv.FormatUint(first, 10)}
	case first < 80:
		parts = []string{"1", strconv.FormatUint(first-40, 10)}
	default:
		parts = []string{"2", strconv.FormatUint(first-80, 10)}
	}
	for _, a := range arcs[1:] {
		parts = append(parts, strconv.FormatUint(a, 10))
	}
	return strings.Join(parts, ".")
}

// ---- builders ----

func Prim(tag int, content []byte) *Node {
	return &Node{Tag: tag, Content: append([]byte{}, content...)}
}
func Seq(ch ...*Node) *Node { return &Node{Tag: TagSequence, Constructed: true, Children: ch} }
func Set(ch ...*Node) *Node { return &Node{Tag: TagSet, Constructed: true, Children: ch} }

// Ctx builds a constructed context-specific node [tag] { children }.
func Ctx(tag int, ch ...*Node) *Node {
	return &Node{Class: 2, Tag: tag, Constructed: true, Children: ch}
}

// CtxPrim builds a primitive context-specific node [tag] content.
func CtxPrim(tag int, content []byte) *Node {
	return &Node{Class: 2, Tag: tag, Content: append([]byte{}, content...)}
}
func Str(tag int, s string) *Node { return Prim(tag, []byte(s)) }
func Null() *Node                 { return Prim(TagNull, nil) }
func Bool(b bool) *Node {
	if b {
		return Prim(TagBoolean, []byte{0xff})
	}
	return Prim(TagBoolean, []byte{0})
}

// Int encodes a big integer (two's complement, minimal).
func Int(v *big.Int) *Node {
	if v.Sign() == 0 {
		return Prim(TagInteger, []byte{0})
	}
	if v.Sign() > 0 {
		b := v.Bytes()
		if b[0]&0x80 != 0 {
			b = append([]byte{0}, b...)
		}
		return Prim(TagInteger, b)
	}
	// negative
	n := len(v.Bytes()) + 1
	mod := new(big.Int).Lsh(big.NewInt(1), uint(8*n))
	tw := new(big.Int).Add(mod, v)
	b := tw.Bytes()
	for len(b) > 1 && b[0] == 0xff && b[1]&0x80 != 0 {
		b = b[1:]
	}
	return Prim(TagInteger, b)
}
func Int64(v int64) *Node { return Int(big.NewInt(v)) }

// OID encodes a dotted OID; panics on malformed input (harness literals only).
func OID(s string) *Node {
	parts := strings.Split(s, ".")
	if len(parts) < 2 {
		panic("der: bad oid " + s)
	}
	var arcs []uint64
	for _, p := range parts {
		v, err := strconv.ParseUint(p, 10, 64)
		if err != nil {
			panic("der: bad oid " + s)
		}
		arcs = append(arcs, v)
	}
	var out []byte
	put := func(v uint64) {
		var tmp []byte
		for {
			tmp = append([]byte{byte(v & 0x7f)}, tmp...)
			v >>= 7
			if v == 0 {
				break
			}
		}
		for i := range tmp {
			if i != len(tmp)-1 {
				tmp[i] |= 0x80
			}
		}
		out = append(out, tmp...)
	}
	put(arcs[0]*40 + arcs[1])
	for _, a := range arcs[2:] {
		put(a)
	}
	return Prim(TagOID, out)
}

// OctetWrap wraps a tree in an OCTET STRING.
func OctetWrap(n *Node) *Node { return &Node{Tag: TagOctetString, Wrapped: n} }

// Octets builds an OCTET STRING with raw content.
func Octets(b []byte) *Node { return Prim(TagOctetString, b) }

// BitWrap wraps a tree in a BIT STRING with zero unused bits.
func BitWrap(n *Node) *Node { return &Node{Tag: TagBitString, Wrapped: n} }

// Bits builds a BIT STRING from raw bytes and an unused-bit count.
func Bits(b []byte, unused byte) *Node {
	return Prim(TagBitString, append([]byte{unused}, b...))
}

// UTCTime encodes t (converted to UTC) as YYMMDDHHMMSSZ.
func UTCTime(t time.Time) *Node { return Str(TagUTCTime, t.UTC().Format("060102150405Z")) }

// UTCTimeOffset encodes the instant t as UTCTime in a +hhmm zone.
func UTCTimeOffset(t time.Time, offMin int) *Node {
	loc := time.FixedZone("", offMin*60)
	lt := t.In(loc)
	sign := '+'
	if offMin < 0 {
		sign = '-'
		offMin = -offMin
	}
	return Str(TagUTCTime, fmt.Sprintf("%s%c%02d%02d", lt.Format("060102150405"), sign, offMin/60, offMin%60))
}

// GenTime encodes t as GeneralizedTime YYYYMMDDHHMMSSZ.
func GenTime(t time.Time) *Node { return Str(TagGenTime, t.UTC().Format("20060102150405Z")) }

// Time picks UTCTime for 1950..2049 and GeneralizedTime otherwise (RFC 5280).
func Time(t time.Time) *Node {
	y := t.UTC().Year()
	if y >= 1950 && y < 2050 {
		return UTCTime(t)
	}
	return GenTime(t)
}

// GenTimeOffset encodes the instant t as GeneralizedTime in a +hhmm zone.
func GenTimeOffset(t time.Time, offMin int) *Node {
	loc := time.FixedZone("", offMin*60)
	lt := t.In(loc)
	sign := '+'
	if offMin < 0 {
		sign = '-'
		offMin = -offMin
	}
	return Str(TagGenTime, fmt.Sprintf("%s%c%02d%02d", lt.Format("20060102150405"), sign, offMin/60, offMin%60))
}

// TimeOffset is Time() in a +hhmm zone (offMin == 0 gives the Z form).
func TimeOffset(t time.Time, offMin int) *Node {
	if offMin == 0 {
		return Time(t)
	}
	y := t.In(time.FixedZone("", offMin*60)).Year()
	if y >= 1950 && y < 2050 {
		return UTCTimeOffset(t, offMin)
	}
	return GenTimeOffset(t, offMin)
}
