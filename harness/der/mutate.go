package der

import (
	"math/rand"
	"strings"
)

// Dict is the hostile-value dictionary spliced into primitive contents.
var Dict = [][]byte{
	{},
	{0x00},
	{0xC2},       // lone UTF-8 lead byte
	{0xE2, 0x82}, // truncated 3-byte sequence
	{0xFF},
	{0xF0, 0x9F, 0x98}, // truncated 4-byte sequence
	{0x00, 0x41, 0x00}, // odd-length BMP
	{0xD8, 0x00},       // lone surrogate in BMP
	[]byte("xn--"),
	[]byte("xn--zz--"),
	[]byte("xn--a.xn--"),
	[]byte(strings.Repeat("a", 64)),
	[]byte(strings.Repeat("a", 64) + ".com"),
	[]byte(strings.Repeat("b", 254) + ".org"),
	[]byte(".."),
	[]byte("."),
	[]byte("*."),
	[]byte("*"),
	[]byte("*.*.example.com"),
	[]byte("a.*.example.com"),
	[]byte(" "),
	[]byte(" leading"),
	[]byte("trailing "),
	[]byte("-"),
	[]byte("-a.com"),
	[]byte("a-.com"),
	[]byte("_a._b.com"),
	[]byte("a_.com"),
	[]byte("ab--cd.com"),
	[]byte("&amp;"),
	[]byte("&#x41;"),
	[]byte("<a@b>"),
	[]byte("a@"),
	[]byte("@b"),
	[]byte("a@b@c"),
	[]byte("://x"),
	[]byte("http://"),
	[]byte("http://[::1"),
	[]byte("http://%zz/"),
	[]byte("mailto:a@b.c"),
	[]byte("urn:x:y"),
	[]byte("ldap://h/o?x"),
	[]byte("http://user:pw@host:99999/p"),
	[]byte("1.2.3.4"),
	[]byte("1.2.3.4.in-addr.arpa"),
	[]byte("4.3.2.10.in-addr.arpa"),
	[]byte("b.a.9.8.7.6.5.0.0.0.0.0.0.0.0.0.0.0.0.0.0.0.0.0.8.b.d.0.1.0.0.2.ip6.arpa"),
	[]byte("x.onion"),
	[]byte("aaaaaaaaaaaaaaaa.onion"),
	[]byte("pg6mmjiyjmcrsslvykfwnntlaru7p5svn6y2ymmju6nubxndf4pscryd.onion"),
	[]byte("example.invalid"),
	[]byte("localhost"),
	[]byte("EXAMPLE.COM"),
	[]byte("\xe4\xbd\xa0\xe5\xa5\xbd.com"),
	[]byte("US"), []byte("us"), []byte("XX"), []byte("USA"),
	[]byte("\x1b[31m"), []byte("\x7f"), []byte("\r\n"), []byte("\t"),
	{1, 2, 3},                // IP of length 3
	{1, 2, 3, 4, 5},          // IP of length 5
	{10, 0, 0, 1},            // private v4
	{10, 0, 0, 0, 255, 0, 0}, // odd-length network
	make([]byte, 15), make([]byte, 16), make([]byte, 17), make([]byte, 32), make([]byte, 8),
	{0x2a, 0x80},             // unterminated OID arc
	{0x80, 0x01},             // OID with leading 0x80
	{0x55, 0x1d, 0x11},       // SAN OID
	{0x30, 0x00},             // empty SEQUENCE bytes
	{0x30, 0x03, 0x02, 0x01}, // truncated nested
	{0x30, 0x80},             // indefinite length
	{0x05, 0x00},
	{0x01, 0x01, 0xff},
	{0x02, 0x01, 0x00},
	{0x0c, 0x02, 0xc2}, // UTF8String header with short body
	[]byte("991231235959Z"), []byte("500101000000Z"), []byte("490101000000+0100"),
	[]byte("20500101000000Z"), []byte("99991231235959Z"), []byte("2301010000Z"), []byte("230101000000"),
	[]byte("20230101000000.5Z"), []byte("000000000000Z"),
}

var stringTags = []int{TagUTF8, TagPrintable, TagIA5, TagBMP, TagT61, TagVisible, TagUniversal, TagNumeric}

// Mutate applies 1..3 structured edits to a clone of root and returns it with
// a short description. donors supply subtrees for splicing.
func Mutate(root *Node, rng *rand.Rand, donors []*Node) (*Node, string) {
	out := root.Clone()
	k := 1 + rng.Intn(3)
	var desc []string
	for i := 0; i < k; i++ {
		if d := mutateOnce(out, rng, donors); d != "" {
			desc = append(desc, d)
		}
	}
	return out, strings.Join(desc, ";")
}

type slot struct {
	n      *Node
	parent *Node
	idx    int
	depth  int
}

func collect(n, parent *Node, idx, depth int, out *[]slot) {
	*out = append(*out, slot{n, parent, idx, depth})
	for i, c := range n.Children {
		collect(c, n, i, depth+1, out)
	}
	if n.Wrapped != nil {
		collect(n.Wrapped, n, -1, depth+1, out)
	}
}

func pick(slots []slot, rng *rand.Rand, pred func(slot) bool) (slot, bool) {
	// reservoir over matching slots, favouring depth >= 3 (inside TBS fields)
	var cand []slot
	for _, s := range slots {
		if pred(s) {
			cand = append(cand, s)
			if s.depth >= 3 {
				cand = append(cand, s, s)
			}
		}
	}
	if len(cand) == 0 {
		return slot{}, false
	}
	return cand[rng.Intn(len(cand))], true
}

func isPrim(s slot) bool { return !s.n.Constructed && s.n.Wrapped == nil && s.depth >= 2 }
func isCons(s slot) bool { return s.n.Constructed && s.depth >= 1 }

func mutateOnce(root *Node, rng *rand.Rand, donors []*Node) string {
	var slots []slot
	collect(root, nil, 0, 0, &slots)
	switch op := rng.Intn(16); op {
	case 0: // truncate a primitive
		if s, ok := pick(slots, rng, func(s slot) bool { return isPrim(s) && len(s.n.Content) > 0 }); ok {
			s.n.Content = s.n.Content[:rng.Intn(len(s.n.Content))]
			return "trunc"
		}
	case 1: // swap string type
		if s, ok := pick(slots, rng, func(s slot) bool { return s.n.IsString() }); ok {
			s.n.Tag = stringTags[rng.Intn(len(stringTags))]
			return "strtype"
		}
	case 2, 3: // replace content by dictionary value
		if s, ok := pick(slots, rng, isPrim); ok {
			s.n.Content = append([]byte{}, Dict[rng.Intn(len(Dict))]...)
			return "dict"
		}
	case 4: // append / prepend dictionary value
		if s, ok := pick(slots, rng, isPrim); ok {
			d := Dict[rng.Intn(len(Dict))]
			if rng.Intn(2) == 0 {
				s.n.Content = append(append([]byte{}, s.n.Content...), d...)
			} else {
				s.n.Content = append(append([]byte{}, d...), s.n.Content...)
			}
			return "affix"
		}
	case 5: // delete a child
		if s, ok := pick(slots, rng, func(s slot) bool { return isCons(s) && len(s.n.Children) > 0 }); ok {
			i := rng.Intn(len(s.n.Children))
			s.n.Children = append(append([]*Node{}, s.n.Children[:i]...), s.n.Children[i+1:]...)
			return "del"
		}
	case 6: // duplicate a child
		if s, ok := pick(slots, rng, func(s slot) bool { return isCons(s) && len(s.n.Children) > 0 }); ok {
			i := rng.Intn(len(s.n.Children))
			ch := append([]*Node{}, s.n.Children[:i+1]...)
			ch = append(ch, s.n.Children[i].Clone())
			s.n.Children = append(ch, s.n.Children[i+1:]...)
			return "dup"
		}
	case 7: // empty
		if s, ok := pick(slots, rng, func(s slot) bool { return s.depth >= 2 }); ok {
			if s.n.Constructed {
				s.n.Children = nil
			} else {
				s.n.Wrapped = nil
				s.n.Content = []byte{}
			}
			return "empty"
		}
	case 8: // swap two children
		if s, ok := pick(slots, rng, func(s slot) bool { return isCons(s) && len(s.n.Children) > 1 }); ok {
			i, j := rng.Intn(len(s.n.Children)), rng.Intn(len(s.n.Children))
			s.n.Children[i], s.n.Children[j] = s.n.Children[j], s.n.Children[i]
			return "swap"
		}
	case 9: // flip a bit
		if s, ok := pick(slots, rng, func(s slot) bool { return isPrim(s) && len(s.n.Content) > 0 }); ok {
			i := rng.Intn(len(s.n.Content))
			s.n.Content[i] ^= 1 << uint(rng.Intn(8))
			return "flip"
		}
	case 10, 11: // splice a donor subtree over a node of the same shape
		if len(donors) == 0 {
			return ""
		}
		d := donors[rng.Intn(len(donors))].All()
		src := d[rng.Intn(len(d))]
		if s, ok := pick(slots, rng, func(s slot) bool {
			return s.parent != nil && s.depth >= 2 && s.n.Constructed == src.Constructed
		}); ok {
			c := src.Clone()
			if rng.Intn(2) == 0 { // keep the slot's own identifier
				c.Class, c.Tag = s.n.Class, s.n.Tag
			}
			if s.idx >= 0 {
				s.parent.Children[s.idx] = c
			} else {
				s.parent.Wrapped = c
			}
			return "splice"
		}
	case 12: // retag a context-specific node (GeneralName kinds etc.)
		if s, ok := pick(slots, rng, func(s slot) bool { return s.n.Class == 2 && s.depth >= 3 }); ok {
			s.n.Tag = rng.Intn(10)
			return "retag"
		}
	case 13: // integer extremes
		if s, ok := pick(slots, rng, func(s slot) bool { return s.n.Is(TagInteger) && s.depth >= 2 }); ok {
			vals := [][]byte{{0}, {0xff}, {0x80}, {0x7f, 0xff, 0xff, 0xff, 0xff, 0xff, 0xff, 0xff, 0xff}, {1}, {0, 0x80}, make([]byte, 21)}
			s.n.Content = append([]byte{}, vals[rng.Intn(len(vals))]...)
			return "int"
		}
	case 14: // insert a dictionary string node into a constructed node
		if s, ok := pick(slots, rng, func(s slot) bool { return isCons(s) && s.depth >= 2 }); ok {
			var nn *Node
			if rng.Intn(2) == 0 {
				nn = Prim(stringTags[rng.Intn(len(stringTags))], Dict[rng.Intn(len(Dict))])
			} else {
				nn = CtxPrim(rng.Intn(9), Dict[rng.Intn(len(Dict))])
			}
			i := rng.Intn(len(s.n.Children) + 1)
			ch := append([]*Node{}, s.n.Children[:i]...)
			ch = append(ch, nn)
			s.n.Children = append(ch, s.n.Children[i:]...)
			return "ins"
		}
	case 15: // unwrap: turn a wrapped payload into raw bytes then corrupt its tail
		if s, ok := pick(slots, rng, func(s slot) bool { return s.n.Wrapped != nil }); ok {
			raw := s.n.Wrapped.Encode()
			if s.n.Is(TagBitString) {
				raw = append([]byte{s.n.Unused}, raw...)
			}
			s.n.Wrapped = nil
			if len(raw) > 2 && rng.Intn(2) == 0 {
				raw = raw[:len(raw)-1-rng.Intn(len(raw)/2)]
			} else if len(raw) > 0 {
				raw[rng.Intn(len(raw))] ^= byte(1 + rng.Intn(255))
			}
			s.n.Content = raw
			return "unwrap"
		}
	}
	return ""
}
