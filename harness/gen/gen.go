// Package gen synthesises certificates, CRLs and their parts directly as DER
// trees (not through x509.CreateCertificate), so any field can carry any
// bytes. Signatures are junk of the right length unless SelfSign is set.
package gen

import (
	"crypto"
	"crypto/rsa"
	"crypto/sha256"
	"math/big"
	"math/rand"
	"sync"
	"time"

	"verif/der"
)

// Well-known OIDs.
const (
	OIDSha256RSA   = "1.2.840.113549.1.1.11"
	OIDSha1RSA     = "1.2.840.113549.1.1.5"
	OIDMd5RSA      = "1.2.840.113549.1.1.4"
	OIDSha384RSA   = "1.2.840.113549.1.1.12"
	OIDEcdsaSha256 = "1.2.840.10045.4.3.2"
	OIDEcdsaSha384 = "1.2.840.10045.4.3.3"
	OIDDsaSha256   = "2.16.840.1.101.3.4.3.2"
	OIDDsaSha1     = "1.2.840.10040.4.3"
	OIDEd25519     = "1.3.101.112"
	OIDRsaEnc      = "1.2.840.113549.1.1.1"
	OIDEcPub       = "1.2.840.10045.2.1"
	OIDP256        = "1.2.840.10045.3.1.7"
	OIDP384        = "1.3.132.0.34"
	OIDDsaPub      = "1.2.840.10040.4.1"

	OIDCN      = "2.5.4.3"
	OIDSurname = "2.5.4.4"
	OIDSerial  = "2.5.4.5"
	OIDC       = "2.5.4.6"
	OIDL       = "2.5.4.7"
	OIDST      = "2.5.4.8"
	OIDStreet  = "2.5.4.9"
	OIDO       = "2.5.4.10"
	OIDOU      = "2.5.4.11"
	OIDTitle   = "2.5.4.12"
	OIDPostal  = "2.5.4.17"
	OIDGiven   = "2.5.4.42"
	OIDOrgID   = "2.5.4.97"
	OIDEmail   = "1.2.840.113549.1.9.1"
	OIDDC      = "0.9.2342.19200300.100.1.25"
	OIDBizCat  = "2.5.4.15"
	OIDJurC    = "1.3.6.1.4.1.311.60.2.1.3"

	OIDExtSKI    = "2.5.29.14"
	OIDExtKU     = "2.5.29.15"
	OIDExtSAN    = "2.5.29.17"
	OIDExtIAN    = "2.5.29.18"
	OIDExtBC     = "2.5.29.19"
	OIDExtNC     = "2.5.29.30"
	OIDExtCRLDP  = "2.5.29.31"
	OIDExtPol    = "2.5.29.32"
	OIDExtAKI    = "2.5.29.35"
	OIDExtEKU    = "2.5.29.37"
	OIDExtAIA    = "1.3.6.1.5.5.7.1.1"
	OIDExtSCT    = "1.3.6.1.4.1.11129.2.4.2"
	OIDExtQC     = "1.3.6.1.5.5.7.1.3"
	OIDExtPoison = "1.3.6.1.4.1.11129.2.4.3"

	OIDEkuAny    = "2.5.29.37.0"
	OIDEkuServer = "1.3.6.1.5.5.7.3.1"
	OIDEkuClient = "1.3.6.1.5.5.7.3.2"
	OIDEkuCode   = "1.3.6.1.5.5.7.3.3"
	OIDEkuEmail  = "1.3.6.1.5.5.7.3.4"
	OIDEkuTime   = "1.3.6.1.5.5.7.3.8"
	OIDEkuOCSP   = "1.3.6.1.5.5.7.3.9"

	OIDPolDV     = "2.23.140.1.2.1"
	OIDPolOV     = "2.23.140.1.2.2"
	OIDPolIV     = "2.23.140.1.2.3"
	OIDPolEV     = "2.23.140.1.1"
	OIDPolCS     = "2.23.140.1.4.1"
	OIDPolEVCS   = "2.23.140.1.3"
	OIDPolAny    = "2.5.29.32.0"
	OIDAdOCSP    = "1.3.6.1.5.5.7.48.1"
	OIDAdIssuers = "1.3.6.1.5.5.7.48.2"
)

// ATV is one AttributeTypeAndValue.
type ATV struct {
	OID   string
	Tag   int
	Val   []byte
	Class int // 0 universal (the usual case), 1 application, 2 context-specific, 3 private
}

// A builds a PrintableString/UTF8String attribute (UTF8 unless the OID is C or serial).
func A(oid, val string) ATV {
	tag := der.TagUTF8
	if oid == OIDC || oid == OIDSerial || oid == OIDJurC {
		tag = der.TagPrintable
	}
	if oid == OIDEmail || oid == OIDDC {
		tag = der.TagIA5
	}
	return ATV{OID: oid, Tag: tag, Val: []byte(val)}
}

// AT builds an attribute with an explicit string type.
func AT(oid string, tag int, val []byte) ATV { return ATV{OID: oid, Tag: tag, Val: val} }

// ATC builds an attribute whose value carries a tag of another class (same tag NUMBER as a string type, but not
// that string type).
func ATC(oid string, class, tag int, val []byte) ATV {
	return ATV{OID: oid, Tag: tag, Val: val, Class: class}
}

func (a ATV) node() *der.Node {
	v := der.Prim(a.Tag, a.Val)
	v.Class = a.Class
	return der.Seq(der.OID(a.OID), v)
}

// Name builds an RDNSequence with one attribute per RDN.
func Name(attrs ...ATV) *der.Node {
	n := der.Seq()
	for _, a := range attrs {
		n.Children = append(n.Children, der.Set(a.node()))
	}
	return n
}

// NameRDNs builds an RDNSequence from explicit (possibly multi-valued) RDNs.
func NameRDNs(rdns ...[]ATV) *der.Node {
	n := der.Seq()
	for _, r := range rdns {
		s := der.Set()
		for _, a := range r {
			s.Children = append(s.Children, a.node())
		}
		n.Children = append(n.Children, s)
	}
	return n
}

// ---- GeneralName ----

func GNOther(oid string, val *der.Node) *der.Node {
	return der.Ctx(0, der.OID(oid), der.Ctx(0, val))
}
func GNEmail(s string) *der.Node { return der.CtxPrim(1, []byte(s)) }
func GNDNS(s string) *der.Node   { return der.CtxPrim(2, []byte(s)) }
func GNX400() *der.Node          { return der.Ctx(3, der.Seq()) }
func GNDir(name *der.Node) *der.Node {
	return der.Ctx(4, name)
}
func GNEDI(party string) *der.Node { return der.Ctx(5, der.CtxPrim(1, []byte(party))) }
func GNURI(s string) *der.Node     { return der.CtxPrim(6, []byte(s)) }
func GNIP(b []byte) *der.Node      { return der.CtxPrim(7, b) }
func GNRID(oid string) *der.Node   { return der.CtxPrim(8, der.OID(oid).Content) }

// ---- extensions ----

func ExtSAN(critical bool, gns ...*der.Node) *der.Node {
	return der.MakeExt(OIDExtSAN, critical, der.Seq(gns...))
}
func ExtIAN(critical bool, gns ...*der.Node) *der.Node {
	return der.MakeExt(OIDExtIAN, critical, der.Seq(gns...))
}
func ExtBC(critical, ca bool, pathLen int) *der.Node {
	s := der.Seq()
	if ca {
		s.Children = append(s.Children, der.Bool(true))
	}
	if pathLen >= 0 {
		s.Children = append(s.Children, der.Int64(int64(pathLen)))
	}
	return der.MakeExt(OIDExtBC, critical, s)
}

// ExtKU takes the named bits (0 = digitalSignature ... 8 = decipherOnly).
func ExtKU(critical bool, bits ...int) *der.Node {
	var v [2]byte
	max := -1
	for _, b := range bits {
		v[b/8] |= 0x80 >> uint(b%8)
		if b > max {
			max = b
		}
	}
	n := 1
	if max >= 8 {
		n = 2
	}
	unused := byte(0)
	if max >= 0 {
		unused = byte(7 - max%8)
	} else {
		n = 0
	}
	return der.MakeExt(OIDExtKU, critical, der.Bits(v[:n], unused))
}
func ExtEKU(critical bool, oids ...string) *der.Node {
	s := der.Seq()
	for _, o := range oids {
		s.Children = append(s.Children, der.OID(o))
	}
	return der.MakeExt(OIDExtEKU, critical, s)
}
func ExtPolicies(oids ...string) *der.Node {
	s := der.Seq()
	for _, o := range oids {
		s.Children = append(s.Children, der.Seq(der.OID(o)))
	}
	return der.MakeExt(OIDExtPol, false, s)
}

// ExtAIA builds accessDescriptions from (method OID, location GeneralName).
func ExtAIA(pairs ...*der.Node) *der.Node {
	return der.MakeExt(OIDExtAIA, false, der.Seq(pairs...))
}
func AD(method string, loc *der.Node) *der.Node { return der.Seq(der.OID(method), loc) }
func ExtCRLDP(urls ...string) *der.Node {
	s := der.Seq()
	for _, u := range urls {
		s.Children = append(s.Children, der.Seq(der.Ctx(0, der.Ctx(0, GNURI(u)))))
	}
	return der.MakeExt(OIDExtCRLDP, false, s)
}
func ExtSKI(id []byte) *der.Node { return der.MakeExt(OIDExtSKI, false, der.Octets(id)) }
func ExtAKI(id []byte) *der.Node {
	return der.MakeExt(OIDExtAKI, false, der.Seq(der.CtxPrim(0, id)))
}

// Subtree builds a GeneralSubtree for name constraints.
func Subtree(gn *der.Node) *der.Node { return der.Seq(gn) }
func ExtNC(critical bool, permitted, excluded []*der.Node) *der.Node {
	s := der.Seq()
	if len(permitted) > 0 {
		s.Children = append(s.Children, der.Ctx(0, permitted...))
	}
	if len(excluded) > 0 {
		s.Children = append(s.Children, der.Ctx(1, excluded...))
	}
	return der.MakeExt(OIDExtNC, critical, s)
}

// ---- keys ----

func AlgID(oid string, withNull bool) *der.Node {
	if withNull {
		return der.Seq(der.OID(oid), der.Null())
	}
	return der.Seq(der.OID(oid))
}

// RSASPKI builds an RSA SubjectPublicKeyInfo with arbitrary N and e.
func RSASPKI(n, e *big.Int) *der.Node {
	return der.Seq(AlgID(OIDRsaEnc, true), der.BitWrap(der.Seq(der.Int(n), der.Int(e))))
}

// P-256 generator point: a valid curve point usable as a public key.
var p256G = []byte{0x04,
	0x6b, 0x17, 0xd1, 0xf2, 0xe1, 0x2c, 0x42, 0x47, 0xf8, 0xbc, 0xe6, 0xe5, 0x63, 0xa4, 0x40, 0xf2,
	0x77, 0x03, 0x7d, 0x81, 0x2d, 0xeb, 0x33, 0xa0, 0xf4, 0xa1, 0x39, 0x45, 0xd8, 0x98, 0xc2, 0x96,
	0x4f, 0xe3, 0x42, 0xe2, 0xfe, 0x1a, 0x7f, 0x9b, 0x8e, 0xe7, 0xeb, 0x4a, 0x7c, 0x0f, 0x9e, 0x16,
	0x2b, 0xce, 0x33, 0x57, 0x6b, 0x31, 0x5e, 0xce, 0xcb, 0xb6, 0x40, 0x68, 0x37, 0xbf, 0x51, 0xf5}

func ECSPKI() *der.Node {
	return der.Seq(der.Seq(der.OID(OIDEcPub), der.OID(OIDP256)), der.Bits(p256G, 0))
}
func Ed25519SPKI() *der.Node {
	return der.Seq(der.Seq(der.OID(OIDEd25519)), der.Bits(make([]byte, 32), 0))
}

// DSASPKI builds a DSA key with small made-up parameters of the given sizes.
func DSASPKI(pBits, qBits int) *der.Node {
	p := new(big.Int).Lsh(big.NewInt(1), uint(pBits-1))
	p.Add(p, big.NewInt(12345))
	q := new(big.Int).Lsh(big.NewInt(1), uint(qBits-1))
	q.Add(q, big.NewInt(77))
	g := big.NewInt(2)
	y := new(big.Int).Sub(p, big.NewInt(99))
	return der.Seq(der.Seq(der.OID(OIDDsaPub), der.Seq(der.Int(p), der.Int(q), der.Int(g))), der.BitWrap(der.Int(y)))
}

// Prime returns a deterministic prime of exactly bits bits.
func Prime(rng *rand.Rand, bits int) *big.Int {
	for {
		b := make([]byte, (bits+7)/8)
		rng.Read(b)
		p := new(big.Int).SetBytes(b)
		p.SetBit(p, 0, 1)
		for i := p.BitLen(); i > bits; i-- {
			p.SetBit(p, i-1, 0)
		}
		p.SetBit(p, bits-1, 1)
		if bits >= 2 {
			p.SetBit(p, bits-2, 1)
		}
		for k := 0; k < 4000; k++ {
			if p.BitLen() != bits {
				break
			}
			if p.ProbablyPrime(12) {
				return p
			}
			p.Add(p, big.NewInt(2))
		}
	}
}

// NextPrime returns the smallest prime > n.
func NextPrime(n *big.Int) *big.Int {
	p := new(big.Int).Add(n, big.NewInt(1))
	if p.Bit(0) == 0 {
		p.Add(p, big.NewInt(1))
	}
	for !p.ProbablyPrime(12) {
		p.Add(p, big.NewInt(2))
	}
	return p
}

// RSAKey is a full key made from known primes.
type RSAKey struct {
	P, Q, N *big.Int
	Priv    *rsa.PrivateKey
}

// NewRSAKey makes a key whose modulus has exactly bits bits (e = 65537).
func NewRSAKey(rng *rand.Rand, bits int) *RSAKey {
	for {
		p := Prime(rng, (bits+1)/2)
		q := Prime(rng, bits/2)
		if p.Cmp(q) == 0 {
			continue
		}
		n := new(big.Int).Mul(p, q)
		if n.BitLen() != bits {
			continue
		}
		e := big.NewInt(65537)
		p1 := new(big.Int).Sub(p, big.NewInt(1))
		q1 := new(big.Int).Sub(q, big.NewInt(1))
		phi := new(big.Int).Mul(p1, q1)
		d := new(big.Int).ModInverse(e, phi)
		if d == nil {
			continue
		}
		k := &RSAKey{P: p, Q: q, N: n}
		k.Priv = &rsa.PrivateKey{PublicKey: rsa.PublicKey{N: n, E: 65537}, D: d, Primes: []*big.Int{p, q}}
		k.Priv.Precompute()
		return k
	}
}

var (
	defOnce sync.Once
	defKey  *RSAKey
)

// DefaultKey is a fixed, deterministic RSA-2048 key.
func DefaultKey() *RSAKey {
	defOnce.Do(func() { defKey = NewRSAKey(rand.New(rand.NewSource(20240229)), 2048) })
	return defKey
}

func DefaultSPKI() *der.Node { k := DefaultKey(); return RSASPKI(k.N, big.NewInt(65537)) }

// ---- certificate ----

// Spec describes a certificate to build.
type Spec struct {
	Serial    *big.Int
	SigOID    string // default sha256WithRSAEncryption
	SigNull   bool
	Issuer    *der.Node
	Subject   *der.Node
	NotBefore time.Time
	NotAfter  time.Time
	NBNode    *der.Node // overrides NotBefore encoding
	NANode    *der.Node
	SPKI      *der.Node
	Exts      []*der.Node
	NoExts    bool
	V1        bool
	SigLen    int     // junk signature length (default 256)
	SelfSign  *RSAKey // really sign with this key (sha256WithRSA)
	SigFill   byte
}

// Tree builds the certificate tree.
func (s *Spec) Tree() *der.Node {
	sig := s.SigOID
	withNull := s.SigNull
	if sig == "" {
		sig = OIDSha256RSA
		withNull = true
	}
	serial := s.Serial
	if serial == nil {
		serial = big.NewInt(0x1234567890ab)
	}
	spki := s.SPKI
	if spki == nil {
		spki = DefaultSPKI()
	}
	nb, na := s.NBNode, s.NANode
	if nb == nil {
		nb = der.Time(s.NotBefore)
	}
	if na == nil {
		na = der.Time(s.NotAfter)
	}
	tbs := der.Seq()
	if !s.V1 {
		tbs.Children = append(tbs.Children, der.Ctx(0, der.Int64(2)))
	}
	tbs.Children = append(tbs.Children, der.Int(serial), AlgID(sig, withNull), s.Issuer, der.Seq(nb, na), s.Subject, spki)
	if !s.NoExts && !s.V1 {
		tbs.Children = append(tbs.Children, der.Ctx(3, der.Seq(s.Exts...)))
	}
	var sigBytes []byte
	if s.SelfSign != nil {
		h := sha256.Sum256(tbs.Encode())
		sb, err := rsa.SignPKCS1v15(nil, s.SelfSign.Priv, crypto.SHA256, h[:])
		if err != nil {
			panic(err)
		}
		sigBytes = sb
	} else {
		n := s.SigLen
		if n == 0 {
			n = 256
		}
		sigBytes = make([]byte, n)
		fill := s.SigFill
		if fill == 0 {
			fill = 0x5a
		}
		for i := range sigBytes {
			sigBytes[i] = fill ^ byte(i*7)
		}
		sigBytes[0] &= 0x7f
	}
	return der.Seq(tbs, AlgID(sig, withNull), der.Bits(sigBytes, 0))
}

func (s *Spec) DER() []byte { return s.Tree().Encode() }
