package gen

import (
	"math/rand"
	"strings"

	"verif/der"
)

// GNPoolEntry is one labelled GeneralName for SAN / IAN payloads.
type GNPoolEntry struct {
	Label string
	Node  func() *der.Node
}

// GNPool: compliant / non-compliant / unparseable x every GeneralName kind.
var GNPool = []GNPoolEntry{
	{"dns-good", func() *der.Node { return GNDNS("www.example.com") }},
	{"dns-good2", func() *der.Node { return GNDNS("mail.example.org") }},
	{"dns-wildcard", func() *der.Node { return GNDNS("*.example.com") }},
	{"dns-wildcard-suffix", func() *der.Node { return GNDNS("*.co.uk") }},
	{"dns-wildcard-inner", func() *der.Node { return GNDNS("a.*.example.com") }},
	{"dns-underscore-sld", func() *der.Node { return GNDNS("www.ex_ample.com") }},
	{"dns-underscore-trd", func() *der.Node { return GNDNS("w_w.example.com") }},
	{"dns-hyphen-sld", func() *der.Node { return GNDNS("www.-example.com") }},
	{"dns-hyphen-sld-end", func() *der.Node { return GNDNS("www.example-.com") }},
	{"dns-hyphen34", func() *der.Node { return GNDNS("ab--cd.example.com") }},
	{"dns-xn-bad", func() *der.Node { return GNDNS("xn--zz--.example.com") }},
	{"dns-xn-good", func() *der.Node { return GNDNS("xn--bcher-kva.example.com") }},
	// internationalised names: A-labels whose basic (ASCII) code points differ only in CASE. Punycode copies them
	// verbatim, and a few letters compose with a following mark in one case only (h+U+0331 -> U+1E96, no capital
	// form; I+U+0307 -> U+0130, small i does not), so case-variants of one A-label can differ in being NFC.
	{"dns-idn-h-macron-lower-notnfc", func() *der.Node { return GNDNS("xn--h-oeb.example.com") }},
	{"dns-idn-h-macron-upper-nfc", func() *der.Node { return GNDNS("xn--H-oeb.example.com") }},
	{"dns-idn-h-macron-allupper", func() *der.Node { return GNDNS("XN--H-OEB.example.com") }},
	{"dns-idn-t-diaeresis-lower-notnfc", func() *der.Node { return GNDNS("xn--t-ccb.example.org") }},
	{"dns-idn-t-diaeresis-upper-nfc", func() *der.Node { return GNDNS("xn--T-ccb.example.org") }},
	{"dns-idn-i-dot-upper-notnfc", func() *der.Node { return GNDNS("xn--I-9bb.example.com") }},
	{"dns-idn-i-dot-lower-nfc", func() *der.Node { return GNDNS("xn--i-9bb.example.com") }},
	{"dns-idn-good-upper-prefix", func() *der.Node { return GNDNS("XN--bcher-kva.example.com") }},
	{"dns-idn-good-upper-basic", func() *der.Node { return GNDNS("xn--Bcher-kva.example.com") }},
	{"dns-idn-ascii-only-alabel", func() *der.Node { return GNDNS("www.example.xn--com-") }},
	{"dns-idn-ascii-only-alabel-sld", func() *der.Node { return GNDNS("xn--example-.com") }},
	{"dns-idn-empty-alabel", func() *der.Node { return GNDNS("xn--.example.com") }},
	{"dns-idn-nested-alabel", func() *der.Node { return GNDNS("xn--xn--bcher-kva-.example.com") }},
	{"dns-idn-cyrillic", func() *der.Node { return GNDNS("xn--80ak6aa92e.com") }},
	{"dns-idn-tld", func() *der.Node { return GNDNS("www.example.xn--p1ai") }},
	{"dns-idn-tld-upper", func() *der.Node { return GNDNS("www.example.XN--P1AI") }},
	{"dns-idn-ulabel-utf8", func() *der.Node { return GNDNS("b\xc3\xbccher.example.com") }},
	{"dns-idn-two-labels-same-folded", func() *der.Node { return GNDNS("xn--H-oeb.xn--h-oeb.example.com") }},
	{"dns-empty-label", func() *der.Node { return GNDNS("www..example.com") }},
	{"dns-trailing-dot", func() *der.Node { return GNDNS("www.example.com.") }},
	{"dns-leading-dot", func() *der.Node { return GNDNS(".example.com") }},
	{"dns-long-label", func() *der.Node { return GNDNS(strings.Repeat("a", 64) + ".example.com") }},
	{"dns-63-label", func() *der.Node { return GNDNS(strings.Repeat("a", 63) + ".example.com") }},
	{"dns-64-last-label", func() *der.Node { return GNDNS("www.example." + strings.Repeat("a", 64)) }},
	{"dns-63-last-label", func() *der.Node { return GNDNS("www.example." + strings.Repeat("a", 63)) }},
	{"dns-65-last-label", func() *der.Node { return GNDNS("www.example." + strings.Repeat("a", 65)) }},
	{"dns-64-only-label", func() *der.Node { return GNDNS(strings.Repeat("b", 64)) }},
	{"dns-63-only-label", func() *der.Node { return GNDNS(strings.Repeat("b", 63)) }},
	{"dns-64-middle-label", func() *der.Node { return GNDNS("www." + strings.Repeat("c", 64) + ".com") }},
	{"dns-wildcard-64", func() *der.Node { return GNDNS("*." + strings.Repeat("d", 64)) }},
	{"dns-empty-last-label-64", func() *der.Node { return GNDNS(strings.Repeat("e", 64) + ".") }},
	{"dns-hyphen-only-sld", func() *der.Node { return GNDNS("www.-.com") }},
	{"dns-underscore-only", func() *der.Node { return GNDNS("_.example.com") }},
	{"dns-too-long", func() *der.Node { return GNDNS(strings.Repeat("abcdefgh.", 30) + "example.com") }},
	{"dns-unparseable-suffix", func() *der.Node { return GNDNS("com") }},
	{"dns-bare-suffix", func() *der.Node { return GNDNS("co.uk") }},
	{"dns-invalid-tld", func() *der.Node { return GNDNS("www.example.invalidtldzz") }},
	{"dns-internal", func() *der.Node { return GNDNS("server.local") }},
	{"dns-onion", func() *der.Node { return GNDNS("pg6mmjiyjmcrsslvykfwnntlaru7p5svn6y2ymmju6nubxndf4pscryd.onion") }},
	{"dns-bad-char", func() *der.Node { return GNDNS("www.exa$mple.com") }},
	{"dns-space", func() *der.Node { return GNDNS("www.exa mple.com") }},
	{"dns-upper", func() *der.Node { return GNDNS("WWW.EXAMPLE.COM") }},
	{"dns-ip-like", func() *der.Node { return GNDNS("192.168.1.1") }},
	{"dns-arpa", func() *der.Node { return GNDNS("4.3.2.10.in-addr.arpa") }},
	{"dns-arpa-public", func() *der.Node { return GNDNS("8.8.8.8.in-addr.arpa") }},
	{"dns-arpa-short", func() *der.Node { return GNDNS("2.0.192.in-addr.arpa") }},
	{"dns-arpa-not-numeric", func() *der.Node { return GNDNS("a.b.c.d.in-addr.arpa") }},
	{"dns-ip6-arpa-public", func() *der.Node {
		return GNDNS("8.8.8.8.0.0.0.0.0.0.0.0.0.0.0.0.0.0.0.0.0.6.8.4.0.6.8.4.1.0.0.2.ip6.arpa")
	}},
	{"dns-ip6-arpa-reserved", func() *der.Node {
		return GNDNS("1.0.0.0.0.0.0.0.0.0.0.0.0.0.0.0.0.0.0.0.0.0.0.0.8.b.d.0.1.0.0.2.ip6.arpa")
	}},
	{"dns-ip6-arpa-short", func() *der.Node { return GNDNS("8.b.d.0.1.0.0.2.ip6.arpa") }},
	{"dns-arpa-other-zone", func() *der.Node { return GNDNS("home.arpa") }},
	// well-formed reverse names of the WRONG address class for their zone
	{"dns-ip6-arpa-v4-mapped", func() *der.Node {
		return GNDNS("8.0.8.0.8.0.8.0.f.f.f.f.0.0.0.0.0.0.0.0.0.0.0.0.0.0.0.0.0.0.0.0.ip6.arpa")
	}},
	{"dns-ip6-arpa-v4-mapped-reserved", func() *der.Node {
		return GNDNS("1.0.0.0.0.0.0.a.f.f.f.f.0.0.0.0.0.0.0.0.0.0.0.0.0.0.0.0.0.0.0.0.ip6.arpa")
	}},
	{"dns-in-addr-arpa-v6-labels", func() *der.Node { return GNDNS("1.1.168.::2.in-addr.arpa") }},
	{"dns-in-addr-arpa-hex-labels", func() *der.Node { return GNDNS("a.b.c.d.in-addr.arpa") }},
	{"dns-in-addr-arpa-256", func() *der.Node { return GNDNS("256.1.1.10.in-addr.arpa") }},
	{"dns-in-addr-arpa-5-labels", func() *der.Node { return GNDNS("5.4.3.2.10.in-addr.arpa") }},
	{"dns-ip6-arpa-33-nibbles", func() *der.Node {
		return GNDNS("0.1.0.0.0.0.0.0.0.0.0.0.0.0.0.0.0.0.0.0.0.0.0.0.0.8.b.d.0.1.0.0.2.ip6.arpa")
	}},
	{"dns-ip6-arpa-two-char-nibble", func() *der.Node {
		return GNDNS("10.0.0.0.0.0.0.0.0.0.0.0.0.0.0.0.0.0.0.0.0.0.0.0.8.b.d.0.1.0.0.2.ip6.arpa")
	}},
	// GeneralName entries of types the profile does not define: the parser skips them, the lints that walk the raw
	// extension themselves must not stop at them
	// elements that are not GeneralNames at all: the tag NUMBER of a name type (or none) in another tag CLASS - what a CA
	// emits when it forgets the IMPLICIT tag. The parser dispatches on the number and accepts them.
	{"gn-universal-ia5string", func() *der.Node { return der.Str(der.TagIA5, "example.org") }},
	{"gn-universal-utf8string", func() *der.Node { return der.Str(der.TagUTF8, "example.org") }},
	{"gn-universal-null", func() *der.Node { return der.Null() }},
	{"gn-universal-integer-2", func() *der.Node { return der.Prim(2, []byte{0x02}) }},
	{"gn-application-2", func() *der.Node { return &der.Node{Class: 1, Tag: 2, Content: []byte("app.example.org")} }},
	{"gn-private-2-empty", func() *der.Node { return &der.Node{Class: 3, Tag: 2} }},
	{"gn-high-tag-31", func() *der.Node { return der.CtxPrim(31, []byte{0}) }},
	{"gn-high-tag-200-constructed", func() *der.Node { return der.Ctx(200, der.Str(der.TagUTF8, "x")) }},
	{"gn-tag-9", func() *der.Node { return der.CtxPrim(9, []byte("nine")) }},
	{"gn-tag-30-empty", func() *der.Node { return der.CtxPrim(30, nil) }},
	{"dns-empty", func() *der.Node { return GNDNS("") }},
	{"dns-non-ia5", func() *der.Node { return der.CtxPrim(2, []byte("w\xc3\xbcrst.example.com")) }},
	{"dns-nul", func() *der.Node { return der.CtxPrim(2, []byte("www.exa\x00mple.com")) }},
	{"email-good", func() *der.Node { return GNEmail("alice@example.com") }},
	{"email-bad", func() *der.Node { return GNEmail("not-an-address") }},
	{"email-angle", func() *der.Node { return GNEmail("<alice@example.com>") }},
	// directoryName entries that carry (or do not carry) mailbox addresses
	{"dir-with-email", func() *der.Node {
		return GNDir(Name(A(OIDCN, "Carol Example"), A(OIDEmail, "carol@example.com")))
	}},
	{"dir-with-other-email", func() *der.Node {
		return GNDir(Name(A(OIDO, "Example Org"), A(OIDEmail, "dave@example.org")))
	}},
	{"dir-with-two-emails", func() *der.Node {
		return GNDir(Name(A(OIDEmail, "erin@example.com"), A(OIDCN, "Erin"), A(OIDEmail, "erin.alt@example.net")))
	}},
	{"dir-with-san-email", func() *der.Node { return GNDir(Name(A(OIDCN, "Alice"), A(OIDEmail, "alice@example.com"))) }},
	{"dir-with-non-mailbox-email", func() *der.Node { return GNDir(Name(A(OIDEmail, "helpdesk at example dot com"))) }},
	{"dir-cn-only", func() *der.Node { return GNDir(Name(A(OIDC, "US"), A(OIDCN, "No Mailbox Here"))) }},
	{"dir-empty", func() *der.Node { return GNDir(Name()) }},
	{"email-empty", func() *der.Node { return GNEmail("") }},
	{"email-quoted-space", func() *der.Node { return GNEmail("\"john doe\"@example.com") }},
	{"email-space-local", func() *der.Node { return GNEmail("john doe@example.com") }},
	{"email-space-domain", func() *der.Node { return GNEmail("alice@exa mple.com") }},
	{"email-leading-space", func() *der.Node { return GNEmail(" alice@example.com") }},
	{"email-trailing-space", func() *der.Node { return GNEmail("alice@example.com ") }},
	{"email-quoted-at", func() *der.Node { return GNEmail("\"a@b\"@example.com") }},
	{"email-quoted-then-space", func() *der.Node { return GNEmail("\"john\"@exa mple.com") }},
	{"email-comment", func() *der.Node { return GNEmail("(comment)alice@example.com") }},
	{"email-two-ats", func() *der.Node { return GNEmail("alice@@example.com") }},
	{"email-ip-literal", func() *der.Node { return GNEmail("alice@[192.0.2.1]") }},
	{"email-mailto", func() *der.Node { return GNEmail("mailto:alice@example.com") }},
	{"email-list", func() *der.Node { return GNEmail("alice@example.com,bob@example.com") }},
	{"email-display-name", func() *der.Node { return GNEmail("Alice Example <alice@example.com>") }},
	{"email-upper", func() *der.Node { return GNEmail("ALICE@EXAMPLE.COM") }},
	{"email-tab", func() *der.Node { return GNEmail("alice\t@example.com") }},
	{"email-no-domain", func() *der.Node { return GNEmail("alice@") }},
	{"email-no-local", func() *der.Node { return GNEmail("@example.com") }},
	{"email-non-ia5", func() *der.Node { return der.CtxPrim(1, []byte("al\xefce@example.com")) }},
	{"uri-good", func() *der.Node { return GNURI("https://www.example.com/path") }},
	{"uri-noscheme", func() *der.Node { return GNURI("www.example.com/path") }},
	{"uri-mailto", func() *der.Node { return GNURI("mailto:alice@example.com") }},
	{"uri-urn", func() *der.Node { return GNURI("urn:uuid:f81d4fae-7dec-11d0-a765-00a0c91e6bf6") }},
	{"uri-ipv6", func() *der.Node { return GNURI("https://[2001:db8::1]:8443/x") }},
	{"uri-userinfo", func() *der.Node { return GNURI("ftp://user:pw@ftp.example.com/") }},
	{"uri-nohost", func() *der.Node { return GNURI("https:///path") }},
	{"uri-bad-host", func() *der.Node { return GNURI("https://exa_mple/path") }},
	{"uri-unparseable", func() *der.Node { return GNURI("http://[::1") }},
	{"uri-pct", func() *der.Node { return GNURI("http://%zz/") }},
	{"uri-empty", func() *der.Node { return GNURI("") }},
	{"uri-blank", func() *der.Node { return GNURI("http://www.example.com/a b") }},
	{"uri-ldap", func() *der.Node { return GNURI("ldap://ldap.example.com/cn=x?cert") }},
	{"uri-single-label", func() *der.Node { return GNURI("http://localhost/status") }},
	{"uri-single-label-port", func() *der.Node { return GNURI("https://intranet-ca:8443/ca.crt") }},
	{"uri-single-label-ldap", func() *der.Node { return GNURI("ldap://dc01/cn=ca") }},
	{"uri-star-host", func() *der.Node { return GNURI("http://*/x") }},
	{"uri-userinfo-single", func() *der.Node { return GNURI("http://admin@corp/") }},
	{"dns-ipv4-literal", func() *der.Node { return GNDNS("192.0.2.7") }},
	{"dns-ipv6-literal", func() *der.Node { return GNDNS("2001:db8::1") }},
	{"dns-single-label", func() *der.Node { return GNDNS("localhost") }},
	{"uri-non-ia5", func() *der.Node { return der.CtxPrim(6, []byte("https://ex\xe4mple.com/")) }},
	{"ip-v4-public", func() *der.Node { return GNIP([]byte{93, 184, 216, 34}) }},
	{"ip-v4-private", func() *der.Node { return GNIP([]byte{10, 0, 0, 1}) }},
	{"ip-v6", func() *der.Node {
		return GNIP([]byte{0x26, 0x06, 0x47, 0, 0x47, 0, 0, 0, 0, 0, 0, 0, 0, 0, 0x11, 0x11})
	}},
	{"ip-len5", func() *der.Node { return GNIP([]byte{1, 2, 3, 4, 5}) }},
	{"ip-len0", func() *der.Node { return GNIP(nil) }},
	{"ip-len3", func() *der.Node { return GNIP([]byte{1, 2, 3}) }},
	{"ip-len15", func() *der.Node { return GNIP(make([]byte, 15)) }},
	{"ip-len17", func() *der.Node { return GNIP(make([]byte, 17)) }},
	{"other-upn", func() *der.Node { return GNOther("1.3.6.1.4.1.311.20.2.3", der.Str(der.TagUTF8, "alice@example.com")) }},
	{"other-smtputf8", func() *der.Node {
		return GNOther("1.3.6.1.5.5.7.8.9", der.Str(der.TagUTF8, "al\xc3\xafce@example.com"))
	}},
	{"other-empty-smtputf8", func() *der.Node { return GNOther("1.3.6.1.5.5.7.8.9", der.Str(der.TagUTF8, "")) }},
	{"x400", func() *der.Node { return GNX400() }},
	{"dirname", func() *der.Node { return GNDir(Name(A(OIDC, "US"), A(OIDCN, "Dir Name"))) }},
	{"dirname-empty", func() *der.Node { return GNDir(der.Seq()) }},
	{"edi", func() *der.Node { return GNEDI("party") }},
	{"rid", func() *der.Node { return GNRID("1.2.3.4") }},
	{"rid-empty", func() *der.Node { return der.CtxPrim(8, nil) }},
}

// RandGNs draws n pool entries (with labels).
func RandGNs(rng *rand.Rand, n int) ([]*der.Node, []string) {
	var nodes []*der.Node
	var labels []string
	for i := 0; i < n; i++ {
		e := GNPool[rng.Intn(len(GNPool))]
		nodes = append(nodes, e.Node())
		labels = append(labels, e.Label)
	}
	return nodes, labels
}

// ReplaceExt swaps the extension with the same OID in s.Exts (or appends).
func (s *Spec) ReplaceExt(e *der.Node) *Spec {
	oid := der.ExtOID(e)
	for i, x := range s.Exts {
		if der.ExtOID(x) == oid {
			s.Exts[i] = e
			return s
		}
	}
	s.Exts = append(s.Exts, e)
	return s
}

// RemoveExt drops the extension with the OID from s.Exts.
func (s *Spec) RemoveExt(oid string) *Spec {
	var keep []*der.Node
	for _, x := range s.Exts {
		if der.ExtOID(x) != oid {
			keep = append(keep, x)
		}
	}
	s.Exts = keep
	return s
}

// DNSPool returns the dNSName entries of the pool.
func DNSPool() []GNPoolEntry {
	var out []GNPoolEntry
	for _, e := range GNPool {
		if strings.HasPrefix(e.Label, "dns-") {
			out = append(out, e)
		}
	}
	return out
}
