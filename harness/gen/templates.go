package gen

import (
	"math/big"
	"time"

	"verif/der"
)

func D(y, m, d int) time.Time { return time.Date(y, time.Month(m), d, 0, 0, 0, 0, time.UTC) }

var caName = Name(A(OIDC, "US"), A(OIDO, "Verif Test CA Org"), A(OIDCN, "Verif Issuing CA R1"))

func keyID(b byte) []byte {
	out := make([]byte, 20)
	for i := range out {
		out[i] = b + byte(i)
	}
	return out
}

// TLSLeaf is a server-auth subscriber certificate (OV policy, 90 days).
func TLSLeaf(nb time.Time, dns ...string) *Spec {
	if len(dns) == 0 {
		dns = []string{"www.example.com"}
	}
	var gns []*der.Node
	for _, d := range dns {
		gns = append(gns, GNDNS(d))
	}
	return &Spec{
		Issuer:    caName.Clone(),
		Subject:   Name(A(OIDC, "US"), A(OIDST, "California"), A(OIDL, "San Francisco"), A(OIDO, "Example Org"), A(OIDCN, dns[0])),
		NotBefore: nb, NotAfter: nb.Add(90*24*time.Hour - time.Second),
		Exts: []*der.Node{
			ExtKU(true, 0),
			ExtEKU(false, OIDEkuServer, OIDEkuClient),
			ExtBC(true, false, -1),
			ExtSKI(keyID(1)),
			ExtAKI(keyID(50)),
			ExtAIA(AD(OIDAdOCSP, GNURI("http://ocsp.example.net")), AD(OIDAdIssuers, GNURI("http://ca.example.net/r1.crt"))),
			ExtSAN(false, gns...),
			ExtPolicies(OIDPolOV),
			ExtCRLDP("http://crl.example.net/r1.crl"),
		},
	}
}

// SMIMELeaf is an S/MIME subscriber (mailbox-validated legacy policy).
func SMIMELeaf(nb time.Time, email string) *Spec {
	return &Spec{
		Issuer:    caName.Clone(),
		Subject:   Name(A(OIDCN, email), A(OIDEmail, email)),
		NotBefore: nb, NotAfter: nb.Add(365 * 24 * time.Hour),
		Exts: []*der.Node{
			ExtKU(true, 0, 2),
			ExtEKU(false, OIDEkuEmail),
			ExtSKI(keyID(2)),
			ExtAKI(keyID(50)),
			ExtAIA(AD(OIDAdOCSP, GNURI("http://ocsp.example.net")), AD(OIDAdIssuers, GNURI("http://ca.example.net/r1.crt"))),
			ExtSAN(false, GNEmail(email)),
			ExtPolicies("2.23.140.1.5.1.1"),
			ExtCRLDP("http://crl.example.net/r1.crl"),
		},
	}
}

// CSLeaf is a code-signing subscriber.
func CSLeaf(nb time.Time) *Spec {
	return &Spec{
		Issuer:    caName.Clone(),
		Subject:   Name(A(OIDC, "US"), A(OIDST, "Texas"), A(OIDL, "Austin"), A(OIDO, "Code Org"), A(OIDCN, "Code Org")),
		NotBefore: nb, NotAfter: nb.Add(365 * 24 * time.Hour),
		Exts: []*der.Node{
			ExtKU(true, 0),
			ExtEKU(false, OIDEkuCode),
			ExtSKI(keyID(3)),
			ExtAKI(keyID(50)),
			ExtAIA(AD(OIDAdOCSP, GNURI("http://ocsp.example.net")), AD(OIDAdIssuers, GNURI("http://ca.example.net/r1.crt"))),
			ExtPolicies(OIDPolCS),
			ExtCRLDP("http://crl.example.net/r1.crl"),
		},
	}
}

// SubCA is an intermediate CA certificate.
func SubCA(nb time.Time) *Spec {
	return &Spec{
		Issuer:    Name(A(OIDC, "US"), A(OIDO, "Verif Test CA Org"), A(OIDCN, "Verif Root X1")),
		Subject:   caName.Clone(),
		NotBefore: nb, NotAfter: nb.Add(5 * 365 * 24 * time.Hour),
		Exts: []*der.Node{
			ExtKU(true, 5, 6),
			ExtEKU(false, OIDEkuServer, OIDEkuClient),
			ExtBC(true, true, 0),
			ExtSKI(keyID(50)),
			ExtAKI(keyID(90)),
			ExtAIA(AD(OIDAdOCSP, GNURI("http://ocsp.root.example.net")), AD(OIDAdIssuers, GNURI("http://ca.example.net/x1.crt"))),
			ExtPolicies(OIDPolOV),
			ExtCRLDP("http://crl.example.net/x1.crl"),
		},
	}
}

// RootCA is a really self-signed root with the given key.
func RootCA(nb time.Time, key *RSAKey) *Spec {
	n := Name(A(OIDC, "US"), A(OIDO, "Verif Test CA Org"), A(OIDCN, "Verif Root X1"))
	return &Spec{
		Issuer: n, Subject: n.Clone(),
		NotBefore: nb, NotAfter: nb.Add(20 * 365 * 24 * time.Hour),
		SPKI:     RSASPKI(key.N, big.NewInt(65537)),
		SelfSign: key,
		Exts: []*der.Node{
			ExtKU(true, 5, 6),
			ExtBC(true, true, -1),
			ExtSKI(keyID(90)),
		},
	}
}

// ---- CRL ----

// CRLSpec describes a CertificateList.
type CRLSpec struct {
	Issuer     *der.Node
	ThisUpdate time.Time
	NextUpdate time.Time // zero = absent
	TUNode     *der.Node
	Revoked    []*der.Node // revokedCertificate entries
	Exts       []*der.Node
	V1         bool
}

// Revoked builds one revokedCertificates entry.
func Revoked(serial int64, when time.Time, entryExts ...*der.Node) *der.Node {
	e := der.Seq(der.Int64(serial), der.Time(when))
	if len(entryExts) > 0 {
		e.Children = append(e.Children, der.Seq(entryExts...))
	}
	return e
}

// ExtReason builds a reasonCode entry extension.
func ExtReason(code int64) *der.Node {
	return der.MakeExt("2.5.29.21", false, der.Prim(der.TagEnum, []byte{byte(code)}))
}
func ExtCRLNumber(n int64) *der.Node { return der.MakeExt("2.5.29.20", false, der.Int64(n)) }

func (s *CRLSpec) Tree() *der.Node {
	tbs := der.Seq()
	if !s.V1 {
		tbs.Children = append(tbs.Children, der.Int64(1))
	}
	iss := s.Issuer
	if iss == nil {
		iss = caName.Clone()
	}
	tu := s.TUNode
	if tu == nil {
		tu = der.Time(s.ThisUpdate)
	}
	tbs.Children = append(tbs.Children, AlgID(OIDSha256RSA, true), iss, tu)
	if !s.NextUpdate.IsZero() {
		tbs.Children = append(tbs.Children, der.Time(s.NextUpdate))
	}
	if len(s.Revoked) > 0 {
		tbs.Children = append(tbs.Children, der.Seq(s.Revoked...))
	}
	if !s.V1 && s.Exts != nil {
		tbs.Children = append(tbs.Children, der.Ctx(0, der.Seq(s.Exts...)))
	}
	sig := make([]byte, 256)
	for i := range sig {
		sig[i] = byte(i*13 + 5)
	}
	return der.Seq(tbs, AlgID(OIDSha256RSA, true), der.Bits(sig, 0))
}
func (s *CRLSpec) DER() []byte { return s.Tree().Encode() }

// BasicCRL is a well-formed v2 CRL.
func BasicCRL(tu time.Time) *CRLSpec {
	return &CRLSpec{ThisUpdate: tu, NextUpdate: tu.Add(7 * 24 * time.Hour),
		Revoked: []*der.Node{Revoked(1001, tu.Add(-time.Hour), ExtReason(1)), Revoked(1002, tu.Add(-2*time.Hour))},
		Exts:    []*der.Node{ExtAKI(keyID(50)), ExtCRLNumber(7)}}
}
