package mon

import (
	"crypto/sha256"
	"encoding/binary"
	"encoding/hex"
	"fmt"
	"hash"
	"math/big"
	"net"
	"reflect"
	"sort"
	"time"
)

// DigestExported hashes every exported field reachable from v (cycle-safe).
// Unexported fields (parser caches) are ignored, as property C05 says.
// Slices are hashed in order with their length, maps by sorted key digest.
func DigestExported(v any) string {
	h := sha256.New()
	w := &walker{h: h, seen: map[uintptr]bool{}}
	w.walk(reflect.ValueOf(v), 0)
	return hex.EncodeToString(h.Sum(nil)[:12])
}

type walker struct {
	h     hash.Hash
	seen  map[uintptr]bool
	Nodes int
}

var (
	tBigInt = reflect.TypeOf(big.Int{})
	tTime   = reflect.TypeOf(time.Time{})
	tIP     = reflect.TypeOf(net.IP{})
)

func (w *walker) u64(x uint64) {
	var b [8]byte
	binary.LittleEndian.PutUint64(b[:], x)
	w.h.Write(b[:])
}

func (w *walker) str(s string) {
	w.u64(uint64(len(s)))
	w.h.Write([]byte(s))
}

func (w *walker) walk(v reflect.Value, depth int) {
	w.Nodes++
	if !v.IsValid() {
		w.str("<invalid>")
		return
	}
	if depth > 60 {
		w.str("<deep>")
		return
	}
	t := v.Type()
	w.str(t.String())
	switch t {
	case tBigInt:
		if v.CanAddr() {
			w.str(v.Addr().Interface().(*big.Int).String())
		} else {
			b := v.Interface().(big.Int)
			w.str(b.String())
		}
		return
	case tTime:
		tm := v.Interface().(time.Time)
		_, off := tm.Zone()
		w.u64(uint64(tm.Unix()))
		w.u64(uint64(tm.Nanosecond()))
		w.u64(uint64(int64(off)))
		return
	case tIP:
		w.str(string(v.Bytes()))
		return
	}
	switch v.Kind() {
	case reflect.Bool:
		if v.Bool() {
			w.u64(1)
		} else {
			w.u64(0)
		}
	case reflect.Int, reflect.Int8, reflect.Int16, reflect.Int32, reflect.Int64:
		w.u64(uint64(v.Int()))
	case reflect.Uint, reflect.Uint8, reflect.Uint16, reflect.Uint32, reflect.Uint64, reflect.Uintptr:
		w.u64(v.Uint())
	case reflect.Float32, reflect.Float64:
		w.str(fmt.Sprint(v.Float()))
	case reflect.String:
		w.str(v.String())
	case reflect.Ptr:
		if v.IsNil() {
			w.str("<nil>")
			return
		}
		p := v.Pointer()
		if w.seen[p] {
			w.str("<seen>")
			return
		}
		w.seen[p] = true
		w.walk(v.Elem(), depth+1)
	case reflect.Interface:
		if v.IsNil() {
			w.str("<nil>")
			return
		}
		w.walk(v.Elem(), depth+1)
	case reflect.Slice:
		if v.IsNil() {
			w.str("<nilslice>")
			return
		}
		w.u64(uint64(v.Len()))
		if t.Elem().Kind() == reflect.Uint8 {
			w.h.Write(v.Bytes())
			return
		}
		for i := 0; i < v.Len(); i++ {
			w.walk(v.Index(i), depth+1)
		}
	case reflect.Array:
		for i := 0; i < v.Len(); i++ {
			w.walk(v.Index(i), depth+1)
		}
	case reflect.Map:
		if v.IsNil() {
			w.str("<nilmap>")
			return
		}
		type kv struct{ k, v string }
		var items []kv
		for _, k := range v.MapKeys() {
			// each entry is walked from the same "seen" state, so the digest does not depend on map iteration order
			kw := &walker{h: sha256.New(), seen: copySeen(w.seen)}
			kw.walk(k, depth+1)
			vw := &walker{h: sha256.New(), seen: copySeen(w.seen)}
			vw.walk(v.MapIndex(k), depth+1)
			items = append(items, kv{string(kw.h.Sum(nil)), string(vw.h.Sum(nil))})
		}
		sort.Slice(items, func(i, j int) bool { return items[i].k < items[j].k })
		w.u64(uint64(len(items)))
		for _, it := range items {
			w.h.Write([]byte(it.k))
			w.h.Write([]byte(it.v))
		}
	case reflect.Struct:
		for i := 0; i < t.NumField(); i++ {
			f := t.Field(i)
			if f.PkgPath != "" { // unexported
				continue
			}
			w.str(f.Name)
			w.walk(v.Field(i), depth+1)
		}
	default: // func, chan, unsafe pointer: identity is not content
		w.str("<opaque>")
	}
}

// SnapDigest is a canonical digest of a snapshot (status + details per lint).
func SnapDigest(s Snap) string {
	keys := make([]string, 0, len(s))
	for k := range s {
		keys = append(keys, k)
	}
	sort.Strings(keys)
	h := sha256.New()
	for _, k := range keys {
		fmt.Fprintf(h, "%d:%s=%d:%d:%s;", len(k), k, s[k].Status, len(s[k].Details), s[k].Details)
	}
	return hex.EncodeToString(h.Sum(nil)[:12])
}

// Parsed returns the parsed object (for digests).
func (o *Obj) Parsed() any {
	switch {
	case o.Cert != nil:
		return o.Cert
	case o.CRL != nil:
		return o.CRL
	default:
		return o.OCSP
	}
}

func copySeen(m map[uintptr]bool) map[uintptr]bool {
	c := make(map[uintptr]bool, len(m))
	for k := range m {
		c[k] = true
	}
	return c
}
