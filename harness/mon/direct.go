package mon

import (
	"runtime/debug"

	"github.com/zmap/zlint/v3/lint"

	"verif/corpus"
)

// Direct is what the harness observes when it drives one lint by itself:
// fresh instance -> configure -> CheckApplies -> (window) -> Execute, each
// step under the harness's own recover so a panic keeps its stack.
type Direct struct {
	CfgErr   error
	Applies  bool
	InWindow bool
	Result   *lint.LintResult // nil unless Execute ran and returned
	Panic    any
	Stack    string
	Phase    string // where a panic happened: "new", "configure", "applies", "execute"
}

// RunDirect executes li on o outside the framework. It does NOT apply the
// source scope gate: callers decide whether the framework would have let the
// lint through (e.g. from the framework's own status).
func RunDirect(li LintInfo, o *Obj, cfg lint.Configuration) (d Direct) {
	defer func() {
		if r := recover(); r != nil {
			d.Panic = r
			d.Stack = string(debug.Stack())
		}
	}()
	d.Phase = "new"
	var inst any
	switch li.Kind {
	case corpus.Cert:
		inst = li.CertL.Lint()
	case corpus.CRL:
		inst = li.CrlL.Lint()
	default:
		inst = li.OcspL.Lint()
	}
	d.Phase = "configure"
	if err := cfg.MaybeConfigure(inst, li.Name); err != nil {
		d.CfgErr = err
		return
	}
	d.Phase = "applies"
	switch li.Kind {
	case corpus.Cert:
		d.Applies = inst.(lint.CertificateLintInterface).CheckApplies(o.Cert)
	case corpus.CRL:
		d.Applies = inst.(lint.RevocationListLintInterface).CheckApplies(o.CRL)
	default:
		d.Applies = inst.(lint.OcspResponseLintInterface).CheckApplies(o.OCSP)
	}
	if !d.Applies {
		return
	}
	d.InWindow = InWindow(li.Meta, o.Date())
	if !d.InWindow {
		return
	}
	d.Phase = "execute"
	switch li.Kind {
	case corpus.Cert:
		d.Result = inst.(lint.CertificateLintInterface).Execute(o.Cert)
	case corpus.CRL:
		d.Result = inst.(lint.RevocationListLintInterface).Execute(o.CRL)
	default:
		d.Result = inst.(lint.OcspResponseLintInterface).Execute(o.OCSP)
	}
	return
}

// PanicSiteAny extracts the first zlint frame below the panic frame, or the
// first zlint lints/util frame of the stack when no panic( line exists.
func PanicSiteAny(stack string) string {
	if s := PanicSite(stack); s != "unknown" {
		return s
	}
	return "unknown"
}
