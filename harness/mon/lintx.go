package mon

import (
	"fmt"
	"math/rand"
	"os"
	"path/filepath"
	"regexp"
	"runtime/debug"
	"sort"
	"strconv"
	"strings"
	"time"

	"github.com/zmap/zcrypto/x509"
	zlint "github.com/zmap/zlint/v3"
	"github.com/zmap/zlint/v3/lint"
	"golang.org/x/crypto/ocsp"

	"verif/corpus"
	"verif/der"
)

// SD is the comparable part of one lint result.
type SD struct {
	Status  int
	Details string
}

// Snap is name -> (status, details).
type Snap map[string]SD

func SnapOf(rs *zlint.ResultSet) Snap {
	s := Snap{}
	if rs == nil {
		return s
	}
	for k, v := range rs.Results {
		if v == nil {
			s[k] = SD{-1, "<nil result>"}
			continue
		}
		s[k] = SD{int(v.Status), v.Details}
	}
	return s
}

// Diff lists lints whose result differs between a and b (restricted to keys of
// b when subset is true). Status only when statusOnly.
func Diff(a, b Snap, statusOnly, subset bool) []string {
	var out []string
	for k, vb := range b {
		va, ok := a[k]
		if !ok {
			out = append(out, k+": missing on left")
			continue
		}
		if va.Status != vb.Status || (!statusOnly && va.Details != vb.Details) {
			out = append(out, fmt.Sprintf("%s: %s %q vs %s %q", k, lint.LintStatus(va.Status), va.Details, lint.LintStatus(vb.Status), vb.Details))
		}
	}
	if !subset {
		for k := range a {
			if _, ok := b[k]; !ok {
				out = append(out, k+": missing on right")
			}
		}
	}
	sort.Strings(out)
	return out
}

// Obj is one parsed object of any kind.
type Obj struct {
	Kind corpus.Kind
	Name string
	DER  []byte
	Cert *x509.Certificate
	CRL  *x509.RevocationList
	OCSP *ocsp.Response
	// Post, when set, is what a CALLER does to the parsed object before linting it (e.g. dropping an index the parser
	// built); it is applied again to every fresh parse Reparse hands out.
	Post func(*Obj)

	parsedDate    time.Time
	hasParsedDate bool
}

// ParseObj parses der as kind; nil when the parser rejects it or panics
// (parser faults are outside every property's quantifier).
func ParseObj(kind corpus.Kind, name string, b []byte) (o *Obj, parserPanic bool) {
	defer func() {
		if r := recover(); r != nil {
			o, parserPanic = nil, true
		}
	}()
	o = &Obj{Kind: kind, Name: name, DER: b}
	switch kind {
	case corpus.Cert:
		c, err := x509.ParseCertificate(b)
		if err != nil {
			return nil, false
		}
		o.Cert = c
	case corpus.CRL:
		c, err := x509.ParseRevocationList(b)
		if err != nil {
			return nil, false
		}
		o.CRL = c
	case corpus.OCSP:
		c, err := ocsp.ParseResponse(b, nil)
		if err != nil {
			return nil, false
		}
		o.OCSP = c
	}
	// the object's date is what the PARSER read from the bytes; it is remembered here so that a lint that rewrites
	// the parsed object's date fields cannot move the instant the window oracle judges against
	o.parsedDate, o.hasParsedDate = o.liveDate(), true
	return o, false
}

// Reparse returns a fresh parse of the same bytes (distinct parsed object).
func (o *Obj) Reparse() *Obj {
	n, _ := ParseObj(o.Kind, o.Name, o.DER)
	if n != nil && o.Post != nil {
		n.Post = o.Post
		o.Post(n)
	}
	return n
}

// Date is the instant the effective window is judged on (as read by the parser, see ParseObj).
func (o *Obj) Date() time.Time {
	if o.hasParsedDate {
		return o.parsedDate
	}
	return o.liveDate()
}

// DateEdited tells the object that the HARNESS (playing a caller who holds the parsed object) changed its date field in
// memory on purpose: from now on that is the object's date.
func (o *Obj) DateEdited() { o.parsedDate, o.hasParsedDate = o.liveDate(), true }

func (o *Obj) liveDate() time.Time {
	switch o.Kind {
	case corpus.Cert:
		return o.Cert.NotBefore
	case corpus.CRL:
		return o.CRL.ThisUpdate
	default:
		return o.OCSP.NextUpdate
	}
}

// Lint runs the matching top-level entry point under recover.
func (o *Obj) Lint(reg lint.Registry) (rs *zlint.ResultSet, panicVal any, stack string) {
	defer func() {
		if r := recover(); r != nil {
			panicVal = r
			stack = string(debug.Stack())
		}
	}()
	switch o.Kind {
	case corpus.Cert:
		rs = zlint.LintCertificateEx(o.Cert, reg)
	case corpus.CRL:
		rs = zlint.LintRevocationListEx(o.CRL, reg)
	default:
		rs = zlint.LintOcspResponseEx(o.OCSP, reg)
	}
	return
}

// LintDefault runs the entry point WITHOUT a registry argument (LintCertificate /
// LintRevocationList / LintOcspResponse), which must behave like Lint*Ex(obj, nil).
func (o *Obj) LintDefault() (rs *zlint.ResultSet, panicVal any, stack string) {
	defer func() {
		if r := recover(); r != nil {
			panicVal = r
			stack = string(debug.Stack())
		}
	}()
	switch o.Kind {
	case corpus.Cert:
		rs = zlint.LintCertificate(o.Cert)
	case corpus.CRL:
		rs = zlint.LintRevocationList(o.CRL)
	default:
		rs = zlint.LintOcspResponse(o.OCSP)
	}
	return
}

// PanicSite extracts the first zlint lint/util frame of a stack.
func PanicSite(stack string) string {
	lines := strings.Split(stack, "\n")
	seenPanic := false
	for _, l := range lines {
		l = strings.TrimSpace(l)
		if strings.HasPrefix(l, "panic(") {
			seenPanic = true
			continue
		}
		if !seenPanic {
			continue
		}
		if strings.HasPrefix(l, "github.com/zmap/zlint/v3/") {
			if i := strings.LastIndex(l, "("); i > 0 {
				l = l[:i]
			}
			return strings.TrimPrefix(l, "github.com/zmap/zlint/v3/")
		}
	}
	return "unknown"
}

var panicMarker = regexp.MustCompile(`(?s)^'.*' panicked\. Error: `)

// IsRecoveredPanic recognises the framework's report of a recovered panic.
func IsRecoveredPanic(sd SD) bool {
	return sd.Status == int(lint.Fatal) && panicMarker.MatchString(sd.Details)
}

// ---- registry inventory ----

type LintInfo struct {
	Name   string
	Kind   corpus.Kind
	Meta   lint.LintMetadata
	CertL  *lint.CertificateLint
	CrlL   *lint.RevocationListLint
	OcspL  *lint.OcspResponseLint
	Config bool // instance implements Configurable
}

// Inventory lists every lint of reg by probing ByName per kind for each name
// in Names() - deliberately not via Lints(), which the implementation uses.
func Inventory(reg lint.Registry) []LintInfo {
	var out []LintInfo
	for _, n := range reg.Names() {
		if l := reg.CertificateLints().ByName(n); l != nil {
			_, cfg := l.Lint().(lint.Configurable)
			out = append(out, LintInfo{Name: n, Kind: corpus.Cert, Meta: l.LintMetadata, CertL: l, Config: cfg})
		}
		if l := reg.RevocationListLints().ByName(n); l != nil {
			_, cfg := l.Lint().(lint.Configurable)
			out = append(out, LintInfo{Name: n, Kind: corpus.CRL, Meta: l.LintMetadata, CrlL: l, Config: cfg})
		}
		if l := reg.OcspResponseLints().ByName(n); l != nil {
			_, cfg := l.Lint().(lint.Configurable)
			out = append(out, LintInfo{Name: n, Kind: corpus.OCSP, Meta: l.LintMetadata, OcspL: l, Config: cfg})
		}
	}
	return out
}

// ---- universal monitors ----

// ShapeProblems is the C01 oracle for one result set.
func ShapeProblems(rs *zlint.ResultSet, reg lint.Registry, kind corpus.Kind, wantVersion int64) []string {
	var p []string
	if rs == nil {
		return []string{"nil ResultSet for non-nil object"}
	}
	if reg == nil {
		reg = lint.GlobalRegistry()
	}
	want := map[string]lint.LintMetadata{}
	for _, li := range Inventory(reg) {
		if li.Kind == kind {
			want[li.Name] = li.Meta
		}
	}
	for n := range want {
		if _, ok := rs.Results[n]; !ok {
			p = append(p, "missing-result:"+n)
		}
	}
	var n, w, e, f bool
	for k, r := range rs.Results {
		m, ok := want[k]
		if !ok {
			p = append(p, "extra-result:"+k)
			continue
		}
		if r == nil {
			p = append(p, "nil-result:"+k)
			continue
		}
		if r.LintMetadata != m {
			p = append(p, "metadata-mismatch:"+k)
		}
		if r.Status < lint.NA || r.Status > lint.Fatal {
			p = append(p, fmt.Sprintf("bad-status:%s=%d", k, int(r.Status)))
		}
		switch r.Status {
		case lint.Notice:
			n = true
		case lint.Warn:
			w = true
		case lint.Error:
			e = true
		case lint.Fatal:
			f = true
		}
	}
	if rs.NoticesPresent != n {
		p = append(p, fmt.Sprintf("flag:NoticesPresent=%v want %v", rs.NoticesPresent, n))
	}
	if rs.WarningsPresent != w {
		p = append(p, fmt.Sprintf("flag:WarningsPresent=%v want %v", rs.WarningsPresent, w))
	}
	if rs.ErrorsPresent != e {
		p = append(p, fmt.Sprintf("flag:ErrorsPresent=%v want %v", rs.ErrorsPresent, e))
	}
	if rs.FatalsPresent != f {
		p = append(p, fmt.Sprintf("flag:FatalsPresent=%v want %v", rs.FatalsPresent, f))
	}
	if rs.Version != wantVersion {
		p = append(p, fmt.Sprintf("version:%d want %d", rs.Version, wantVersion))
	}
	return p
}

// MajorVersion reads the major version from the module path in go.mod.
func MajorVersion(repo string) int64 {
	b, err := os.ReadFile(filepath.Join(repo, "v3", "go.mod"))
	if err != nil {
		return -1
	}
	for _, l := range strings.Split(string(b), "\n") {
		l = strings.TrimSpace(l)
		if strings.HasPrefix(l, "module ") {
			i := strings.LastIndex(l, "/v")
			if i < 0 {
				return 1
			}
			v, err := strconv.ParseInt(l[i+2:], 10, 64)
			if err != nil {
				return -1
			}
			return v
		}
	}
	return -1
}

// SeverityProblem is the C06 oracle for one (name, status).
func SeverityProblem(name string, st lint.LintStatus) string {
	switch {
	case strings.HasPrefix(name, "e_"):
		if st == lint.Warn || st == lint.Notice {
			return st.String()
		}
	case strings.HasPrefix(name, "w_"):
		if st == lint.Error || st == lint.Notice {
			return st.String()
		}
	case strings.HasPrefix(name, "n_"):
		if st == lint.Warn || st == lint.Error {
			return st.String()
		}
	default:
		return "no-prefix"
	}
	return ""
}

// InWindow is the reference window predicate on integer Unix seconds
// (nanoseconds too, for exactness) - time-zone free.
func InWindow(m lint.LintMetadata, t time.Time) bool {
	ge := func(a, b time.Time) bool {
		if a.Unix() != b.Unix() {
			return a.Unix() > b.Unix()
		}
		return a.Nanosecond() >= b.Nanosecond()
	}
	if !m.EffectiveDate.IsZero() && !ge(t, m.EffectiveDate) {
		return false
	}
	if !m.IneffectiveDate.IsZero() && ge(t, m.IneffectiveDate) {
		return false
	}
	return true
}

// ---- workload ----

// Workload is the shared seed pool and mutant generator.
type Workload struct {
	Items  []corpus.Item
	Objs   []*Obj // parseable seeds
	Trees  []*der.Node
	ByKind map[corpus.Kind][]int // indices into Objs
}

func LoadWorkload(home string) (*Workload, error) {
	items, err := corpus.Load(home)
	if err != nil {
		return nil, err
	}
	w := &Workload{Items: items, ByKind: map[corpus.Kind][]int{}}
	for _, it := range items {
		o, _ := ParseObj(it.Kind, it.Name, it.DER)
		if o == nil {
			continue
		}
		t, err := der.Parse(it.DER)
		if err != nil {
			continue
		}
		w.ByKind[it.Kind] = append(w.ByKind[it.Kind], len(w.Objs))
		w.Objs = append(w.Objs, o)
		w.Trees = append(w.Trees, t)
	}
	if len(w.Objs) == 0 {
		return nil, fmt.Errorf("empty corpus under %s", home)
	}
	return w, nil
}

// Extra adds generated seeds to the pool.
func (w *Workload) Extra(kind corpus.Kind, name string, b []byte) bool {
	o, _ := ParseObj(kind, name, b)
	if o == nil {
		return false
	}
	t, err := der.Parse(b)
	if err != nil {
		return false
	}
	w.ByKind[kind] = append(w.ByKind[kind], len(w.Objs))
	w.Objs = append(w.Objs, o)
	w.Trees = append(w.Trees, t)
	return true
}

// Mutant derives a hostile object from a seed; returns nil when the parser
// rejects (or panics on) the mutant. CRL and OCSP seeds are over-sampled
// because they are few.
func (w *Workload) Mutant(rng *rand.Rand, st *MutStats) (*Obj, string) {
	var idx int
	switch r := rng.Intn(10); {
	case r < 2 && len(w.ByKind[corpus.CRL]) > 0:
		l := w.ByKind[corpus.CRL]
		idx = l[rng.Intn(len(l))]
	case r == 2 && len(w.ByKind[corpus.OCSP]) > 0:
		l := w.ByKind[corpus.OCSP]
		idx = l[rng.Intn(len(l))]
	default:
		l := w.ByKind[corpus.Cert]
		idx = l[rng.Intn(len(l))]
	}
	return w.MutantOf(idx, rng, st)
}

// MutStats counts parser outcomes.
type MutStats struct{ Tried, Rejected, ParserPanics, Accepted int64 }

func (w *Workload) MutantOf(idx int, rng *rand.Rand, st *MutStats) (*Obj, string) {
	seed := w.Objs[idx]
	donors := []*der.Node{w.Trees[rng.Intn(len(w.Trees))], w.Trees[idx]}
	t, desc := der.Mutate(w.Trees[idx], rng, donors)
	b := t.Encode()
	if st != nil {
		st.Tried++
	}
	o, pp := ParseObj(seed.Kind, seed.Name+"~"+desc, b)
	if o == nil {
		if st != nil {
			if pp {
				st.ParserPanics++
			} else {
				st.Rejected++
			}
		}
		return nil, desc
	}
	if st != nil {
		st.Accepted++
	}
	return o, desc
}

// HexPrefix is a short printable prefix for samples.
func HexPrefix(b []byte, n int) string {
	if len(b) > n {
		b = b[:n]
	}
	return fmt.Sprintf("%x", b)
}
