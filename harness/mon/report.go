// Package mon holds the monitors' shared plumbing: reports, verdicts,
// evidence, known findings, the driver/worker split.
package mon

import (
	"bufio"
	"encoding/json"
	"fmt"
	"os"
	"path/filepath"
	"sort"
	"strings"
	"sync"
)

// Violation is one refuting observation.
type Violation struct {
	Property string            `json:"property"`
	Key      string            `json:"key"`  // canonical identity, used for de-duplication and known findings
	What     string            `json:"what"` // human description: expected vs observed
	Lint     string            `json:"lint,omitempty"`
	Case     int               `json:"case"` // case index (replayable with -only)
	Tier     string            `json:"tier"`
	Seed     int64             `json:"seed"`
	Inputs   map[string]string `json:"inputs,omitempty"` // name -> base64 DER / text
	Extra    map[string]any    `json:"extra,omitempty"`
	Count    int               `json:"count,omitempty"`
}

// Report accumulates what a worker (or the merged run) observed.
type Report struct {
	mu           sync.Mutex
	Counters     map[string]int64            `json:"counters"`
	Sets         map[string]map[string]int64 `json:"sets"` // distinct element -> times seen
	Samples      []any                       `json:"samples"`
	Violations   []Violation                 `json:"violations"`
	Inconclusive []string                    `json:"inconclusive"`
	Cross        map[string]int64            `json:"cross"` // observations belonging to other properties
	Notes        map[string]any              `json:"notes"`
}

func NewReport() *Report {
	return &Report{Counters: map[string]int64{}, Sets: map[string]map[string]int64{}, Cross: map[string]int64{}, Notes: map[string]any{}}
}

func (r *Report) Count(k string, n int64) {
	r.mu.Lock()
	r.Counters[k] += n
	r.mu.Unlock()
}

// Distinct records one occurrence of elem in the named set.
func (r *Report) Distinct(set, elem string) {
	r.mu.Lock()
	m := r.Sets[set]
	if m == nil {
		m = map[string]int64{}
		r.Sets[set] = m
	}
	m[elem]++
	r.mu.Unlock()
}

func (r *Report) SetSize(set string) int {
	r.mu.Lock()
	defer r.mu.Unlock()
	return len(r.Sets[set])
}

func (r *Report) SetKeys(set string) []string {
	r.mu.Lock()
	defer r.mu.Unlock()
	var out []string
	for k := range r.Sets[set] {
		out = append(out, k)
	}
	sort.Strings(out)
	return out
}

// Sample keeps at most max samples.
func (r *Report) Sample(max int, s any) {
	r.mu.Lock()
	if len(r.Samples) < max {
		r.Samples = append(r.Samples, s)
	}
	r.mu.Unlock()
}

func (r *Report) Violate(v Violation) {
	r.mu.Lock()
	defer r.mu.Unlock()
	for i := range r.Violations {
		if r.Violations[i].Key == v.Key {
			r.Violations[i].Count++
			return
		}
	}
	v.Count = 1
	r.Violations = append(r.Violations, v)
}

func (r *Report) Inconcl(s string) {
	r.mu.Lock()
	if len(r.Inconclusive) < 200 {
		r.Inconclusive = append(r.Inconclusive, s)
	}
	r.Counters["inconclusive"]++
	r.mu.Unlock()
}

func (r *Report) CrossObs(k string) {
	r.mu.Lock()
	r.Cross[k]++
	r.mu.Unlock()
}

func (r *Report) Note(k string, v any) {
	r.mu.Lock()
	r.Notes[k] = v
	r.mu.Unlock()
}

// Merge folds o into r.
func (r *Report) Merge(o *Report) {
	for k, v := range o.Counters {
		r.Counters[k] += v
	}
	for s, m := range o.Sets {
		d := r.Sets[s]
		if d == nil {
			d = map[string]int64{}
			r.Sets[s] = d
		}
		for k, v := range m {
			d[k] += v
		}
	}
	for _, s := range o.Samples {
		if len(r.Samples) < 12 {
			r.Samples = append(r.Samples, s)
		}
	}
	for _, v := range o.Violations {
		found := false
		for i := range r.Violations {
			if r.Violations[i].Key == v.Key {
				r.Violations[i].Count += v.Count
				found = true
				break
			}
		}
		if !found {
			r.Violations = append(r.Violations, v)
		}
	}
	r.Inconclusive = append(r.Inconclusive, o.Inconclusive...)
	for k, v := range o.Cross {
		r.Cross[k] += v
	}
	for k, v := range o.Notes {
		if _, ok := r.Notes[k]; !ok {
			r.Notes[k] = v
		}
	}
}

func (r *Report) WriteFile(path string) error {
	r.mu.Lock()
	defer r.mu.Unlock()
	b, err := json.Marshal(r)
	if err != nil {
		return err
	}
	return os.WriteFile(path, b, 0o644)
}

func ReadReport(path string) (*Report, error) {
	b, err := os.ReadFile(path)
	if err != nil {
		return nil, err
	}
	r := NewReport()
	if err := json.Unmarshal(b, r); err != nil {
		return nil, err
	}
	return r, nil
}

// ---- known findings ----

// Finding is one line of known_findings.txt.
type Finding struct {
	Status   string // "known" or "fixed"
	Property string
	Key      string // for known: the violation key it matches exactly
	Text     string
}

// LoadFindings parses /verif/known_findings.txt. Line forms:
//
//	known: property=C06 key=<key> :: <what fails>
//	fixed: property=C13 <commit> <what failed>
func LoadFindings(path string) ([]Finding, error) {
	f, err := os.Open(path)
	if err != nil {
		if os.IsNotExist(err) {
			return nil, nil
		}
		return nil, err
	}
	defer f.Close()
	var out []Finding
	sc := bufio.NewScanner(f)
	sc.Buffer(make([]byte, 1<<20), 1<<20)
	for sc.Scan() {
		line := strings.TrimSpace(sc.Text())
		if line == "" || strings.HasPrefix(line, "#") {
			continue
		}
		var fd Finding
		switch {
		case strings.HasPrefix(line, "known:"):
			fd.Status = "known"
			line = strings.TrimSpace(strings.TrimPrefix(line, "known:"))
		case strings.HasPrefix(line, "fixed:"):
			fd.Status = "fixed"
			line = strings.TrimSpace(strings.TrimPrefix(line, "fixed:"))
		default:
			return nil, fmt.Errorf("known_findings: bad line %q", line)
		}
		fields := strings.Fields(line)
		if len(fields) == 0 || !strings.HasPrefix(fields[0], "property=") {
			return nil, fmt.Errorf("known_findings: missing property= in %q", line)
		}
		fd.Property = strings.TrimPrefix(fields[0], "property=")
		rest := strings.TrimSpace(strings.TrimPrefix(line, fields[0]))
		if fd.Status == "known" {
			if !strings.HasPrefix(rest, "key=") {
				return nil, fmt.Errorf("known_findings: known line without key= %q", line)
			}
			kv := strings.SplitN(strings.TrimPrefix(rest, "key="), " :: ", 2)
			fd.Key = strings.TrimSpace(kv[0])
			if len(kv) > 1 {
				fd.Text = kv[1]
			}
		} else {
			fd.Text = rest
		}
		out = append(out, fd)
	}
	return out, sc.Err()
}

// ---- evidence ----

type Evidence struct {
	PropertyID  string         `json:"property_id"`
	Tier        string         `json:"tier"`
	Seed        int64          `json:"seed"`
	Level       string         `json:"level"`
	Coverage    map[string]any `json:"coverage"`
	Assumptions []string       `json:"assumptions"`
	WallS       float64        `json:"wall_s"`
	Violations  int            `json:"violations"`
}

func WriteEvidence(home string, ev *Evidence) error {
	dir := filepath.Join(home, "evidence")
	if d := os.Getenv("VERIF_EVIDENCE_DIR"); d != "" { // self-tests against scratch copies must not touch the real evidence
		dir = d
	}
	if err := os.MkdirAll(dir, 0o755); err != nil {
		return err
	}
	b, err := json.MarshalIndent(ev, "", " ")
	if err != nil {
		return err
	}
	return os.WriteFile(filepath.Join(dir, ev.PropertyID+".json"), append(b, '\n'), 0o644)
}
