package mon

import (
	"context"
	"crypto/sha256"
	"encoding/base64"
	"encoding/hex"
	"encoding/json"
	"flag"
	"fmt"
	"math/rand"
	"os"
	"os/exec"
	"path/filepath"
	"runtime"
	"runtime/debug"
	"runtime/pprof"
	"sort"
	"strconv"
	"strings"
	"sync"
	"sync/atomic"
	"time"
)

// Check is one property's monitor.
type Check struct {
	ID string
	// Procs returns the number of worker processes (default 16 / NumCPU).
	Procs func(c *Ctx) int
	// Setup runs once per worker before anything else.
	Setup func(c *Ctx) error
	// Once runs in shard 0 only: exhaustive / one-off parts.
	Once func(c *Ctx)
	// Cases returns the number of indexed cases for this tier.
	Cases func(c *Ctx) int
	// RunCase runs case i (a pure function of seed, tier and i).
	RunCase func(c *Ctx, i int)
	// Solo runs in one extra dedicated worker process (e.g. checks that
	// register probe lints into the global registry and must not disturb
	// the other workers' view of it).
	Solo func(c *Ctx)
	// WorkerEnv adds environment variables for worker processes (e.g. GORACE).
	WorkerEnv func(c *Ctx, work string) []string
	// Aux are named auxiliary modes run as their own process (`-aux name`),
	// e.g. the strace'd I/O phase of C05; they write a Report to -out.
	Aux map[string]func(c *Ctx)
	// Driver, when set, replaces the worker fan-out entirely (C10, C15 ...).
	Driver func(c *Ctx)
	// Finish runs in the driver on the merged report: observation gates
	// (returned strings fail the run without a VIOLATION) and evidence.
	Finish func(c *Ctx, r *Report, ev *Evidence) []string
	// CrashIsViolation: an unrecoverable worker crash/stall that reproduces
	// in isolation refutes this property by itself.
	CrashIsViolation bool
	// Rule text for the evidence.
	Rule        string
	Assumptions []string
	// StallSecs overrides the worker watchdog (default 180).
	StallSecs int
}

// Ctx is the per-process context handed to a check.
type Ctx struct {
	Prop   string
	Tier   string
	Seed   int64
	Shard  int
	Of     int
	Home   string // /verif
	Repo   string // /repo (or VERIF_REPO)
	Work   string // scratch directory of this run
	R      *Report
	Only   int // >=0: run just this case
	cur    atomic.Int64
	tick   atomic.Int64
	caseMu sync.Mutex
	seenMu sync.Mutex
	seen   map[uint64]struct{}
}

// NewInput reports whether these bytes are seen for the first time by this
// worker (64-bit FNV-1a hash); used to count DISTINCT inputs. The same bytes
// generated in two different workers may be counted twice (stated in rules).
func (c *Ctx) NewInput(b []byte) bool {
	h := uint64(14695981039346656037)
	for _, x := range b {
		h ^= uint64(x)
		h *= 1099511628211
	}
	c.seenMu.Lock()
	defer c.seenMu.Unlock()
	if c.seen == nil {
		c.seen = map[uint64]struct{}{}
	}
	if _, ok := c.seen[h]; ok {
		return false
	}
	c.seen[h] = struct{}{}
	return true
}

// CountDistinct bumps distinct_nontrivial when the input is new to this worker.
func (c *Ctx) CountDistinct(b []byte) {
	if c.NewInput(b) {
		c.R.Count("distinct_nontrivial", 1)
	} else {
		c.R.Count("duplicate_inputs", 1)
	}
}

func (c *Ctx) Thorough() bool { return c.Tier == "thorough" }

// Pick returns q for quick and t for thorough.
func (c *Ctx) Pick(q, t int) int {
	if c.Thorough() {
		return t
	}
	return q
}

// Rng returns the deterministic generator of case i (stream selects
// independent sub-streams of one case).
func (c *Ctx) Rng(i int, stream int) *rand.Rand {
	h := sha256.Sum256([]byte(fmt.Sprintf("%s|%d|%d|%d", c.Prop, c.Seed, i, stream)))
	var s int64
	for k := 0; k < 8; k++ {
		s = s<<8 | int64(h[k])
	}
	return rand.New(rand.NewSource(s))
}

// Tick tells the watchdog that progress is being made.
func (c *Ctx) Tick() { c.tick.Add(1) }

// V records a violation of the check's own property.
func (c *Ctx) V(key, what, lintName string, inputs map[string][]byte, extra map[string]any) {
	v := Violation{Property: c.Prop, Key: c.Prop + "|" + key, What: what, Lint: lintName,
		Case: int(c.cur.Load()), Tier: c.Tier, Seed: c.Seed, Extra: extra}
	if len(inputs) > 0 {
		v.Inputs = map[string]string{}
		for k, b := range inputs {
			v.Inputs[k] = base64.StdEncoding.EncodeToString(b)
		}
	}
	c.R.Violate(v)
}

var registry = map[string]*Check{}

func Register(ch *Check) { registry[ch.ID] = ch }

func env(k, d string) string {
	if v := os.Getenv(k); v != "" {
		return v
	}
	return d
}

// Main is the entry point of cmd/vcheck.
func Main() {
	fs := flag.NewFlagSet("vcheck", flag.ExitOnError)
	worker := fs.Bool("worker", false, "worker mode")
	shard := fs.Int("shard", 0, "shard index")
	of := fs.Int("of", 1, "shard count")
	only := fs.Int("only", -1, "run a single case")
	out := fs.String("out", "", "worker report file")
	work := fs.String("work", "", "scratch dir")
	replay := fs.String("replay", "", "replay file")
	solo := fs.Bool("solo", false, "solo worker mode")
	aux := fs.String("aux", "", "auxiliary mode")
	if len(os.Args) < 3 {
		fmt.Fprintln(os.Stderr, "usage: vcheck <Cxx> <quick|thorough> [flags]")
		os.Exit(2)
	}
	prop, tier := os.Args[1], os.Args[2]
	_ = fs.Parse(os.Args[3:])
	ch := registry[prop]
	if ch == nil {
		fmt.Fprintf(os.Stderr, "unknown property %s\n", prop)
		os.Exit(2)
	}
	if tier != "quick" && tier != "thorough" {
		fmt.Fprintln(os.Stderr, "tier must be quick or thorough")
		os.Exit(2)
	}
	seed, _ := strconv.ParseInt(env("VERIF_SEED", "1"), 10, 64)
	c := &Ctx{Prop: prop, Tier: tier, Seed: seed, Shard: *shard, Of: *of, Only: *only,
		Home: env("VERIF_HOME", "/verif"), Repo: env("VERIF_REPO", "/repo"), Work: *work, R: NewReport()}
	if *replay != "" {
		b, err := os.ReadFile(*replay)
		if err != nil {
			fmt.Fprintln(os.Stderr, err)
			os.Exit(2)
		}
		var v Violation
		if err := json.Unmarshal(b, &v); err != nil {
			fmt.Fprintln(os.Stderr, err)
			os.Exit(2)
		}
		c.Tier, c.Seed, c.Only = v.Tier, v.Seed, v.Case
		c.Work, _ = os.MkdirTemp(filepath.Join(c.Home, ".work"), "replay.")
		defer os.RemoveAll(c.Work)
		runWorker(ch, c, "")
		for _, x := range c.R.Violations {
			fmt.Printf("REPLAY-VIOLATION property=%s key=%s :: %s\n", x.Property, x.Key, x.What)
		}
		if len(c.R.Violations) > 0 {
			os.RemoveAll(c.Work)
			os.Exit(1)
		}
		fmt.Println("replay: no violation reproduced")
		return
	}
	if *aux != "" {
		f := ch.Aux[*aux]
		if f == nil {
			fmt.Fprintln(os.Stderr, "unknown aux mode")
			os.Exit(2)
		}
		f(c)
		if *out != "" {
			if err := c.R.WriteFile(*out); err != nil {
				fmt.Fprintln(os.Stderr, err)
				os.Exit(2)
			}
		}
		return
	}
	if *worker {
		if *solo {
			runSolo(ch, c, *out)
			return
		}
		runWorker(ch, c, *out)
		return
	}
	os.Exit(runDriver(ch, c))
}

func runWorker(ch *Check, c *Ctx, out string) {
	stall := ch.StallSecs
	if stall == 0 {
		stall = 180
	}
	if s := os.Getenv("VERIF_STALL_SECS"); s != "" {
		stall, _ = strconv.Atoi(s)
	}
	var prog *os.File
	if out != "" {
		prog, _ = os.Create(out + ".progress")
	}
	done := make(chan struct{})
	go func() { // watchdog: no progress for `stall` seconds => goroutine dump, exit 97
		last := int64(-1)
		lastChange := time.Now()
		for {
			select {
			case <-done:
				return
			case <-time.After(2 * time.Second):
			}
			cur := c.tick.Load()
			if cur != last {
				last, lastChange = cur, time.Now()
				continue
			}
			if time.Since(lastChange) > time.Duration(stall)*time.Second {
				fmt.Fprintf(os.Stderr, "VERIF-STALL case=%d no progress for %ds\n", c.cur.Load(), stall)
				_ = pprof.Lookup("goroutine").WriteTo(os.Stderr, 2)
				os.Exit(97)
			}
		}
	}()
	if ch.Setup != nil {
		if err := ch.Setup(c); err != nil {
			fmt.Fprintf(os.Stderr, "setup: %v\n", err)
			os.Exit(2)
		}
	}
	c.Tick()
	// a panic in this worker must not take what it has already observed with it: the report so far is written out
	// (next to the normal one, the driver merges it) before the process dies with the original panic
	defer func() {
		if r := recover(); r != nil {
			if out != "" {
				_ = c.R.WriteFile(out + ".partial")
			}
			panic(r)
		}
	}()
	if ch.Once != nil && c.Shard == 0 && c.Only < 0 {
		c.cur.Store(-1)
		ch.Once(c)
		c.Tick()
	}
	n := 0
	if ch.Cases != nil {
		n = ch.Cases(c)
	}
	for i := 0; i < n; i++ {
		if c.Only >= 0 {
			if i != c.Only {
				continue
			}
		} else if i%c.Of != c.Shard {
			continue
		}
		c.cur.Store(int64(i))
		c.Tick()
		if prog != nil {
			_, _ = prog.WriteAt([]byte(fmt.Sprintf("%012d", i)), 0)
		}
		ch.RunCase(c, i)
		c.R.Count("cases_run", 1)
	}
	close(done)
	if out != "" {
		if err := c.R.WriteFile(out); err != nil {
			fmt.Fprintln(os.Stderr, err)
			os.Exit(2)
		}
	}
}

// runSolo runs the check's Solo part (its own process).
func runSolo(ch *Check, c *Ctx, out string) {
	c.cur.Store(-2)
	go func() {
		time.Sleep(20 * time.Minute)
		fmt.Fprintln(os.Stderr, "VERIF-STALL solo part exceeded its watchdog")
		_ = pprof.Lookup("goroutine").WriteTo(os.Stderr, 2)
		os.Exit(97)
	}()
	if ch.Setup != nil {
		if err := ch.Setup(c); err != nil {
			fmt.Fprintf(os.Stderr, "setup: %v\n", err)
			os.Exit(2)
		}
	}
	func() {
		// a panic inside the scenario: when the innermost non-runtime frame is zlint's, the library failed under the
		// public-API history the scenario drives (a violation, with the site); when it is the harness's, the scenario
		// is broken (inconclusive, the driver's gates fail the run without a verdict)
		defer func() {
			r := recover()
			if r == nil {
				return
			}
			stack := string(debug.Stack())
			site, inZlint := "", false
			for _, l := range strings.Split(stack, "\n") {
				t := strings.TrimSpace(l)
				if strings.HasPrefix(t, "github.com/zmap/zlint/") {
					site, inZlint = strings.SplitN(strings.TrimPrefix(t, "github.com/zmap/zlint/v3/"), "(", 2)[0], true
					break
				}
				if strings.HasPrefix(t, "verif/") {
					site = strings.SplitN(t, "(", 2)[0]
					break
				}
			}
			fmt.Fprintf(os.Stderr, "VERIF-SOLO-PANIC %v at %s\n%s\n", r, site, stack)
			if inZlint {
				c.R.Violate(Violation{Property: c.Prop, Key: c.Prop + "|panic-in-scenario|" + site, What: fmt.Sprintf("zlint panicked during the own-process scenario (a sequence of public API calls): %v at %s", r, site), Tier: c.Tier, Seed: c.Seed, Case: -2, Extra: map[string]any{"stack": stack}})
			} else {
				c.R.Inconcl(fmt.Sprintf("own-process scenario panicked in the harness: %v at %s", r, site))
			}
		}()
		ch.Solo(c)
	}()
	if out != "" {
		if err := c.R.WriteFile(out); err != nil {
			fmt.Fprintln(os.Stderr, err)
			os.Exit(2)
		}
	}
}

type crash struct {
	Shard int
	Exit  int
	Case  int
	Tail  string
	Repro bool
}

func runDriver(ch *Check, c *Ctx) int {
	t0 := time.Now()
	_ = os.MkdirAll(filepath.Join(c.Home, ".work"), 0o755)
	work, err := os.MkdirTemp(filepath.Join(c.Home, ".work"), c.Prop+".")
	if err != nil {
		fmt.Fprintln(os.Stderr, err)
		return 2
	}
	defer os.RemoveAll(work)
	c.Work = work
	merged := NewReport()
	var crashes []crash
	if ch.Driver != nil {
		c.R = merged
		ch.Driver(c)
	} else {
		procs := runtime.NumCPU()
		if procs > 16 {
			procs = 16
		}
		if ch.Procs != nil {
			procs = ch.Procs(c)
		}
		crashes = fanOut(ch, c, work, procs, merged)
	}
	ev := &Evidence{PropertyID: c.Prop, Tier: c.Tier, Seed: c.Seed, Level: "exploration",
		Coverage: map[string]any{}, Assumptions: ch.Assumptions}
	var gates []string
	for _, cr := range crashes {
		what := fmt.Sprintf("worker %d exit=%d at case %d (reproduced in isolation: %v): %s", cr.Shard, cr.Exit, cr.Case, cr.Repro, firstLines(cr.Tail, 6))
		// a reproduced crash whose panic / fatal error comes out of zlint's own code (innermost non-runtime frame of
		// the dump) is the library failing under the monitored operation: a violation for whichever property's
		// operation it was; one out of the harness is a broken check (gate failure, no verdict)
		if cr.Repro && (ch.CrashIsViolation || crashInZlint(cr.Tail)) {
			kind := "crash"
			if cr.Exit == 97 {
				kind = "stall"
			}
			merged.Violate(Violation{Property: c.Prop, Key: fmt.Sprintf("%s|%s|%s", c.Prop, kind, crashSig(cr.Tail)), What: what,
				Case: cr.Case, Tier: c.Tier, Seed: c.Seed, Extra: map[string]any{"log_tail": cr.Tail}})
		} else {
			merged.Inconcl(what)
			gates = append(gates, "worker crashed or stalled: "+what)
		}
	}
	if ch.Finish != nil {
		if ch.Setup != nil && ch.Driver == nil {
			// the driver needs the same inventory / workload view as the workers to judge observation gates
			if err := ch.Setup(c); err != nil {
				fmt.Fprintln(os.Stderr, "driver setup:", err)
				return 2
			}
		}
		gates = append(gates, ch.Finish(c, merged, ev)...)
	}
	// verdicts
	findings, err := LoadFindings(filepath.Join(c.Home, "known_findings.txt"))
	if err != nil {
		fmt.Fprintln(os.Stderr, err)
		return 2
	}
	known := map[string]Finding{}
	for _, f := range findings {
		if f.Status == "known" {
			known[f.Key] = f
		}
	}
	sort.Slice(merged.Violations, func(i, j int) bool { return merged.Violations[i].Key < merged.Violations[j].Key })
	unlisted := 0
	var knownSeen []string
	repDir := filepath.Join(c.Home, "replays", c.Prop)
	if d := os.Getenv("VERIF_EVIDENCE_DIR"); d != "" {
		repDir = filepath.Join(d, "replays", c.Prop)
	}
	for _, v := range merged.Violations {
		if f, ok := known[v.Key]; ok {
			fmt.Printf("KNOWN-FINDING: property=%s %s (key=%s, seen %d times this run)\n", c.Prop, f.Text, v.Key, v.Count)
			knownSeen = append(knownSeen, v.Key)
			continue
		}
		unlisted++
		_ = os.MkdirAll(repDir, 0o755)
		h := sha256.Sum256([]byte(v.Key))
		path := filepath.Join(repDir, hex.EncodeToString(h[:6])+".json")
		b, _ := json.MarshalIndent(v, "", " ")
		_ = os.WriteFile(path, b, 0o644)
		if unlisted <= 40 {
			fmt.Printf("VIOLATION property=%s replay=%s\n", c.Prop, path)
			fmt.Printf("  key=%s count=%d :: %s\n", v.Key, v.Count, v.What)
		}
	}
	// evidence
	cov := ev.Coverage
	if _, ok := cov["evaluations"]; !ok {
		cov["evaluations"] = merged.Counters["evaluations"]
	}
	if _, ok := cov["distinct_nontrivial"]; !ok {
		cov["distinct_nontrivial"] = merged.Counters["distinct_nontrivial"]
	}
	if _, ok := cov["rule"]; !ok {
		cov["rule"] = ch.Rule
	}
	if _, ok := cov["samples"]; !ok {
		cov["samples"] = merged.Samples
	}
	if l, ok := cov["samples"].([]any); ok && len(l) == 0 {
		gates = append(gates, "the run recorded no sample case for the evidence")
	}
	cov["counters"] = merged.Counters
	setSizes := map[string]int{}
	for k, m := range merged.Sets {
		setSizes[k] = len(m)
	}
	cov["distinct_sets"] = setSizes
	cov["cross_observations"] = merged.Cross
	cov["inconclusive"] = merged.Inconclusive
	cov["known_findings_seen"] = knownSeen
	cov["gate_failures"] = gates
	for k, v := range merged.Notes {
		if _, ok := cov[k]; !ok {
			cov[k] = v
		}
	}
	ev.Violations = unlisted
	ev.WallS = time.Since(t0).Seconds()
	if err := WriteEvidence(c.Home, ev); err != nil {
		fmt.Fprintln(os.Stderr, "evidence:", err)
		return 2
	}
	fmt.Printf("%s %s seed=%d: evaluations=%v distinct_nontrivial=%v violations=%d known=%d inconclusive=%d wall=%.1fs\n",
		c.Prop, c.Tier, c.Seed, cov["evaluations"], cov["distinct_nontrivial"], unlisted, len(knownSeen), len(merged.Inconclusive), ev.WallS)
	if unlisted > 0 {
		return 1
	}
	if len(gates) > 0 {
		for _, g := range gates {
			fmt.Printf("OBSERVATION-GATE-FAILED property=%s :: %s\n", c.Prop, g)
		}
		return 2
	}
	return 0
}

func fanOut(ch *Check, c *Ctx, work string, procs int, merged *Report) []crash {
	exe, _ := os.Executable()
	outer := 40 * time.Minute
	if c.Thorough() {
		outer = 6 * time.Hour
	}
	ctx, cancel := context.WithTimeout(context.Background(), outer)
	defer cancel()
	type res struct {
		shard int
		err   error
	}
	nw := procs
	if ch.Solo != nil {
		nw = procs + 1
	}
	resc := make(chan res, nw)
	for i := 0; i < nw; i++ {
		go func(i int) {
			out := filepath.Join(work, fmt.Sprintf("w%d.json", i))
			logf, _ := os.Create(filepath.Join(work, fmt.Sprintf("w%d.log", i)))
			defer logf.Close()
			cmd := exec.CommandContext(ctx, exe, c.Prop, c.Tier, "-worker", "-shard", strconv.Itoa(i), "-of", strconv.Itoa(procs), "-out", out, "-work", work)
			if i == procs {
				cmd.Args = append(cmd.Args, "-solo")
			}
			cmd.Stdout, cmd.Stderr = logf, logf
			cmd.Env = append(os.Environ(), "GOMAXPROCS=2")
			if ch.WorkerEnv != nil {
				cmd.Env = append(cmd.Env, ch.WorkerEnv(c, work)...)
			}
			resc <- res{i, cmd.Run()}
		}(i)
	}
	var crashes []crash
	for k := 0; k < nw; k++ {
		r := <-resc
		out := filepath.Join(work, fmt.Sprintf("w%d.json", r.shard))
		if r.err == nil {
			if rep, err := ReadReport(out); err == nil {
				merged.Merge(rep)
				continue
			}
		}
		if rep, err := ReadReport(out + ".partial"); err == nil { // what the worker had observed before it died
			merged.Merge(rep)
		}
		cr := crash{Shard: r.shard, Exit: -1, Case: -1}
		if ee, ok := r.err.(*exec.ExitError); ok {
			cr.Exit = ee.ExitCode()
		}
		if b, err := os.ReadFile(out + ".progress"); err == nil {
			cr.Case, _ = strconv.Atoi(strings.TrimLeft(strings.TrimSpace(string(b)), "0"))
		}
		if b, err := os.ReadFile(filepath.Join(work, fmt.Sprintf("w%d.log", r.shard))); err == nil {
			if len(b) > 6000 {
				b = b[:6000]
			}
			cr.Tail = string(b)
		}
		crashes = append(crashes, cr)
	}
	// reproduce each crash in isolation (all of them at once: a stalled case costs a whole watchdog period, and a hang
	// in zlint usually stalls every worker that meets a member of the same family)
	var rwg sync.WaitGroup
	var rmu sync.Mutex
	for i := range crashes {
		cr := &crashes[i]
		if cr.Case < 0 {
			continue
		}
		rwg.Add(1)
		go func(i int, cr *crash) {
			defer rwg.Done()
			rctx, rc := context.WithTimeout(context.Background(), 10*time.Minute)
			defer rc()
			out := filepath.Join(work, fmt.Sprintf("repro%d.json", i))
			cmd := exec.CommandContext(rctx, exe, c.Prop, c.Tier, "-worker", "-only", strconv.Itoa(cr.Case), "-out", out, "-work", work)
			if ch.WorkerEnv != nil {
				cmd.Env = append(os.Environ(), ch.WorkerEnv(c, work)...)
			}
			b, err := cmd.CombinedOutput()
			rmu.Lock()
			defer rmu.Unlock()
			if err != nil {
				cr.Repro = true
				if len(b) > 6000 {
					b = b[:6000]
				}
				cr.Tail = string(b)
			} else if rep, err := ReadReport(out); err == nil {
				merged.Merge(rep)
			}
		}(i, cr)
	}
	rwg.Wait()
	return crashes
}

func firstLines(s string, n int) string {
	l := strings.Split(s, "\n")
	if len(l) > n {
		l = l[:n]
	}
	return strings.Join(l, " / ")
}

// crashSig extracts a stable signature (first zlint frame or first line).
func crashSig(tail string) string {
	for _, l := range strings.Split(tail, "\n") {
		l = strings.TrimSpace(l)
		if strings.HasPrefix(l, "github.com/zmap/zlint/v3") {
			if i := strings.Index(l, "("); i > 0 {
				l = l[:i]
			}
			return l
		}
	}
	for _, l := range strings.Split(tail, "\n") {
		if strings.HasPrefix(l, "fatal error:") || strings.HasPrefix(l, "panic:") {
			return strings.TrimSpace(l)
		}
	}
	return "unknown"
}

// crashInZlint: is the innermost non-runtime frame of the first goroutine dump in the log a zlint frame?
func crashInZlint(log string) bool {
	seenGoroutine := false
	for _, l := range strings.Split(log, "\n") {
		t := strings.TrimSpace(l)
		if strings.HasPrefix(t, "goroutine ") {
			if seenGoroutine {
				return false
			}
			seenGoroutine = true
			continue
		}
		if !seenGoroutine || strings.HasPrefix(t, "/") || t == "" {
			continue
		}
		switch {
		case strings.HasPrefix(t, "runtime."), strings.HasPrefix(t, "runtime/"), strings.HasPrefix(t, "panic("), strings.HasPrefix(t, "testing."), strings.HasPrefix(t, "reflect."), strings.HasPrefix(t, "sync."), strings.HasPrefix(t, "created by"):
			continue
		case strings.HasPrefix(t, "github.com/zmap/zlint/"):
			return true
		case strings.Contains(t, "(") || strings.Contains(t, "."):
			return false
		}
	}
	return false
}
